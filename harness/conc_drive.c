// Concurrency driver for C12 (and the history part of C15): N threads call module-level entry points, table-based
// kernels and the *_simple convenience functions on SHARED modules / tables with thread-private data.
// Every call is bracketed by Enter/Exit events (through the library's own event buffer, so that they are totally
// ordered with the cache-slot events emitted by the hooks); Exit carries a hash of the outputs.
// The event buffer is dumped to a file; the decision is taken by SimpleCacheTrace.tla.
//
//   conc_drive <warm|cold> <nthreads> <iters> <seed> <outfile>
#include <pthread.h>
#include <stdint.h>
#include <stdio.h>
#include <stdlib.h>
#include <string.h>

#include "spqlios/commons_private.h"
#include "spqlios/arithmetic/vec_znx_arithmetic.h"
#include "spqlios/cplx/cplx_fft.h"
#include "spqlios/q120/q120_arithmetic.h"
#include "spqlios/q120/q120_ntt.h"
#include "spqlios/reim/reim_fft.h"
#include "spqlios/reim4/reim4_fftvec_public.h"
#include "spqlios/reim4/reim4_arithmetic.h"
#include "spqlios/coeffs/coeffs_arithmetic.h"

enum { EV_MISS = 1, EV_USE = 2, EV_ENTER_MOD = 10, EV_EXIT_MOD = 11, EV_ENTER_SIMPLE = 12, EV_EXIT_SIMPLE = 13,
       EV_WARMUP_DONE = 20, EV_REFERENCE = 21, EV_THREADS_DONE = 22 };

#define NBIG 256
#define NHUGE 4096
#define NREC 16384
#define NMAX 65536
#define NSMALL 4
#define NNTT 64

static MODULE *modBig, *modSmall, *modNtt, *modHuge, *modRec, *modMax, *mod16;
static MODULE* modAll[6];
static const uint64_t nAll[6] = {4, 16, 256, 4096, 16384, 65536};
static REIM_FFT_PRECOMP* pReimFft;
static REIM_IFFT_PRECOMP* pReimIfft;
static CPLX_FFT_PRECOMP* pCplxFft;
static CPLX_IFFT_PRECOMP* pCplxIfft;
static REIM_FFTVEC_ADDMUL_PRECOMP* pAddmul;
static REIM_FROM_ZNX64_PRECOMP* pFromZnx;
static REIM_TO_ZNX64_PRECOMP* pToZnx;
static REIM_TO_ZNX64_PRECOMP *pToZnxA, *pToZnxB;
static CPLX_TO_TNX32_PRECOMP *pTnxA, *pTnxB;
static REIM_TO_TNX_PRECOMP *pToTnxA, *pToTnxB;
static q120_ntt_precomp *pNtt, *pIntt;
static q120_mat1col_product_baa_precomp* pBaa;
static q120_mat1col_product_bbb_precomp* pBbb;
static q120_mat1col_product_bbc_precomp* pBbc;
static uint64_t gseed;
static uint32_t g_cpu_mask;

static uint64_t splitmix(uint64_t* s) {
  uint64_t z = (*s += 0x9E3779B97F4A7C15ull);
  z = (z ^ (z >> 30)) * 0xBF58476D1CE4E5B9ull;
  z = (z ^ (z >> 27)) * 0x94D049BB133111EBull;
  return z ^ (z >> 31);
}
static uint64_t fnv(uint64_t h, const void* p, size_t n) {
  const uint8_t* b = (const uint8_t*)p;
  for (size_t i = 0; i < n; ++i) h = (h ^ b[i]) * 0x100000001B3ull;
  return h;
}
static void fill_small(int64_t* v, size_t n, uint64_t* s, int bits) {
  for (size_t i = 0; i < n; ++i) v[i] = (int64_t)(splitmix(s) >> (64 - bits)) - ((int64_t)1 << (bits - 1));
}
static void fill_dbl(double* v, size_t n, uint64_t* s) {
  for (size_t i = 0; i < n; ++i) v[i] = (double)((int64_t)(splitmix(s) >> 44) - (1 << 19));
}
// every buffer starts from the same bytes, so that a hash never depends on memory the library did not write
static void* al(size_t n) {
  size_t sz = (n + 63) & ~(size_t)63;
  void* p = aligned_alloc(64, sz ? sz : 64);
  memset(p, 0x5A, sz ? sz : 64);
  return p;
}

#define NOPS 36
#define NVAR 3                 // every operation exists in NVAR variants that differ by their data only (op number = base + NOPS * variant)
#define NOPV (NOPS * NVAR)
static const int op_class[NOPS] = {0, 0, 0, 0, 0, 0, 0, 0, 0, 0, 0, 0, 0, 0, 1, 1, 1, 1, 1, 1, 1, 1,   // 0: module/table, 1: simple
                                   0, 0, 0, 0, 0, 0, 0, 0, 0, 0, 0, 0, 0, 0};
#define OP_FRESH 29   // every thread runs it first, released together by a barrier: first use of a dimension, side by side  // 22..27: a thread builds its OWN object, uses it and deletes it

// runs operation `op` on private data derived from (gseed, op) only; returns the hash of everything it produced
static uint64_t run_op(int opv) {
  uint64_t s = gseed * 1000003ull + (uint64_t)opv;      // the variant changes the data only
  const int op = opv % NOPS;
  const int var = opv / NOPS;      // 0 .. NVAR-1: also selects dimensions and operand magnitudes where an operation has a choice
  uint64_t h = 0xCBF29CE484222325ull;
  // an NTT120 module has accelerated entry points only: under a mask that denies them its table is empty, nothing to call
  if (g_cpu_mask && (op == 7 || (op >= 22 && op <= 24))) return h;
  switch (op) {
    case 0: {  // vec_znx_add / sub / negate / copy, 3 limbs
      const uint64_t n = NBIG, sl = NBIG + 8;
      int64_t *a = al(8 * 3 * sl), *b = al(8 * 3 * sl), *r = al(8 * 3 * sl);
      fill_small(a, 3 * sl, &s, 50); fill_small(b, 3 * sl, &s, 50); memset(r, 0, 8 * 3 * sl);
      vec_znx_add(modBig, r, 3, sl, a, 3, sl, b, 2, sl); h = fnv(h, r, 8 * 3 * sl);
      vec_znx_sub(modBig, r, 3, sl, a, 2, sl, b, 3, sl); h = fnv(h, r, 8 * 3 * sl);
      vec_znx_negate(modBig, r, 2, sl, a, 3, sl); h = fnv(h, r, 8 * 3 * sl);
      vec_znx_copy(modBig, r, 3, sl, b, 1, sl); h = fnv(h, r, 8 * 3 * sl);
      (void)n; free(a); free(b); free(r);
      break;
    }
    case 1: {  // normalisation
      const uint64_t n = NBIG;
      int64_t *a = al(8 * 4 * n), *r = al(8 * 4 * n);
      uint8_t* tmp = al(vec_znx_normalize_base2k_tmp_bytes(modBig));
      fill_small(a, 4 * n, &s, 60); memset(r, 0, 8 * 4 * n);
      vec_znx_normalize_base2k(modBig, 19, r, 3, n, a, 4, n, tmp); h = fnv(h, r, 8 * 4 * n);
      free(a); free(r); free(tmp);
      break;
    }
    case 2: {  // dft + idft
      const uint64_t n = NBIG;
      int64_t* a = al(8 * 2 * n);
      VEC_ZNX_DFT* d = al(bytes_of_vec_znx_dft(modBig, 2));
      VEC_ZNX_BIG* g = al(bytes_of_vec_znx_big(modBig, 2));
      fill_small(a, 2 * n, &s, 30);
      vec_znx_dft(modBig, d, 2, a, 2, n);
      vec_znx_idft(modBig, g, 2, d, 2, 0); h = fnv(h, g, 8 * 2 * n);
      free(a); free(d); free(g);
      break;
    }
    case 3: {  // svp
      const uint64_t n = NBIG;
      int64_t *a = al(8 * 2 * n), *p = al(8 * n);
      SVP_PPOL* pp = al(bytes_of_svp_ppol(modBig));
      VEC_ZNX_DFT* d = al(bytes_of_vec_znx_dft(modBig, 2));
      VEC_ZNX_BIG* g = al(bytes_of_vec_znx_big(modBig, 2));
      fill_small(a, 2 * n, &s, 12); fill_small(p, n, &s, 12);
      svp_prepare(modBig, pp, p);
      svp_apply_dft(modBig, d, 2, pp, a, 2, n);
      vec_znx_idft_tmp_a(modBig, g, 2, d, 2); h = fnv(h, g, 8 * 2 * n);
      free(a); free(p); free(pp); free(d); free(g);
      break;
    }
    case 4: {  // small product (big and small module)
      for (int k = 0; k < 2; ++k) {
        MODULE* m = k ? modSmall : modBig;
        const uint64_t n = k ? NSMALL : NBIG;
        int64_t *a = al(8 * n), *b = al(8 * n), *r = al(8 * n);
        uint8_t* tmp = al(znx_small_single_product_tmp_bytes(m));
        fill_small(a, n, &s, var == 0 ? 14 : var == 1 ? 35 : 40); fill_small(b, n, &s, var == 0 ? 14 : var == 1 ? 3 : 2);   // wide times narrow too
        znx_small_single_product(m, r, a, b, tmp); h = fnv(h, r, 8 * n);
        free(a); free(b); free(r); free(tmp);
      }
      break;
    }
    case 5: {  // vmp on the small-layout and block-layout modules
      for (int k = 0; k < 4; ++k) {
        static const int which[4] = {2, 0, 1, 4};      // N = 256, 4, 16, 16384
        MODULE* m = modAll[which[k]];
        const uint64_t n = nAll[which[k]], nr = 3, nc = var == 0 ? 3 : 4;
        const uint64_t rs = var == 0 ? nc : var == 1 ? 3 : 1;      // all columns; an odd count below ncols; a single column
        int64_t *mat = al(8 * n * nr * nc), *a = al(8 * n * nr);
        VMP_PMAT* pm = al(bytes_of_vmp_pmat(m, nr, nc));
        VEC_ZNX_DFT* d = al(bytes_of_vec_znx_dft(m, nc));
        VEC_ZNX_DFT* da = al(bytes_of_vec_znx_dft(m, nr));
        VEC_ZNX_BIG* g = al(bytes_of_vec_znx_big(m, nc));
        uint8_t* t1 = al(vmp_prepare_contiguous_tmp_bytes(m, nr, nc));
        uint8_t* t2 = al(vmp_apply_dft_tmp_bytes(m, nc, nr, nr, nc) + vmp_apply_dft_to_dft_tmp_bytes(m, nc, nr, nr, nc));
        fill_small(mat, n * nr * nc, &s, 10); fill_small(a, n * nr, &s, 10);
        vmp_prepare_contiguous(m, pm, mat, nr, nc, t1);
        vmp_apply_dft(m, d, rs, a, nr, n, pm, nr, nc, t2);
        vec_znx_idft(m, g, rs, d, rs, 0); h = fnv(h, g, 8 * n * rs);
        vec_znx_dft(m, da, nr, a, nr, n);
        vmp_apply_dft_to_dft(m, d, rs, da, nr, pm, nr, nc, t2);
        vec_znx_idft(m, g, rs, d, rs, 0); h = fnv(h, g, 8 * n * rs);
        free(mat); free(a); free(pm); free(d); free(da); free(g); free(t1); free(t2);
      }
      break;
    }
    case 6: {  // rotation / automorphism, in place and out of place; the variants differ by p and by the limb counts too, so
               // that threads inside the same shared module use different Galois elements / rotations at the same time
      const uint64_t n = NBIG;
      const uint64_t nl = var == 0 ? 2 : var == 1 ? 5 : 8;
      const int64_t pa = var == 0 ? 5 : var == 1 ? 4099 : -7, pr = var == 0 ? 77 : var == 1 ? -300 : 1234567;
      int64_t *a = al(8 * nl * n), *r = al(8 * nl * n);
      fill_small(a, nl * n, &s, 60);
      vec_znx_rotate(modBig, pr, r, nl, n, a, nl, n); h = fnv(h, r, 8 * nl * n);
      vec_znx_automorphism(modBig, 5, r, 2, n, r, 2, n); h = fnv(h, r, 8 * nl * n);
      vec_znx_rotate(modBig, -3, r, 2, n, r, 2, n); h = fnv(h, r, 8 * nl * n);
      for (int rep = 0; rep < 6; ++rep) {      // out of place, all limbs, small and big forms (several rounds: time spent inside)
        vec_znx_automorphism(modBig, pa, r, nl, n, a, nl, n); h = fnv(h, r, 8 * nl * n);
        vec_znx_big_automorphism(modBig, pa + 2 * rep, (VEC_ZNX_BIG*)a, nl, (const VEC_ZNX_BIG*)r, nl); h = fnv(h, a, 8 * nl * n);
        vec_znx_big_rotate(modBig, pr + rep, (VEC_ZNX_BIG*)r, nl, (const VEC_ZNX_BIG*)a, nl); h = fnv(h, r, 8 * nl * n);
      }
      free(a); free(r);
      break;
    }
    case 28: {  // large dimensions (three of them), everything in place (coefficient and big-coefficient forms)
      for (int q = 0; q < 6; ++q) {
        const uint64_t n = nAll[q];
        const MODULE* md = modAll[q];
        int64_t* r = al(8 * 2 * n);
        fill_small(r, 2 * n, &s, 60);
        // (small dimensions: the calls are repeated so that every dimension keeps a thread inside them for a comparable time)
        for (uint64_t rep = 0; rep < (n >= 4096 ? 1 : 4096 / n); ++rep) {
          vec_znx_rotate(md, 1234567, r, 2, n, r, 2, n);
          vec_znx_automorphism(md, 4099, r, 2, n, r, 2, n);
          vec_znx_big_rotate(md, -77, (VEC_ZNX_BIG*)r, 2, (VEC_ZNX_BIG*)r, 2);
          vec_znx_big_automorphism(md, -5, (VEC_ZNX_BIG*)r, 2, (VEC_ZNX_BIG*)r, 2);
        }
        h = fnv(h, r, 8 * 2 * n);
        free(r);
      }
      break;
    }
    case 7: {  // NTT120 module
      const uint64_t n = NNTT;
      int64_t* a = al(8 * 2 * n);
      VEC_ZNX_DFT* d = al(32 * n * 2);
      VEC_ZNX_BIG* g = al(16 * n * 2);
      uint8_t* tmp = al(vec_znx_idft_tmp_bytes(modNtt));
      fill_small(a, 2 * n, &s, 62);
      vec_znx_dft(modNtt, d, 2, a, 2, n);
      vec_znx_idft(modNtt, g, 2, d, 2, tmp); h = fnv(h, g, 16 * n * 2);
      free(a); free(d); free(g); free(tmp);
      break;
    }
    case 8: {  // big arithmetic + big normalisation
      const uint64_t n = NBIG;
      int64_t *a = al(8 * 2 * n), *b = al(8 * 2 * n), *r = al(8 * 2 * n), *o = al(8 * 2 * n);
      uint8_t* tmp = al(vec_znx_big_normalize_base2k_tmp_bytes(modBig));
      fill_small(a, 2 * n, &s, 55); fill_small(b, 2 * n, &s, 55);
      vec_znx_big_add(modBig, (VEC_ZNX_BIG*)r, 2, (VEC_ZNX_BIG*)a, 2, (VEC_ZNX_BIG*)b, 2);
      vec_znx_big_sub_small_b(modBig, (VEC_ZNX_BIG*)r, 2, (VEC_ZNX_BIG*)r, 2, b, 1, n);
      vec_znx_big_normalize_base2k(modBig, 17, o, 2, n, (VEC_ZNX_BIG*)r, 2, tmp); h = fnv(h, o, 8 * 2 * n);
      free(a); free(b); free(r); free(o); free(tmp);
      break;
    }
    case 9: {  // reim fft / ifft on a shared table
      const uint64_t m = 32;
      double* v = al(16 * m);
      fill_dbl(v, 2 * m, &s);
      reim_fft(pReimFft, v); h = fnv(h, v, 16 * m);
      reim_ifft(pReimIfft, v); h = fnv(h, v, 16 * m);
      free(v);
      break;
    }
    case 10: {  // cplx fft / ifft on a shared table
      const uint64_t m = 32;
      double* v = al(16 * m);
      fill_dbl(v, 2 * m, &s);
      cplx_fft(pCplxFft, v); h = fnv(h, v, 16 * m);
      cplx_ifft(pCplxIfft, v); h = fnv(h, v, 16 * m);
      free(v);
      break;
    }
    case 11: {  // pointwise product on a shared table
      const uint64_t m = 32;
      double *a = al(16 * m), *b = al(16 * m), *r = al(16 * m);
      fill_dbl(a, 2 * m, &s); fill_dbl(b, 2 * m, &s); fill_dbl(r, 2 * m, &s);
      reim_fftvec_addmul(pAddmul, r, a, b); h = fnv(h, r, 16 * m);
      free(a); free(b); free(r);
      break;
    }
    case 12: {  // q120 NTT on shared tables
      const uint64_t n = NNTT;
      uint64_t* v = al(32 * n);
      for (uint64_t i = 0; i < 4 * n; ++i) v[i] = splitmix(&s);
      q120_ntt_bb_avx2(pNtt, (q120b*)v); h = fnv(h, v, 32 * n);
      q120_intt_bb_avx2(pIntt, (q120b*)v); h = fnv(h, v, 32 * n);
      free(v);
      break;
    }
    case 13: {  // conversions on shared tables
      const uint64_t m = 32;
      int64_t *x = al(16 * m), *y = al(16 * m);
      double* v = al(16 * m);
      fill_small(x, 2 * m, &s, 40);
      reim_from_znx64(pFromZnx, v, x);
      reim_to_znx64(pToZnx, y, v); h = fnv(h, y, 16 * m);
      free(x); free(y); free(v);
      break;
    }
    case 14: {  // simple: reim and cplx fft / ifft, two dimensions per call (threads are in different dimensions at the same time)
      for (int k = 0; k < 2; ++k) {
        const uint64_t m = k ? 64 : 8;
        double* v = al(16 * m);
        fill_dbl(v, 2 * m, &s);
        reim_fft_simple(m, v); h = fnv(h, v, 16 * m);
        reim_ifft_simple(m, v); h = fnv(h, v, 16 * m);
        cplx_fft_simple(m, v); h = fnv(h, v, 16 * m);
        cplx_ifft_simple(m, v); h = fnv(h, v, 16 * m);
        free(v);
      }
      break;
    }
    case 15: {  // simple: cplx fftvec, two dimensions per call
      for (int k = 0; k < 2; ++k) {
        const uint64_t m = k ? 8 : 64;
        double *a = al(16 * m), *b = al(16 * m), *r = al(16 * m);
        fill_dbl(a, 2 * m, &s); fill_dbl(b, 2 * m, &s); fill_dbl(r, 2 * m, &s);
        cplx_fftvec_mul_simple(m, r, a, b); h = fnv(h, r, 16 * m);
        cplx_fftvec_addmul_simple(m, r, a, b); h = fnv(h, r, 16 * m);
        free(a); free(b); free(r);
      }
      break;
    }
    case 16:
    case 17: {  // simple, thread-local table keyed by (m, divisor, bound): same m and divisor, bounds on both sides of the
                // kernel threshold (50); the values of the wide-bound call need the wide kernel (|x / divisor| up to 2^53)
      const uint64_t m = 16;
      const double div = 16.;
      int64_t* y = al(16 * m);
      double* v = al(16 * m);
      fill_dbl(v, 2 * m, &s);
      if (op == 17) for (uint64_t i = 0; i < 2 * m; ++i) v[i] *= 0x1p38;
      reim_to_znx64_simple(m, div, (op == 16) ? 50 : 60, y, v); h = fnv(h, y, 16 * m);
      free(y); free(v);
      break;
    }
    case 18:
    case 19: {  // simple, thread-local table of cplx_to_tnx32 keyed by (m, divisor, log2overhead)
      const uint64_t m = 16;
      const double div = (op == 18) ? 16. : 1024.;
      int32_t* y = al(8 * m);
      double* v = al(16 * m);
      fill_dbl(v, 2 * m, &s);
      cplx_to_tnx32_simple(m, div * 1048576., (op == 18) ? 10 : 16, y, v); h = fnv(h, y, 8 * m);
      free(y); free(v);
      break;
    }
    case 20: {  // simple: reim4 layout conversions and products, two dimensions per call
      for (int k = 0; k < 2; ++k) {
        const uint64_t m = k ? 128 : 16;
        double *a = al(16 * m), *b = al(16 * m), *r = al(16 * m);
        fill_dbl(a, 2 * m, &s); fill_dbl(b, 2 * m, &s);
        reim4_from_cplx_simple(m, r, a); h = fnv(h, r, 16 * m);
        reim4_to_cplx_simple(m, b, r); h = fnv(h, b, 16 * m);
        reim4_fftvec_mul_simple(m, r, a, b); h = fnv(h, r, 16 * m);
        reim4_fftvec_addmul_simple(m, r, a, b); h = fnv(h, r, 16 * m);
        free(a); free(b); free(r);
      }
      break;
    }
    case 21: for (int k21 = 0; k21 < 2; ++k21) {  // simple: conversions keyed by dimension, and the pointwise reim products, two dimensions
      const uint64_t m = k21 ? 4 : 32;
      int64_t* x = al(16 * m);
      int32_t* x32 = al(8 * m);
      double *v = al(16 * m), *w = al(16 * m), *r = al(16 * m);
      fill_small(x, 2 * m, &s, 40);
      for (uint64_t i = 0; i < 2 * m; ++i) x32[i] = (int32_t)splitmix(&s);
      reim_from_znx64_simple(m, 50, v, x); h = fnv(h, v, 16 * m);
      cplx_from_znx32_simple(m, w, x32); h = fnv(h, w, 16 * m);
      cplx_from_tnx32_simple(m, w, x32); h = fnv(h, w, 16 * m);
      fill_dbl(v, 2 * m, &s); fill_dbl(w, 2 * m, &s); fill_dbl(r, 2 * m, &s);
      reim_fftvec_mul_simple(m, r, v, w); h = fnv(h, r, 16 * m);
      reim_fftvec_addmul_simple(m, r, v, w); h = fnv(h, r, 16 * m);
      free(x); free(x32); free(v); free(w); free(r);
    }
      break;
    case 22:
    case 23:
    case 24: {  // own NTT120 module of dimension 16 / 128 / 1024: constructors running side by side in several threads
      const uint64_t n = (op == 22) ? 16 : (op == 23) ? 128 : 1024;
      MODULE* m = new_module_info(n, NTT120);
      int64_t* a = al(8 * 2 * n);
      VEC_ZNX_DFT* d = al(32 * 2 * n);   // (the bytes_of_* entries of an NTT120 module are not populated)
      VEC_ZNX_BIG* g = al(16 * 2 * n);
      uint8_t* tmp = al(vec_znx_idft_tmp_bytes(m));
      fill_small(a, 2 * n, &s, 60);
      vec_znx_dft(m, d, 2, a, 2, n); h = fnv(h, d, 32 * 2 * n);
      vec_znx_idft(m, g, 2, d, 2, tmp); h = fnv(h, g, 16 * 2 * n);
      free(a); free(d); free(g); free(tmp);
      delete_module_info(m);
      break;
    }
    case 25: {  // own FFT64 module (a dimension per variant: modules of different dimensions are built side by side)
      const uint64_t n = var == 0 ? 64 : var == 1 ? 32768 : 65536;
      MODULE* m = new_module_info(n, FFT64);
      int64_t *a = al(8 * n), *b = al(8 * n), *r = al(8 * n);
      uint8_t* tmp = al(znx_small_single_product_tmp_bytes(m));
      fill_small(a, n, &s, 14); fill_small(b, n, &s, 14);
      znx_small_single_product(m, r, a, b, tmp); h = fnv(h, r, 8 * n);
      free(a); free(b); free(r); free(tmp);
      delete_module_info(m);
      break;
    }
    case 26: {  // own FFT tables, both layouts and directions, two dimensions
      for (int k = 0; k < 2; ++k) {
        const uint32_t m = (k ? 32 : 256) << (4 * var);      // 32 / 256, 512 / 4096, 8192 / 65536
        double* v = al(16 * m);
        fill_dbl(v, 2 * m, &s);
        REIM_FFT_PRECOMP* f = new_reim_fft_precomp(m, 0);
        REIM_IFFT_PRECOMP* fi = new_reim_ifft_precomp(m, 0);
        CPLX_FFT_PRECOMP* c = new_cplx_fft_precomp(m, 0);
        CPLX_IFFT_PRECOMP* ci = new_cplx_ifft_precomp(m, 0);
        reim_fft(f, v); h = fnv(h, v, 16 * m);
        reim_ifft(fi, v); h = fnv(h, v, 16 * m);
        cplx_fft(c, v); h = fnv(h, v, 16 * m);
        cplx_ifft(ci, v); h = fnv(h, v, 16 * m);
        free(f); free(fi); free(c); free(ci); free(v);
      }
      break;
    }
    case 30:
    case 31: {  // table-based conversion kernels on two shared tables that differ only in the divisor (reference kernel: overhead 30)
      const uint64_t m = 16;
      int32_t* y = al(8 * m);
      double* v = al(16 * m);
      fill_dbl(v, 2 * m, &s);
      cplx_to_tnx32(op == 30 ? pTnxA : pTnxB, y, v); h = fnv(h, y, 8 * m);
      int64_t* z = al(16 * m);
      reim_to_znx64(op == 30 ? pToZnxA : pToZnxB, z, v); h = fnv(h, z, 16 * m);
      double* w = al(16 * m);
      reim_to_tnx(op == 30 ? pToTnxA : pToTnxB, w, v); h = fnv(h, w, 16 * m);
      free(y); free(v); free(z); free(w);
      break;
    }
    case 33: {  // transforms in the recursive regime (m = 8192 > 2048) on a shared module, both inverse forms
      const uint64_t n = NREC;
      int64_t* a = al(8 * n);
      VEC_ZNX_DFT* d = al(bytes_of_vec_znx_dft(modRec, 1));
      VEC_ZNX_BIG* g = al(bytes_of_vec_znx_big(modRec, 1));
      fill_small(a, n, &s, 30);
      vec_znx_dft(modRec, d, 1, a, 1, n); h = fnv(h, d, 8 * n);
      vec_znx_idft(modRec, g, 1, d, 1, 0); h = fnv(h, g, 8 * n);
      vec_znx_idft_tmp_a(modRec, g, 1, d, 1); h = fnv(h, g, 8 * n);
      free(a); free(d); free(g);
      break;
    }
    case 32: {  // scratch at an odd address (a uint8_t* argument): the result may not depend on it, nor may shared state be used instead
      const uint64_t n = NBIG;
      int64_t *a = al(8 * n), *b = al(8 * n), *r = al(8 * n);
      uint8_t* tmp = al(znx_small_single_product_tmp_bytes(modBig) + 64);
      fill_small(a, n, &s, 14); fill_small(b, n, &s, 14);
      znx_small_single_product(modBig, r, a, b, tmp + 1); h = fnv(h, r, 8 * n);
      int64_t* x = al(8 * 3 * n);
      uint8_t* t2 = al(vec_znx_normalize_base2k_tmp_bytes(modBig) + 64);
      fill_small(x, 3 * n, &s, 60);
      vec_znx_normalize_base2k(modBig, 17, r, 1, n, x, 3, n, t2 + 3); h = fnv(h, r, 8 * n);
      free(a); free(b); free(r); free(tmp); free(x); free(t2);
      break;
    }
    case 29: {  // own tables and module of dimensions nobody has used before in this process (large: the constructors take long)
      const uint32_t m = 8192;
      double* v = al(16 * m);
      fill_dbl(v, 2 * m, &s);
      REIM_FFT_PRECOMP* f = new_reim_fft_precomp(m, 0);
      REIM_IFFT_PRECOMP* fi = new_reim_ifft_precomp(m, 0);
      reim_fft(f, v); h = fnv(h, v, 16 * m);
      reim_ifft(fi, v); h = fnv(h, v, 16 * m);
      CPLX_FFT_PRECOMP* c = new_cplx_fft_precomp(m, 0);
      cplx_fft(c, v); h = fnv(h, v, 16 * m);
      free(f); free(fi); free(c); free(v);
      const uint64_t n = 2048;
      MODULE* mo = new_module_info(n, FFT64);
      int64_t *a = al(8 * n), *b = al(8 * n), *r = al(8 * n);
      uint8_t* tmp = al(znx_small_single_product_tmp_bytes(mo));
      fill_small(a, n, &s, 14); fill_small(b, n, &s, 14);
      znx_small_single_product(mo, r, a, b, tmp); h = fnv(h, r, 8 * n);
      free(a); free(b); free(r); free(tmp);
      delete_module_info(mo);
      {  // own q120 product tables of the three kinds, used at once
        q120_mat1col_product_baa_precomp* taa = q120_new_vec_mat1col_product_baa_precomp();
        q120_mat1col_product_bbb_precomp* tbb = q120_new_vec_mat1col_product_bbb_precomp();
        q120_mat1col_product_bbc_precomp* tbc = q120_new_vec_mat1col_product_bbc_precomp();
        const uint64_t ell = 33;
        uint64_t *qx = al(32 * 2 * ell), *qy = al(64 * 4 * ell), *qr = al(32 * 4);
        for (uint64_t i = 0; i < 4 * 2 * ell; ++i) qx[i] = splitmix(&s);
        for (uint64_t i = 0; i < 8 * 4 * ell; ++i) qy[i] = splitmix(&s) & 0xFFFFFFFFull;
        q120_vec_mat1col_product_bbb_avx2(tbb, ell, (q120b*)qr, (q120b*)qx, (q120b*)(qx + 4 * ell)); h = fnv(h, qr, 32);
        q120_vec_mat1col_product_baa_ref(taa, ell, (q120b*)qr, (q120a*)qy, (q120a*)(qy + 4 * ell)); h = fnv(h, qr, 32);
        q120_vec_mat1col_product_bbc_ref(tbc, ell, (q120b*)qr, (q120b*)qx, (q120c*)qy); h = fnv(h, qr, 32);
        q120x2_vec_mat2cols_product_bbc_avx2(tbc, ell, (q120b*)qr, (q120b*)qx, (q120c*)qy); h = fnv(h, qr, 128);
        free(qx); free(qy); free(qr);
        q120_delete_vec_mat1col_product_baa_precomp(taa);
        q120_delete_vec_mat1col_product_bbb_precomp(tbb);
        q120_delete_vec_mat1col_product_bbc_precomp(tbc);
      }
      break;
    }
    case 27: {  // own q120 NTT tables
      const uint64_t n = 256;
      q120_ntt_precomp* pn = q120_new_ntt_bb_precomp(n);
      q120_ntt_precomp* pi = q120_new_intt_bb_precomp(n);
      uint64_t* v = al(32 * n);
      for (uint64_t i = 0; i < 4 * n; ++i) v[i] = splitmix(&s);
      q120_ntt_bb_avx2(pn, (q120b*)v); h = fnv(h, v, 32 * n);
      q120_intt_bb_avx2(pi, (q120b*)v); h = fnv(h, v, 32 * n);
      free(v);
      q120_del_ntt_bb_precomp(pn);
      q120_del_intt_bb_precomp(pi);
      break;
    }
    case 35: {  // objects obtained from the library's own allocation functions (128 kB and more each), used and released
      for (int q = 3; q < 5; ++q) {
        const uint64_t n = nAll[q];
        const MODULE* md = modAll[q];
        VEC_ZNX_DFT* d = new_vec_znx_dft(md, 4);
        VEC_ZNX_BIG* g = new_vec_znx_big(md, 4);
        SVP_PPOL* pp = new_svp_ppol(md);
        VMP_PMAT* pm = new_vmp_pmat(md, 2, 2);
        int64_t* a = al(8 * n * 4);
        fill_small(a, 4 * n, &s, 12);
        svp_prepare(md, pp, a);
        svp_apply_dft(md, d, 4, pp, a, 4, n);
        vec_znx_idft_tmp_a(md, g, 4, d, 4); h = fnv(h, g, 8 * n * 4);
        uint8_t* t1 = al(vmp_prepare_contiguous_tmp_bytes(md, 2, 2));
        vmp_prepare_contiguous(md, pm, a, 2, 2, t1); h = fnv(h, pm, bytes_of_vmp_pmat(md, 2, 2));
        free(t1); free(a);
        delete_vec_znx_dft(d); delete_vec_znx_big(g); delete_svp_ppol(pp); delete_vmp_pmat(pm);
      }
      break;
    }
    case 34: {  // kernels without any table or module, called directly in their portable and accelerated variants, on private data
      // reim4 blocks: dot products, convolutions, extract / save
      const uint64_t nr = 5 + (s % 7);
      double *u = al(8 * 8 * 16), *v = al(8 * 16 * 16), *d = al(8 * 64);
      fill_dbl(u, 8 * 16, &s); fill_dbl(v, 16 * 16, &s);
      reim4_vec_mat1col_product_ref(nr, d, u, v); h = fnv(h, d, 64);
      reim4_vec_mat1col_product_avx2(nr, d, u, v); h = fnv(h, d, 64);
      reim4_vec_mat2cols_product_ref(nr, d, u, v); h = fnv(h, d, 128);
      reim4_vec_mat2cols_product_avx2(nr, d, u, v); h = fnv(h, d, 128);
      for (uint64_t k = 0; k < 12; k += 5) {
        reim4_convolution_1coeff_ref(k, d, u, 7, v, 6); h = fnv(h, d, 64);
        reim4_convolution_2coeff_ref(k, d, u, 7, v, 6); h = fnv(h, d, 128);
      }
      reim4_convolution_ref(d, 5, 3, u, 7, v, 6); h = fnv(h, d, 8 * 8 * 5);
      {
        const uint64_t m = 16;
        double *x = al(8 * 2 * m * 3), *blk = al(8 * 8 * 3), *y = al(8 * 2 * m);
        fill_dbl(x, 2 * m * 3, &s);
        reim4_extract_1blk_from_reim_ref(m, 2, blk, x); h = fnv(h, blk, 64);
        reim4_extract_1blk_from_reim_avx(m, 1, blk, x); h = fnv(h, blk, 64);
        reim4_extract_1blk_from_contiguous_reim_ref(m, 3, 2, blk, x); h = fnv(h, blk, 64 * 3);
        reim4_extract_1blk_from_contiguous_reim_avx(m, 3, 3, blk, x); h = fnv(h, blk, 64 * 3);
        memset(y, 0, 8 * 2 * m);
        reim4_save_1blk_to_reim_ref(m, 1, y, blk); reim4_save_1blk_to_reim_avx(m, 3, y, blk + 8); h = fnv(h, y, 8 * 2 * m);
        free(x); free(blk); free(y);
      }
      free(u); free(v); free(d);
      // q120 products on the process-wide tables
      {
        const uint64_t ell = 40 + (s % 9);
        uint64_t *qx = al(32 * 2 * ell), *qy = al(64 * 4 * ell), *qr = al(32 * 4);
        for (uint64_t i = 0; i < 4 * 2 * ell; ++i) qx[i] = splitmix(&s);
        for (uint64_t i = 0; i < 8 * 4 * ell; ++i) qy[i] = splitmix(&s) & 0xFFFFFFFFull;      // a / c layouts: 32-bit entries
        q120_vec_mat1col_product_bbb_ref(pBbb, ell, (q120b*)qr, (q120b*)qx, (q120b*)(qx + 4 * ell)); h = fnv(h, qr, 32);
        q120_vec_mat1col_product_bbb_avx2(pBbb, ell, (q120b*)qr, (q120b*)qx, (q120b*)(qx + 4 * ell)); h = fnv(h, qr, 32);
        q120_vec_mat1col_product_baa_ref(pBaa, ell, (q120b*)qr, (q120a*)qy, (q120a*)(qy + 4 * ell)); h = fnv(h, qr, 32);
        q120_vec_mat1col_product_baa_avx2(pBaa, ell, (q120b*)qr, (q120a*)qy, (q120a*)(qy + 4 * ell)); h = fnv(h, qr, 32);
        q120_vec_mat1col_product_bbc_ref(pBbc, ell, (q120b*)qr, (q120b*)qx, (q120c*)qy); h = fnv(h, qr, 32);
        q120_vec_mat1col_product_bbc_avx2(pBbc, ell, (q120b*)qr, (q120b*)qx, (q120c*)qy); h = fnv(h, qr, 32);
        q120x2_vec_mat1col_product_bbc_ref(pBbc, ell, (q120b*)qr, (q120b*)qx, (q120c*)qy); h = fnv(h, qr, 64);
        q120x2_vec_mat1col_product_bbc_avx2(pBbc, ell, (q120b*)qr, (q120b*)qx, (q120c*)qy); h = fnv(h, qr, 64);
        q120x2_vec_mat2cols_product_bbc_ref(pBbc, ell, (q120b*)qr, (q120b*)qx, (q120c*)qy); h = fnv(h, qr, 128);
        q120x2_vec_mat2cols_product_bbc_avx2(pBbc, ell, (q120b*)qr, (q120b*)qx, (q120c*)qy); h = fnv(h, qr, 128);
        free(qx); free(qy); free(qr);
      }
      // coefficient kernels, both variants, and the ring maps out of place and in place at a small and a large dimension
      for (int q = 0; q < 2; ++q) {
        const uint64_t n = q ? 16384 : 64;
        int64_t *a = al(8 * n), *b = al(8 * n), *r = al(8 * n);
        double *fa = al(8 * n), *fr = al(8 * n);
        fill_small(a, n, &s, 60); fill_small(b, n, &s, 60); fill_dbl(fa, n, &s);
        znx_add_i64_ref(n, r, a, b); h = fnv(h, r, 8 * n);
        znx_add_i64_avx(n, r, a, b); h = fnv(h, r, 8 * n);
        znx_sub_i64_ref(n, r, a, b); h = fnv(h, r, 8 * n);
        znx_sub_i64_avx(n, r, a, b); h = fnv(h, r, 8 * n);
        znx_negate_i64_ref(n, r, a); h = fnv(h, r, 8 * n);
        znx_negate_i64_avx(n, r, a); h = fnv(h, r, 8 * n);
        znx_rotate_i64(n, 12345, r, a); h = fnv(h, r, 8 * n);
        znx_automorphism_i64(n, 7, r, a); h = fnv(h, r, 8 * n);
        znx_mul_xp_minus_one(n, -3, r, a); h = fnv(h, r, 8 * n);
        znx_rotate_inplace_i64(n, 77, r); h = fnv(h, r, 8 * n);
        znx_automorphism_inplace_i64(n, -5, r); h = fnv(h, r, 8 * n);
        rnx_divide_by_m_ref(n, 64., fr, fa); h = fnv(h, fr, 8 * n);
        rnx_divide_by_m_avx(n, 64., fr, fa); h = fnv(h, fr, 8 * n);
        rnx_rotate_f64(n, 31, fr, fa); h = fnv(h, fr, 8 * n);
        rnx_automorphism_f64(n, 9, fr, fa); h = fnv(h, fr, 8 * n);
        rnx_mul_xp_minus_one(n, 5, fr, fa); h = fnv(h, fr, 8 * n);
        rnx_rotate_inplace_f64(n, -9, fr); h = fnv(h, fr, 8 * n);
        rnx_automorphism_inplace_f64(n, 3, fr); h = fnv(h, fr, 8 * n);
        rnx_mul_xp_minus_one_inplace(n, 11, fr); h = fnv(h, fr, 8 * n);
        int64_t* c = al(8 * n);
        znx_normalize(n, 19, r, c, a, 0); h = fnv(h, r, 8 * n); h = fnv(h, c, 8 * n);
        znx_normalize(n, 19, r, 0, b, c); h = fnv(h, r, 8 * n);
        free(a); free(b); free(r); free(fa); free(fr); free(c);
      }
      break;
    }
    default:
      break;
  }
  return h;
}

// parameters of the calls whose thread-local table is keyed by (m, divisor, bound/overhead): reported in Enter
static void op_params(int op, int64_t* m, double* div, int64_t* bnd) {
  *m = 0; *div = 0; *bnd = 0;
  op %= NOPS;
  if (op == 16) { *m = 16; *div = 16.; *bnd = 50; }
  if (op == 17) { *m = 16; *div = 16.; *bnd = 60; }
  if (op == 18) { *m = 16; *div = 16. * 1048576.; *bnd = 10; }
  if (op == 19) { *m = 16; *div = 1024. * 1048576.; *bnd = 16; }
}

static void traced_op(int op) {
  int64_t pm, pb;
  double pd;
  op_params(op, &pm, &pd, &pb);
  spqlios_verif_event(op_class[op % NOPS] ? EV_ENTER_SIMPLE : EV_ENTER_MOD, op, pm, *(int64_t*)&pd, pb, 0);
  uint64_t h = run_op(op);
  spqlios_verif_event(op_class[op % NOPS] ? EV_EXIT_SIMPLE : EV_EXIT_MOD, op, (int64_t)(h & 0x7FFFFFFF), (int64_t)((h >> 31) & 0x7FFFFFFF), 0,
                      0);
}

static int g_iters, g_class0_only;
static pthread_barrier_t g_start;
static void* worker(void* arg) {
  int64_t tid = (int64_t)(intptr_t)arg;
  spqlios_verif_set_tid(tid);
  uint64_t s = gseed * 7919ull + (uint64_t)tid;
  pthread_barrier_wait(&g_start);
  traced_op(OP_FRESH);
  traced_op(35 + NOPS * (int)(tid % NVAR));      // right after: every thread asks the library's allocation functions for large objects
  for (int it = 0; it < g_iters; ++it) {
    int op = (int)(splitmix(&s) % NOPV);
    if (g_class0_only) while (op_class[op % NOPS]) op = (int)(splitmix(&s) % NOPV);   // module-level and table operations only
    traced_op(op);
  }
  return 0;
}

static void* fresh_worker(void* arg) {
  spqlios_verif_set_tid((int64_t)(intptr_t)arg);
  pthread_barrier_wait(&g_start);
  traced_op(OP_FRESH);
  return 0;
}

int main(int argc, char** argv) {
  if (argc < 6) {
    fprintf(stderr, "usage: %s warm|cold nthreads iters seed outfile\n", argv[0]);
    return 2;
  }
  const int warm = !strcmp(argv[1], "warm");
  const int nthreads = atoi(argv[2]);
  g_iters = atoi(argv[3]);
  gseed = strtoull(argv[4], 0, 10);
  // the event hook takes one sequentially consistent fetch-add per event: under ThreadSanitizer that orders the operations of different
  // threads and hides races between calls that do not overlap in time; the sanitizer run is therefore made without events
  if (!getenv("CONC_NOEVENTS")) spqlios_verif_events_enable((uint64_t)(nthreads + 2) * (uint64_t)(g_iters + NOPV + 6) * 24);
  spqlios_verif_set_tid(0);
  if (getenv("CONC_CPU_MASK")) {
    g_cpu_mask = (uint32_t)strtoul(getenv("CONC_CPU_MASK"), 0, 0);
    spqlios_verif_set_cpu_mask(g_cpu_mask);
  }   // e.g. 15: portable kernels only
  if (!warm) {
    // a fresh process: the very first objects of the process are built by several threads side by side, before the main thread has
    // created anything (whatever a constructor initialises lazily is initialised here, concurrently)
    pthread_barrier_init(&g_start, 0, (unsigned)nthreads);
    pthread_t* th0 = malloc(sizeof(pthread_t) * (size_t)nthreads);
    for (int i = 0; i < nthreads; ++i) pthread_create(&th0[i], 0, fresh_worker, (void*)(intptr_t)(i + 1));
    for (int i = 0; i < nthreads; ++i) pthread_join(th0[i], 0);
    free(th0);
    pthread_barrier_destroy(&g_start);
  }
  modBig = new_module_info(NBIG, FFT64);
  modSmall = new_module_info(NSMALL, FFT64);
  modHuge = new_module_info(NHUGE, FFT64);
  modRec = new_module_info(NREC, FFT64);
  modMax = new_module_info(NMAX, FFT64);
  mod16 = new_module_info(16, FFT64);
  modAll[0] = modSmall; modAll[1] = mod16; modAll[2] = modBig; modAll[3] = modHuge; modAll[4] = modRec; modAll[5] = modMax;
  modNtt = new_module_info(NNTT, NTT120);
  pReimFft = new_reim_fft_precomp(32, 0);
  pReimIfft = new_reim_ifft_precomp(32, 0);
  pCplxFft = new_cplx_fft_precomp(32, 0);
  pCplxIfft = new_cplx_ifft_precomp(32, 0);
  pAddmul = new_reim_fftvec_addmul_precomp(32);
  pFromZnx = new_reim_from_znx64_precomp(32, 50);
  pToZnx = new_reim_to_znx64_precomp(32, 1., 60);
  pTnxA = new_cplx_to_tnx32_precomp(16, 16. * 1048576., 30);
  pTnxB = new_cplx_to_tnx32_precomp(16, 512. * 1048576., 30);
  pToZnxA = new_reim_to_znx64_precomp(16, 4., 60);
  pToZnxB = new_reim_to_znx64_precomp(16, 32., 60);
  pToTnxA = new_reim_to_tnx_precomp(16, 8., 20);
  pToTnxB = new_reim_to_tnx_precomp(16, 64., 20);
  pNtt = q120_new_ntt_bb_precomp(NNTT);
  pIntt = q120_new_intt_bb_precomp(NNTT);
  pBaa = q120_new_vec_mat1col_product_baa_precomp();
  pBbb = q120_new_vec_mat1col_product_bbb_precomp();
  pBbc = q120_new_vec_mat1col_product_bbc_precomp();
  if (warm) {  // the documented protocol: one call per dimension has completed before the threads start
    for (int op = 0; op < NOPV; ++op) traced_op(op);
    spqlios_verif_event(EV_WARMUP_DONE, 0, 0, 0, 0, 0);
  }
  g_class0_only = getenv("CONC_CLASS0_ONLY") != 0;
  pthread_barrier_init(&g_start, 0, (unsigned)nthreads);
  pthread_t* th = malloc(sizeof(pthread_t) * (size_t)nthreads);
  for (int i = 0; i < nthreads; ++i) pthread_create(&th[i], 0, worker, (void*)(intptr_t)(i + 1));
  for (int i = 0; i < nthreads; ++i) pthread_join(th[i], 0);
  spqlios_verif_event(EV_THREADS_DONE, 0, 0, 0, 0, 0);
  if (!warm) {  // reference values: the same calls, alone, after the concurrent phase
    spqlios_verif_event(EV_REFERENCE, 0, 0, 0, 0, 0);
    for (int op = 0; op < NOPV; ++op) traced_op(op);
  }
  FILE* f = fopen(argv[5], "wb");
  if (!f) return 2;
  uint64_t n = spqlios_verif_events_count();
  fwrite(spqlios_verif_events_data(), 64, n, f);
  fclose(f);
  return 0;
}
