#include <stdio.h>
int main(void) { puts("conc_drive: placeholder"); return 0; }
