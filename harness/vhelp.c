// Verification helper: accessors to the library's private structures (read-only observations),
// compiled against /repo's private headers so that a layout change is followed automatically.
#include <stdint.h>
#include <string.h>
#include "spqlios/commons_private.h"
#include "spqlios/arithmetic/vec_znx_arithmetic_private.h"

EXPORT uint64_t vh_sizeof_module(void) { return sizeof(MODULE); }
EXPORT uint64_t vh_module_nn(const MODULE* m) { return m->nn; }
EXPORT uint64_t vh_module_m(const MODULE* m) { return m->m; }
