// Verification helper: accessors to the library's private structures (read-only observations),
// compiled against /repo's private headers so that a layout change is followed automatically.
#include <stdint.h>
#include <string.h>
#include "spqlios/commons_private.h"
#include "spqlios/arithmetic/vec_znx_arithmetic_private.h"
#include "spqlios/q120/q120_ntt_private.h"

EXPORT uint64_t vh_sizeof_module(void) { return sizeof(MODULE); }
EXPORT uint64_t vh_module_nn(const MODULE* m) { return m->nn; }
EXPORT uint64_t vh_module_m(const MODULE* m) { return m->m; }

#include <malloc.h>
// heap blocks that belong to a module: the module itself and every table it owns. Sizes are the usable sizes of
// the heap blocks (>= requested size; the slack is never touched by anybody). Returns the number of blocks.
EXPORT uint64_t vh_module_blocks(const MODULE* m, const void** ptrs, uint64_t* sizes, uint64_t cap) {
  uint64_t k = 0;
#define VH_ADD(p)                                      \
  if ((p) != 0 && k < cap) {                           \
    ptrs[k] = (const void*)(p);                        \
    sizes[k] = malloc_usable_size((void*)(p));         \
    ++k;                                               \
  }
  VH_ADD(m);
  if (m->module_type == FFT64) {
    VH_ADD(m->mod.fft64.p_fft);
    VH_ADD(m->mod.fft64.p_ifft);
    VH_ADD(m->mod.fft64.p_conv);
    VH_ADD(m->mod.fft64.p_reim_to_znx);
    VH_ADD(m->mod.fft64.p_addmul);
    VH_ADD(m->mod.fft64.mul_fft);
  } else {
    const q120_ntt_precomp* t[2] = {m->mod.q120.p_ntt, m->mod.q120.p_intt};
    for (int i = 0; i < 2; ++i) {
      if (!t[i]) continue;
      VH_ADD(t[i]);
      VH_ADD(t[i]->level_metadata);
      VH_ADD(t[i]->powomega);
    }
  }
#undef VH_ADD
  return k;
}
EXPORT uint64_t vh_block_size(const void* p) { return p ? malloc_usable_size((void*)p) : 0; }

#include "spqlios/q120/q120_arithmetic_private.h"
// q120 NTT tables: out = [n, nlevels, input_bs, output_bs, red_h, red_cst[4]] then per level [half_bs, bs, reduce, q2bs[4]]
EXPORT uint64_t vh_q120_ntt_meta(const q120_ntt_precomp* p, uint64_t* out, uint64_t cap) {
  uint64_t n = p->n, lg = 0;
  while ((UINT64_C(1) << lg) < n) ++lg;
  uint64_t nlevels = n >= 2 ? lg + 1 : 0;
  if (cap < 9 + 7 * nlevels) return 0;
  out[0] = n; out[1] = nlevels; out[2] = p->input_bit_size; out[3] = n >= 2 ? p->output_bit_size : 64;
  out[4] = n >= 2 ? p->reduc_metadata.h : 0;
  for (int k = 0; k < 4; ++k) out[5 + k] = n >= 2 ? p->reduc_metadata.modulo_red_cst[k] : 0;
  for (uint64_t l = 0; l < nlevels; ++l) {
    const q120_ntt_step_precomp* s = p->level_metadata + l;
    uint64_t* o = out + 9 + 7 * l;
    o[0] = s->half_bs; o[1] = s->bs; o[2] = s->reduce;
    for (int k = 0; k < 4; ++k) o[3 + k] = s->q2bs[k];
  }
  return 9 + 7 * nlevels;
}
EXPORT const uint64_t* vh_q120_ntt_powomega(const q120_ntt_precomp* p) { return p->powomega; }
EXPORT void vh_q120_baa_meta(const q120_mat1col_product_baa_precomp* p, uint64_t* out) {
  out[0] = p->h;
  for (int k = 0; k < 4; ++k) out[1 + k] = p->h_pow_red[k];
}
EXPORT void vh_q120_bbb_meta(const q120_mat1col_product_bbb_precomp* p, uint64_t* out) {
  out[0] = p->h;
  const uint64_t* arr[7] = {p->s1h_pow_red, p->s2l_pow_red, p->s2h_pow_red, p->s3l_pow_red, p->s3h_pow_red, p->s4l_pow_red, p->s4h_pow_red};
  for (int a = 0; a < 7; ++a)
    for (int k = 0; k < 4; ++k) out[1 + 4 * a + k] = arr[a][k];
}
EXPORT void vh_q120_bbc_meta(const q120_mat1col_product_bbc_precomp* p, uint64_t* out) {
  out[0] = p->h;
  for (int k = 0; k < 4; ++k) out[1 + k] = p->s2l_pow_red[k];
  for (int k = 0; k < 4; ++k) out[5 + k] = p->s2h_pow_red[k];
}
EXPORT void vh_q120_primes(uint64_t* out) {
  out[0] = Q1; out[1] = Q2; out[2] = Q3; out[3] = Q4;
  out[4] = OMEGA1; out[5] = OMEGA2; out[6] = OMEGA3; out[7] = OMEGA4;
  out[8] = Q1_CRT_CST; out[9] = Q2_CRT_CST; out[10] = Q3_CRT_CST; out[11] = Q4_CRT_CST;
}

// ---- dispatch observation: which kernel did a table / module select?
#include <stddef.h>
#include "spqlios/reim/reim_fft_private.h"
#include "spqlios/cplx/cplx_fft_private.h"
#include "spqlios/reim4/reim4_fftvec_private.h"
#define VH_FN0(T) _Static_assert(offsetof(T, function) == 0, "function pointer is not the first field of " #T)
VH_FN0(struct reim_fft_precomp); VH_FN0(struct reim_ifft_precomp); VH_FN0(struct reim_mul_precomp); VH_FN0(struct reim_addmul_precomp);
VH_FN0(struct reim_from_znx64_precomp); VH_FN0(struct reim_to_znx64_precomp); VH_FN0(struct reim_to_tnx_precomp);
VH_FN0(struct cplx_fft_precomp); VH_FN0(struct cplx_ifft_precomp); VH_FN0(struct cplx_mul_precomp); VH_FN0(struct cplx_addmul_precomp);
VH_FN0(struct cplx_from_znx32_precomp); VH_FN0(struct cplx_from_tnx32_precomp); VH_FN0(struct cplx_to_tnx32_precomp);
VH_FN0(struct reim4_mul_precomp); VH_FN0(struct reim4_addmul_precomp); VH_FN0(struct reim4_from_cplx_precomp); VH_FN0(struct reim4_to_cplx_precomp);
EXPORT const void* vh_table_fn(const void* table) { return *(const void* const*)table; }
EXPORT const void* vh_module_fn(const MODULE* m, const char* name) {
#define VH_M(f) if (!strcmp(name, #f)) return (const void*)m->func.f;
  VH_M(vec_znx_zero) VH_M(vec_znx_copy) VH_M(vec_znx_negate) VH_M(vec_znx_add) VH_M(vec_znx_sub) VH_M(vec_znx_rotate)
  VH_M(vec_znx_automorphism) VH_M(vec_znx_normalize_base2k) VH_M(vec_znx_dft) VH_M(vec_znx_idft) VH_M(vec_znx_idft_tmp_a)
  VH_M(svp_prepare) VH_M(svp_apply_dft) VH_M(znx_small_single_product) VH_M(vmp_prepare_contiguous) VH_M(vmp_apply_dft)
  VH_M(vmp_apply_dft_to_dft) VH_M(vec_znx_big_add) VH_M(vec_znx_big_normalize_base2k)
#undef VH_M
  return 0;
}

// ---- allocation ledger (C11): bytes held by the heap during / after a new_* ... delete_* scope
#include "spqlios/q120/q120_arithmetic.h"
#include "spqlios/reim4/reim4_fftvec_public.h"
static int64_t vh_inuse(void) {
  struct mallinfo2 mi = mallinfo2();
  return (int64_t)mi.uordblks + (int64_t)mi.hblkhd;
}
// what: 0 FFT64 module, 1 NTT120 module, 2 vec_znx_dft, 3 vec_znx_big, 4 svp_ppol, 5 vmp_pmat (on an FFT64 module of dimension n),
// 6 q120 ntt tables, 7 q120 intt tables, 8 q120 product tables, 9 reim fft/ifft/mul/addmul/conversion tables, 10 cplx tables, 11 reim4 tables.
// out[0] = bytes held while the objects exist, out[1] = bytes still held after the deletes (must be 0)
EXPORT void vh_alloc_scope(int what, uint64_t n, uint64_t p1, uint64_t p2, int64_t* out) {
  MODULE* mod = 0;
  if (what >= 2 && what <= 5) mod = new_module_info(n, FFT64);
  const int64_t before = vh_inuse();
  int64_t during = 0;
  switch (what) {
    case 0: case 1: { MODULE* m = new_module_info(n, what ? NTT120 : FFT64); during = vh_inuse(); delete_module_info(m); break; }
    case 2: { VEC_ZNX_DFT* o = new_vec_znx_dft(mod, p1); during = vh_inuse(); delete_vec_znx_dft(o); break; }
    case 3: { VEC_ZNX_BIG* o = new_vec_znx_big(mod, p1); during = vh_inuse(); delete_vec_znx_big(o); break; }
    case 4: { SVP_PPOL* o = new_svp_ppol(mod); during = vh_inuse(); delete_svp_ppol(o); break; }
    case 5: { VMP_PMAT* o = new_vmp_pmat(mod, p1, p2); during = vh_inuse(); delete_vmp_pmat(o); break; }
    case 6: { q120_ntt_precomp* o = q120_new_ntt_bb_precomp(n); during = vh_inuse(); q120_del_ntt_bb_precomp(o); break; }
    case 7: { q120_ntt_precomp* o = q120_new_intt_bb_precomp(n); during = vh_inuse(); q120_del_intt_bb_precomp(o); break; }
    case 8: {
      q120_mat1col_product_baa_precomp* a = q120_new_vec_mat1col_product_baa_precomp();
      q120_mat1col_product_bbb_precomp* b = q120_new_vec_mat1col_product_bbb_precomp();
      q120_mat1col_product_bbc_precomp* c = q120_new_vec_mat1col_product_bbc_precomp();
      during = vh_inuse();
      q120_delete_vec_mat1col_product_baa_precomp(a); q120_delete_vec_mat1col_product_bbb_precomp(b); q120_delete_vec_mat1col_product_bbc_precomp(c);
      break;
    }
    case 9: {
      void* t[7] = {new_reim_fft_precomp(n, p1), new_reim_ifft_precomp(n, p1), new_reim_fftvec_mul_precomp(n), new_reim_fftvec_addmul_precomp(n),
                    new_reim_from_znx64_precomp(n, 50), new_reim_to_znx64_precomp(n, 1., 63), new_reim_to_tnx_precomp(n, 1., 2)};
      during = vh_inuse();
      delete_reim_fft_precomp(t[0]); delete_reim_ifft_precomp(t[1]); delete_reim_fftvec_mul_precomp(t[2]); delete_reim_fftvec_addmul_precomp(t[3]);
      delete_reim_from_znx64_precomp(t[4]); delete_reim_to_znx64_precomp(t[5]); delete_reim_to_tnx_precomp(t[6]);
      break;
    }
    case 10: {
      void* t[7] = {new_cplx_fft_precomp(n, p1), new_cplx_ifft_precomp(n, p1), new_cplx_fftvec_mul_precomp(n), new_cplx_fftvec_addmul_precomp(n),
                    new_cplx_from_znx32_precomp(n), new_cplx_from_tnx32_precomp(n), new_cplx_to_tnx32_precomp(n, 1., 2)};
      during = vh_inuse();
      for (int i = 0; i < 7; ++i) free(t[i]);
      break;
    }
    case 11: {
      void* t[4] = {new_reim4_fftvec_mul_precomp(n), new_reim4_fftvec_addmul_precomp(n), new_reim4_from_cplx_precomp(n), new_reim4_to_cplx_precomp(n)};
      during = vh_inuse();
      for (int i = 0; i < 4; ++i) free(t[i]);
      break;
    }
    default: break;
  }
  const int64_t after = vh_inuse();
  out[0] = during - before;
  out[1] = after - before;
  if (mod) delete_module_info(mod);
}

// floating-point control state of the calling thread (x86: MXCSR; the x87 control word is not used by the library's code paths):
// a library call must leave it as it found it (rounding mode, flush-to-zero, denormals-are-zero)
#if defined(__x86_64__)
#include <xmmintrin.h>
static inline uint16_t vh_getcw(void) { uint16_t cw; __asm__ volatile("fnstcw %0" : "=m"(cw)); return cw; }
static inline void vh_setcw(uint16_t cw) { __asm__ volatile("fldcw %0" : : "m"(cw)); }
// control bits only (the sticky exception flags are not state): MXCSR in the low half, the x87 control word in the high half
EXPORT uint32_t vh_fpenv_get(void) { return (_mm_getcsr() & 0xFFC0u) | ((uint32_t)vh_getcw() << 16); }
EXPORT void vh_fpenv_set_control(uint32_t v) {
  _mm_setcsr((_mm_getcsr() & 0x3Fu) | (v & 0xFFC0u));
  if (v >> 16) vh_setcw((uint16_t)(v >> 16));
}
// rounding mode of both units, as fesetround does: 0 nearest, 1 down, 2 up, 3 toward zero
EXPORT void vh_fpenv_set_round(uint32_t r) {
  _mm_setcsr((_mm_getcsr() & ~0x6000u) | ((r & 3u) << 13));
  vh_setcw((uint16_t)((vh_getcw() & ~0x0C00u) | ((r & 3u) << 10)));
}
// the six sticky exception flags raised, as left behind by whatever the caller computed before (0/0, an inexact sum, an overflow)
EXPORT void vh_fpenv_raise_flags(void) { _mm_setcsr(_mm_getcsr() | 0x3Fu); }
EXPORT void vh_fpenv_clear_flags(void) { _mm_setcsr(_mm_getcsr() & ~0x3Fu); }
#else
EXPORT uint32_t vh_fpenv_get(void) { return 0; }
EXPORT void vh_fpenv_set_control(uint32_t v) { (void)v; }
EXPORT void vh_fpenv_raise_flags(void) {}
EXPORT void vh_fpenv_clear_flags(void) {}
EXPORT void vh_fpenv_set_round(uint32_t r) { (void)r; }
#endif
