// Verification helper: accessors to the library's private structures (read-only observations),
// compiled against /repo's private headers so that a layout change is followed automatically.
#include <stdint.h>
#include <string.h>
#include "spqlios/commons_private.h"
#include "spqlios/arithmetic/vec_znx_arithmetic_private.h"
#include "spqlios/q120/q120_ntt_private.h"

EXPORT uint64_t vh_sizeof_module(void) { return sizeof(MODULE); }
EXPORT uint64_t vh_module_nn(const MODULE* m) { return m->nn; }
EXPORT uint64_t vh_module_m(const MODULE* m) { return m->m; }

#include <malloc.h>
// heap blocks that belong to a module: the module itself and every table it owns. Sizes are the usable sizes of
// the heap blocks (>= requested size; the slack is never touched by anybody). Returns the number of blocks.
EXPORT uint64_t vh_module_blocks(const MODULE* m, const void** ptrs, uint64_t* sizes, uint64_t cap) {
  uint64_t k = 0;
#define VH_ADD(p)                                      \
  if ((p) != 0 && k < cap) {                           \
    ptrs[k] = (const void*)(p);                        \
    sizes[k] = malloc_usable_size((void*)(p));         \
    ++k;                                               \
  }
  VH_ADD(m);
  if (m->module_type == FFT64) {
    VH_ADD(m->mod.fft64.p_fft);
    VH_ADD(m->mod.fft64.p_ifft);
    VH_ADD(m->mod.fft64.p_conv);
    VH_ADD(m->mod.fft64.p_reim_to_znx);
    VH_ADD(m->mod.fft64.p_addmul);
    VH_ADD(m->mod.fft64.mul_fft);
  } else {
    const q120_ntt_precomp* t[2] = {m->mod.q120.p_ntt, m->mod.q120.p_intt};
    for (int i = 0; i < 2; ++i) {
      if (!t[i]) continue;
      VH_ADD(t[i]);
      VH_ADD(t[i]->level_metadata);
      VH_ADD(t[i]->powomega);
    }
  }
#undef VH_ADD
  return k;
}
EXPORT uint64_t vh_block_size(const void* p) { return p ? malloc_usable_size((void*)p) : 0; }
