// Reference model: direct transliteration of the layer-0 operators of the specification
// (NegaRing, Base2k, ...) for sizes TLC cannot reach. Shares no code with the library.
#include <stdint.h>
#include <string.h>
typedef __int128 i128;

// negacyclic product in Z[X]/(X^n+1), exact in 128 bits (caller guarantees no overflow)
void rm_negacyclic_mul_i128(uint64_t n, i128* res, const int64_t* a, const int64_t* b) {
  for (uint64_t i = 0; i < n; ++i) res[i] = 0;
  for (uint64_t i = 0; i < n; ++i) {
    if (a[i] == 0) continue;
    i128 ai = a[i];
    for (uint64_t j = 0; j < n - i; ++j) res[i + j] += ai * b[j];
    for (uint64_t j = n - i; j < n; ++j) res[i + j - n] -= ai * b[j];
  }
}

// max_i |res[i] - (a*b)[i]| over Z[X]/(X^n+1), exact (|a|,|b| < 2^50 and result < 2^127 guaranteed by caller)
// out[0] = low 64 bits of the maximum, out[1] = high 64 bits, out[2] = index where it occurs
void rm_product_maxdiff(uint64_t n, const int64_t* a, const int64_t* b, const int64_t* res, uint64_t* out) {
  unsigned __int128 best = 0;
  uint64_t besti = 0;
  for (uint64_t k = 0; k < n; ++k) {
    i128 acc = 0;
    for (uint64_t i = 0; i <= k; ++i) acc += (i128)a[i] * b[k - i];
    for (uint64_t i = k + 1; i < n; ++i) acc -= (i128)a[i] * b[n + k - i];
    i128 d = (i128)res[k] - acc;
    unsigned __int128 ad = d < 0 ? (unsigned __int128)(-d) : (unsigned __int128)d;
    if (ad > best) {
      best = ad;
      besti = k;
    }
  }
  out[0] = (uint64_t)best;
  out[1] = (uint64_t)(best >> 64);
  out[2] = besti;
}
