// Reference model: direct transliteration of the layer-0 operators of the specification
// (NegaRing, Base2k, ...) for sizes TLC cannot reach. Shares no code with the library.
#include <stdint.h>
#include <string.h>
#include <stdlib.h>
typedef __int128 i128;

// negacyclic product in Z[X]/(X^n+1), exact in 128 bits (caller guarantees no overflow)
void rm_negacyclic_mul_i128(uint64_t n, i128* res, const int64_t* a, const int64_t* b) {
  for (uint64_t i = 0; i < n; ++i) res[i] = 0;
  for (uint64_t i = 0; i < n; ++i) {
    if (a[i] == 0) continue;
    i128 ai = a[i];
    for (uint64_t j = 0; j < n - i; ++j) res[i + j] += ai * b[j];
    for (uint64_t j = n - i; j < n; ++j) res[i + j - n] -= ai * b[j];
  }
}

// max_i |res[i] - (a*b)[i]| over Z[X]/(X^n+1), exact (|a|,|b| < 2^50 and result < 2^127 guaranteed by caller)
// out[0] = low 64 bits of the maximum, out[1] = high 64 bits, out[2] = index where it occurs
void rm_product_maxdiff(uint64_t n, const int64_t* a, const int64_t* b, const int64_t* res, uint64_t* out) {
  unsigned __int128 best = 0;
  uint64_t besti = 0;
  /* b with few non-zero coefficients: the same sum, over the support of b only */
  uint64_t nz = 0;
  for (uint64_t j = 0; j < n; ++j) nz += (b[j] != 0);
  uint64_t* supp = 0;
  if (nz * 8 < n) {
    supp = (uint64_t*)malloc((nz + 1) * sizeof(uint64_t));
    uint64_t c = 0;
    for (uint64_t j = 0; j < n; ++j)
      if (b[j] != 0) supp[c++] = j;
  }
  for (uint64_t k = 0; k < n; ++k) {
    i128 acc = 0;
    if (supp) {
      for (uint64_t c = 0; c < nz; ++c) {
        uint64_t j = supp[c];
        if (j <= k) acc += (i128)a[k - j] * b[j];
        else acc -= (i128)a[n + k - j] * b[j];
      }
    } else {
      for (uint64_t i = 0; i <= k; ++i) acc += (i128)a[i] * b[k - i];
      for (uint64_t i = k + 1; i < n; ++i) acc -= (i128)a[i] * b[n + k - i];
    }
    i128 d = (i128)res[k] - acc;
    unsigned __int128 ad = d < 0 ? (unsigned __int128)(-d) : (unsigned __int128)d;
    if (ad > best) {
      best = ad;
      besti = k;
    }
  }
  free(supp);
  out[0] = (uint64_t)best;
  out[1] = (uint64_t)(best >> 64);
  out[2] = besti;
}
