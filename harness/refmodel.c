// Reference model: direct transliteration of the layer-0 operators of the specification
// (NegaRing, Base2k, ...) for sizes TLC cannot reach. Shares no code with the library.
#include <stdint.h>
#include <string.h>
typedef __int128 i128;

// negacyclic product in Z[X]/(X^n+1), exact in 128 bits (caller guarantees no overflow)
void rm_negacyclic_mul_i128(uint64_t n, i128* res, const int64_t* a, const int64_t* b) {
  for (uint64_t i = 0; i < n; ++i) res[i] = 0;
  for (uint64_t i = 0; i < n; ++i) {
    if (a[i] == 0) continue;
    i128 ai = a[i];
    for (uint64_t j = 0; j < n - i; ++j) res[i + j] += ai * b[j];
    for (uint64_t j = n - i; j < n; ++j) res[i + j - n] -= ai * b[j];
  }
}
