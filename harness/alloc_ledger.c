// Allocation ledger for C11: every malloc / calloc / aligned_alloc / realloc / free made by the library (linked
// statically, calls diverted with -Wl,--wrap) inside new_* ... delete_* scopes is printed as one ndjson event per line;
// AllocLedgerTrace.tla checks that frees hit live blocks only and that every scope ends with what it started with.
#include <stdint.h>
#include <stdio.h>
#include <stdlib.h>
#include <string.h>

#include "spqlios/arithmetic/vec_znx_arithmetic.h"
#include "spqlios/cplx/cplx_fft.h"
#include "spqlios/q120/q120_arithmetic.h"
#include "spqlios/q120/q120_ntt.h"
#include "spqlios/reim/reim_fft.h"
#include "spqlios/reim4/reim4_fftvec_public.h"

void* __real_malloc(size_t);
void* __real_calloc(size_t, size_t);
void* __real_aligned_alloc(size_t, size_t);
void* __real_realloc(void*, size_t);
void __real_free(void*);

#define MAXLIVE 4096
static void* live_ptr[MAXLIVE];
static long live_id[MAXLIVE];
static long next_id = 1;
static int recording = 0;

static void on_alloc(void* p, size_t size) {
  if (!recording || !p) return;
  for (int i = 0; i < MAXLIVE; ++i)
    if (!live_ptr[i]) {
      live_ptr[i] = p;
      live_id[i] = next_id;
      break;
    }
  printf("{\"e\":\"Alloc\",\"id\":%ld,\"size\":%ld}\n", next_id++, (long)(size < 2000000000 ? size : 2000000000));
}
static void on_free(void* p) {
  if (!recording) return;
  if (!p) {
    printf("{\"e\":\"Free\",\"id\":0}\n");
    return;
  }
  for (int i = 0; i < MAXLIVE; ++i)
    if (live_ptr[i] == p) {
      printf("{\"e\":\"Free\",\"id\":%ld}\n", live_id[i]);
      live_ptr[i] = 0;
      return;
    }
  printf("{\"e\":\"Free\",\"id\":-1}\n");  // a block this scope did not allocate
}
void* __wrap_malloc(size_t n) { void* p = __real_malloc(n); on_alloc(p, n); return p; }
void* __wrap_calloc(size_t a, size_t b) { void* p = __real_calloc(a, b); on_alloc(p, a * b); return p; }
void* __wrap_aligned_alloc(size_t al, size_t n) { void* p = __real_aligned_alloc(al, n); on_alloc(p, n); return p; }
void* __wrap_realloc(void* q, size_t n) { on_free(q); void* p = __real_realloc(q, n); on_alloc(p, n); return p; }
void __wrap_free(void* p) { on_free(p); __real_free(p); }

static void begin(const char* what, uint64_t n) {
  memset(live_ptr, 0, sizeof(live_ptr));
  printf("{\"e\":\"ScopeBegin\",\"what\":\"%s\",\"N\":%ld}\n", what, (long)n);
  recording = 1;
}
static void end(void) {
  recording = 0;
  printf("{\"e\":\"ScopeEnd\"}\n");
}

int main(int argc, char** argv) {
  for (int a = 1; a < argc; ++a) {
    const uint64_t n = strtoull(argv[a], 0, 10);
    // every CPU-feature configuration of the dispatch (hook mask: 0 all features, 1 no avx2, 2 no fma, 0xF generic): what new_* builds
    // under a configuration, delete_* must release under the same one; two objects of a kind alive together, deleted in creation order
    static const uint32_t masks[4] = {0, 1, 2, 0xF};
    for (int mk = 0; mk < 4; ++mk) {
      spqlios_verif_set_cpu_mask(masks[mk]);
      for (int t = 0; t < 2; ++t) {
        char what[64];
        snprintf(what, sizeof what, "module %s, cpu mask %u", t ? "NTT120" : "FFT64", masks[mk]);
        begin(what, n);
        MODULE* m = new_module_info(n, t ? NTT120 : FFT64);
        MODULE* m2 = new_module_info(n, t ? NTT120 : FFT64);
        delete_module_info(m);
        delete_module_info(m2);
        end();
      }
    }
    spqlios_verif_set_cpu_mask(0);
    MODULE* mod = new_module_info(n, FFT64);
    begin("vec_znx_dft / vec_znx_big / svp_ppol / vmp_pmat", n);
    VEC_ZNX_DFT* d = new_vec_znx_dft(mod, 3);
    VEC_ZNX_BIG* g = new_vec_znx_big(mod, 3);
    SVP_PPOL* pp = new_svp_ppol(mod);
    VMP_PMAT* pm = new_vmp_pmat(mod, 3, 2);
    delete_vmp_pmat(pm); delete_svp_ppol(pp); delete_vec_znx_big(g); delete_vec_znx_dft(d);
    end();
    delete_module_info(mod);
    begin("q120 tables", n);
    q120_ntt_precomp* p1 = q120_new_ntt_bb_precomp(n);
    q120_ntt_precomp* p2 = q120_new_intt_bb_precomp(n);
    q120_mat1col_product_baa_precomp* pa = q120_new_vec_mat1col_product_baa_precomp();
    q120_mat1col_product_bbb_precomp* pb = q120_new_vec_mat1col_product_bbb_precomp();
    q120_mat1col_product_bbc_precomp* pc = q120_new_vec_mat1col_product_bbc_precomp();
    q120_mat1col_product_baa_precomp* pa2 = q120_new_vec_mat1col_product_baa_precomp();
    q120_mat1col_product_bbb_precomp* pb2 = q120_new_vec_mat1col_product_bbb_precomp();
    q120_mat1col_product_bbc_precomp* pc2 = q120_new_vec_mat1col_product_bbc_precomp();
    q120_delete_vec_mat1col_product_bbc_precomp(pc); q120_delete_vec_mat1col_product_bbb_precomp(pb); q120_delete_vec_mat1col_product_baa_precomp(pa);
    q120_delete_vec_mat1col_product_bbc_precomp(pc2); q120_delete_vec_mat1col_product_bbb_precomp(pb2); q120_delete_vec_mat1col_product_baa_precomp(pa2);
    q120_del_intt_bb_precomp(p2); q120_del_ntt_bb_precomp(p1);
    end();
    const uint32_t m = (uint32_t)(n / 2 ? n / 2 : 1);
    begin("reim / cplx / reim4 tables and buffers", m);
    void* t[20];
    int k = 0;
    t[k++] = new_reim_fft_precomp(m, 2); t[k++] = new_reim_ifft_precomp(m, 1); t[k++] = new_reim_fftvec_mul_precomp(m);
    t[k++] = new_reim_fftvec_addmul_precomp(m); t[k++] = new_reim_from_znx64_precomp(m, 50); t[k++] = new_reim_to_znx64_precomp(m, 1., 63);
    t[k++] = new_reim_to_tnx_precomp(m, 1., 2);
    t[k++] = new_cplx_fft_precomp(m, 1); t[k++] = new_cplx_ifft_precomp(m, 0); t[k++] = new_cplx_fftvec_mul_precomp(m);
    t[k++] = new_cplx_fftvec_addmul_precomp(m); t[k++] = new_cplx_from_znx32_precomp(m); t[k++] = new_cplx_from_tnx32_precomp(m);
    t[k++] = new_cplx_to_tnx32_precomp(m, 1., 2);
    if (m >= 4) {
      t[k++] = new_reim4_fftvec_mul_precomp(m); t[k++] = new_reim4_fftvec_addmul_precomp(m);
      t[k++] = new_reim4_from_cplx_precomp(m); t[k++] = new_reim4_to_cplx_precomp(m);
    }
    // (delete_reim_fft_buffer / delete_cplx_fft_buffer are declared in the headers but not defined in this tree)
    for (int i = 0; i < k; ++i) free(t[i]);   // the delete_* macros of these tables are `free`
    end();
  }
  return 0;
}
