"""Runs a selection of the replay drivers inside a process where every buffer handed to the library is mapped with its end
against an inaccessible page, and where every buffer a call only reads has lost its write permission for the duration of the
call (VERIF_PAGES=1, see lib.Buf).  A write to a source operand - even one that is undone before the call returns - or an
access past the end of any operand faults; isolated() turns the fault into an observation naming the call.
Prints one JSON object on the last line of stdout."""
import json
import os
import random
import sys

sys.path.insert(0, os.path.dirname(os.path.abspath(__file__)))
import common  # noqa: E402


class Collector(common.Check):
    def finish(self):
        raise NotImplementedError


def main():
    tier, cases_file = sys.argv[1], sys.argv[2]
    data = json.load(open(cases_file))
    chk = Collector("C18", "exploration", tier)
    from props import c02, c03, c05, c07, c08, c09, c10, c13, c14, c16, c17
    quick = tier == "quick"
    jobs = []
    limb = data["limb"]
    sub = [c for i, c in enumerate(limb) if i % (7 if quick else 2) == 0]
    jobs += [("read-only sources: limb-loop cases part %d" % i, c08.drive_a, (sub, i, 3, True, "pages")) for i in range(3)]
    jobs += [("read-only sources: normalisation cases", c05.drive_a, (data["norm"][::(3 if quick else 1)],))]
    jobs += [("read-only sources: VMP shapes part %d" % i, c02.drive_a, (data["vmp"][i::2], 0, 1, [1, 2, 4, 8], [128])) for i in range(2)]
    jobs += [("read-only sources: dense VMP shapes", c02.drive_b, (0, 20 if quick else 150))]
    jobs += [("read-only sources: API programs part %d" % i, c16.drive, (data["programs"], i, 3, [1, 2, 4, 16], [64, 1024], 11)) for i in range(3)]
    jobs += [("read-only sources: pointwise kernels", c13.drive_pw_a, (data["pointwise"],))]
    jobs += [("read-only sources: reim4 arithmetic", c17.drive_arith, (quick,)),
             ("read-only sources: pointwise kernels on general doubles", c17.drive_rounding, (40 if quick else 400,))]
    jobs += [("read-only sources: q120 products", c10.drive_products, (0, [0, 1, 2, 3, 7, 64, 257], 2)),
             ("read-only sources: q120 products on boundary operands", c10.drive_halves, (0, 25 if quick else 200)),
             ("read-only sources: ring maps N=%d" % 8, c09.drive_b, (8, True, True)),
             ("read-only sources: ring maps N=%d" % 64, c09.drive_b, (64, False, True)),
             ("read-only sources: coefficient kernels", c07.drive_znx, (True,)),
             ("read-only sources: numeric conversions", c14.drive, (0, [4, 8, 16] if quick else [1, 2, 4, 8, 16, 64], True)),
             ("read-only sources: 62-bit normalisation", c05.drive_b, ([1, 19, 62] if quick else [1, 2, 7, 19, 31, 44, 62], True))]
    common.isolated_many(chk, jobs, timeout=1500, nproc=8)
    print(json.dumps({"violations": [[d, p] for (d, p) in chk.violations], "evaluations": chk.evals,
                      "distinct": len(chk.distinct), "known": chk.known_hits}, default=str))


if __name__ == "__main__":
    main()
