"""Runs a selection of the replay drivers inside a process where AddressSanitizer + UBSan observe the library
(LD_PRELOAD of libasan, library built with -fsanitize=address,undefined, buffers = exact-size malloc blocks).
A sanitizer report aborts the forked child: isolated() turns it into an observation naming the call.
Prints one JSON object on the last line of stdout."""
import json
import os
import sys

sys.path.insert(0, os.path.dirname(os.path.abspath(__file__)))
import common  # noqa: E402


class Collector(common.Check):
    def finish(self):
        raise NotImplementedError


def main():
    tier, cases_file = sys.argv[1], sys.argv[2]
    data = json.load(open(cases_file))
    chk = Collector("C11", "exploration", tier)
    from props import c02, c03, c05, c06, c07, c08, c09, c10, c13, c14, c15, c16, c17
    import random
    quick = tier == "quick"
    jobs = []
    limb = data["limb"]
    sub = [c for i, c in enumerate(limb) if i % (9 if quick else 2) == 0]
    jobs += [("ASan: limb-loop cases part %d" % i, c08.drive_a, (sub, i, 3, True, "asan")) for i in range(3)]
    jobs += [("ASan: normalisation cases", c05.drive_a, (data["norm"][::(3 if quick else 1)],))]
    jobs += [("ASan: VMP shapes part %d" % i, c02.drive_a, (data["vmp"][i::2], 0, 1, [1, 2, 4, 8], [128])) for i in range(2)]
    jobs += [("ASan: API programs part %d" % i, c16.drive, (data["programs"], i, 3, [1, 2, 4, 16], [64, 1024], 11)) for i in range(3)]
    jobs += [("ASan: pointwise kernels", c13.drive_pw_a, (data["pointwise"],))]
    jobs += [("ASan: reim4 layouts", c17.drive_a, (data["reim4"],))]
    # the convenience functions with thread-local tables, in histories that change one key component at a time; numeric conversions
    rngd = random.Random(chk.seed * 3 + 2)
    hists = []
    for f in ("reim_to_znx64_simple", "cplx_to_tnx32_simple"):
        keys = [{"f": f, "m": mm, "div": dd, "ovh": oo} for mm in (2, 3, 4) for dd in (0, 2) for oo in (0, 1, 2, 5)]
        hists.append([dict(rngd.choice(keys)) for _ in range(300 if quick else 3000)])
    fns = ["reim_fft_simple", "reim_ifft_simple", "reim_fftvec_mul_simple", "reim_fftvec_addmul_simple", "reim_from_znx64_simple", "cplx_fft_simple",
           "cplx_ifft_simple", "cplx_fftvec_mul_simple", "cplx_fftvec_addmul_simple", "cplx_from_znx32_simple", "cplx_from_tnx32_simple",
           "reim4_fftvec_mul_simple", "reim4_fftvec_addmul_simple", "reim4_from_cplx_simple", "reim4_to_cplx_simple"]
    hists.append([{"f": rngd.choice(fns), "m": rngd.randrange(0, 7), "div": 0, "ovh": 0} for _ in range(200 if quick else 2000)])
    jobs += [("ASan: histories of the *_simple functions", c15.drive_hist, (hists,))]
    jobs += [("ASan: numeric conversions", c14.drive, (0, [4, 8, 16] if quick else [1, 2, 4, 8, 16, 64], True))]
    # q120: products of every kind (both variants, several lengths), layout conversions and block maps, NTT on the module path
    jobs += [("ASan: q120 products", c10.drive_products, (0, [0, 1, 2, 3, 7, 64, 257], 2)),
             ("ASan: q120 products on boundary operands", c10.drive_halves, (0, 25 if quick else 200)),
             ("ASan: q120 conversions and block maps", c10.drive_conversions, (8 if quick else 60,)),
             ("ASan: NTT120 transforms", c03.drive, ([2, 4, 16, 64] if quick else [2, 4, 8, 16, 64, 256, 1024], True)),
             ("ASan: NTT120 modules", c03.drive_module, (True,))]
    # ring maps (kernels and wrappers), coefficient kernels in both variants, the transforms
    jobs += [("ASan: ring maps N=%d" % n_, c09.drive_b, (n_, n_ <= 8, True)) for n_ in ((4, 8, 64) if quick else (2, 4, 8, 16, 64, 256))]
    jobs += [("ASan: coefficient kernels", c07.drive_znx, (True,)),
             ("ASan: transforms", c06.drive, ([1, 2, 4, 8, 16, 32] if quick else [1, 2, 4, 8, 16, 32, 64, 256], True))]
    common.isolated_many(chk, jobs, timeout=1500, nproc=8)
    print(json.dumps({"violations": [[d, p] for (d, p) in chk.violations], "evaluations": chk.evals,
                      "distinct": len(chk.distinct), "known": chk.known_hits}, default=str))


if __name__ == "__main__":
    main()
