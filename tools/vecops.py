"""Driver of the limb-vector API (vec_znx_* and vec_znx_big_*) shared by C08, C13, C18: executes a case of
LimbLoops.tla on the real library with exact-size canary buffers and compares the complete memory image."""
import numpy as np

from lib import Buf, FFT64, NTT120, MASK_NONE, MASK_GENERIC, ro

GENERIC = {"zero", "copy", "negate", "add", "sub", "rotate", "automorphism"}
ARITY = {"zero": 0, "copy": 1, "negate": 1, "rotate": 1, "automorphism": 1, "add": 2, "sub": 2,
         "big_add": 2, "big_add_small": 2, "big_add_small2": 2, "big_sub": 2, "big_sub_small_a": 2,
         "big_sub_small_b": 2, "big_sub_small2": 2, "big_rotate": 1, "big_automorphism": 1}


def call_op(L, mod, op, p, R, rs, rsl, A, as_, asl, B, bs, bsl):
    f = "vec_znx_" + op
    if op == "zero":
        L.call(f, mod, R, rs, rsl)
    elif op in ("copy", "negate"):
        L.call(f, mod, R, rs, rsl, A, as_, asl)
    elif op in ("add", "sub"):
        L.call(f, mod, R, rs, rsl, A, as_, asl, B, bs, bsl)
    elif op in ("rotate", "automorphism"):
        L.call(f, mod, p, R, rs, rsl, A, as_, asl)
    elif op in ("big_add", "big_sub"):
        L.call(f, mod, R, rs, A, as_, B, bs)
    elif op in ("big_add_small", "big_sub_small_b"):
        L.call(f, mod, R, rs, A, as_, B, bs, bsl)
    elif op == "big_sub_small_a":
        L.call(f, mod, R, rs, A, as_, asl, B, bs)
    elif op in ("big_add_small2", "big_sub_small2"):
        L.call(f, mod, R, rs, A, as_, asl, B, bs, bsl)
    elif op in ("big_rotate", "big_automorphism"):
        L.call(f, mod, p, R, rs, A, as_)
    else:
        raise ValueError(op)


def ring_map(kind, n, p, x):
    """numpy refmodel of rotation / automorphism (push style; validated against the spec by C09)."""
    i = np.arange(n, dtype=np.int64)
    pm = p % (2 * n)
    t = (i + pm) % (2 * n) if kind == "rot" else (i * pm) % (2 * n)
    out = np.zeros(n, dtype=np.int64)
    pos = t < n
    out[t[pos]] = x[pos]
    out[t[~pos] - n] = -x[~pos]
    return out


def stride_of(kind, n, rng):
    return {"tight": n, "pad": n + rng.choice([1, 3, 8]), "double": 2 * n}[kind]


class Modules:
    def __init__(self, L):
        self.L = L
        self.cache = {}

    def get(self, n, kind):
        key = (n, kind)
        if key not in self.cache:
            if kind == "fft64":
                self.cache[key] = self.L.module(n, FFT64, MASK_NONE)
            elif kind == "fft64-generic":
                self.cache[key] = self.L.module(n, FFT64, MASK_GENERIC)
            else:
                self.cache[key] = self.L.module(n, NTT120, MASK_NONE)
            self.L.set_cpu_mask(MASK_NONE)
        return self.cache[key]


def role_data(seed, role, limb, n, bits):
    g = np.random.default_rng([seed & 0x7FFFFFFF, {"a": 1, "b": 2, "r": 3}[role], limb, n])
    u = g.random()
    if role != "r":                      # source limbs: now and then the zero polynomial, a constant power of two, or the extreme values
        if u < 0.10:
            return np.zeros(n, dtype=np.int64)
        if u < 0.16:
            return np.full(n, (1 << int(g.integers(0, bits))) * (1 if u < 0.13 else -1), dtype=np.int64)
        if u < 0.22:
            return np.where(g.random(n) < 0.5, (1 << bits) - 1, -(1 << bits)).astype(np.int64)
    return g.integers(-(1 << bits), 1 << bits, n, dtype=np.int64)


def run_case(L, mods, c, n, modkind, rng, bits=60, fill=0xC3, off=0, data_seed=None, p=None, want_result=False):
    """Executes one LimbLoops case. Returns (None, description-of-case) when everything matches the model,
    else (reason, description). Limb contents are a function of (data_seed, operand role, limb) so that an aliased
    call and its de-aliased twin see the same operand values; with want_result the output limbs are appended."""
    op = c["op"]
    rs, as_, bs = c["rs"], c["as"], c["bs"]
    sl = {"r": stride_of(c["rsl"], n, rng), "a": stride_of(c["asl"], n, rng), "b": stride_of(c["bsl"], n, rng)}
    if c["alias"] in ("ra", "rab"):
        sl["a"] = sl["r"]
    if c["alias"] in ("rb", "rab"):
        sl["b"] = sl["r"]
    if c["alias"] == "ab":
        sl["b"] = sl["a"]
    if data_seed is None:
        data_seed = rng.randrange(1 << 30)
    # buffers 1,2,3 with the extent each operand needs
    need = {1: 0, 2: 0, 3: 0}
    for (buf, size, s) in ((c["rb"], rs, sl["r"]), (c["ab"], as_, sl["a"]), (c["bb"], bs, sl["b"])):
        if size:
            need[buf] = max(need[buf], (size - 1) * s + n)
    bufs = {b: Buf(8 * need[b], off=off, fill=fill) for b in need}
    # initial payloads: every limb an operand can see in its buffer gets data (tokens of the model);
    # a buffer shared by several operands carries the data of the first of a, b, res that uses it
    data = {}
    for (role, buf, size, s) in (("a", c["ab"], as_, sl["a"]), ("b", c["bb"], bs, sl["b"]), ("r", c["rb"], rs, sl["r"])):
        for limb in range(size):
            if (buf, limb) not in data:
                v = role_data(data_seed, role, limb, n, bits)
                data[(buf, limb)] = v
                bufs[buf].i64[limb * s:limb * s + n] = v
    if p is None:
        p = rng.choice([0, 1, -1, n, n + 1, 3 * n - 1, rng.randrange(-(1 << 40), 1 << 40)])
    if "automorphism" in op:
        p |= 1
    expected = {b: bufs[b].snapshot() for b in bufs}
    eview = {b: expected[b].view(np.int64) for b in bufs}
    for limb, cell in enumerate(c["post"]):
        acc = np.zeros(n, dtype=np.int64)
        for t in cell["t"]:
            buf, li = abs(t) // 10, abs(t) % 10 - 1
            acc = acc + (data[(buf, li)] if t > 0 else -data[(buf, li)])
        if cell["m"] in ("rot", "aut"):
            acc = ring_map(cell["m"], n, p, acc)
        eview[c["rb"]][limb * sl["r"]:limb * sl["r"] + n] = acc
    desc = "%s[%s] N=%d sizes=(%d,%d,%d) strides=(%d,%d,%d) alias=%s p=%d" % (
        op, modkind, n, rs, as_, bs, sl["r"], sl["a"], sl["b"], c["alias"], p)
    with ro(*[bufs[b] for b in bufs if b != c["rb"] or rs == 0]):      # buffers the call only reads
        call_op(L, mods.get(n, modkind), op, p, bufs[c["rb"]], rs, sl["r"], bufs[c["ab"]], as_, sl["a"],
                bufs[c["bb"]], bs, sl["b"])
    result = [bufs[c["rb"]].i64[i * sl["r"]:i * sl["r"] + n].copy() for i in range(rs)] if want_result else None

    def ret(why):
        return (why, desc, result) if want_result else (why, desc)
    for b in bufs:
        if not bufs[b].canaries_ok():
            return ret("write outside buffer %d (canary)" % b)
    for b in bufs:
        if not np.array_equal(bufs[b].u8, expected[b]):
            got, exp = bufs[b].i64, eview[b]
            k = int(np.argmax(got != exp))
            where = "output limb" if (b == c["rb"] and k // sl["r"] < rs and k % sl["r"] < n) else \
                "a cell that must not change (padding, limb past res_size, or source)"
            return ret("buffer %d cell %d (%s): got %d expected %d" % (b, k, where, int(got[k]), int(exp[k])))
    return ret(None)
