#!/usr/bin/env python3
"""Prints the markdown table of /verif/seeded/*/meta.json (used for DESIGN.md section 0.6)."""
import glob
import json
import os
import re

VERIF = os.path.dirname(os.path.dirname(os.path.abspath(__file__)))


def first_sentence(path, key):
    try:
        t = open(path, errors="replace").read()
    except OSError:
        return ""
    return t


rows = []
for mp in sorted(glob.glob(os.path.join(VERIF, "seeded", "*", "meta.json"))):
    m = json.load(open(mp))
    patch = open(os.path.join(os.path.dirname(mp), "patch.diff"), errors="replace").read()
    files = sorted(set(re.findall(r"^\+\+\+ b/(\S+)", patch, flags=re.M)))
    caught = ", ".join(m.get("caught_by") or []) or "**missed**"
    firsts = []
    for r in m.get("checks_run", []):
        if r.get("exit") == 1 and r.get("first"):
            firsts.append(r["first"][0][:140])
    early = ""
    for h in m.get("earlier_evaluations", []):
        miss = [("%s %s" % (r["check"], r["tier"])) for r in h["checks_run"] if r["exit"] == 0]
        if miss:
            early = "missed by " + ", ".join(miss) + " at " + h.get("verif_commit", "?")
    inrepo = m.get("confirmed_in_repo")
    rows.append("| %s | %s | %s | %s | %s | %s |" % (
        m["id"], ", ".join(os.path.basename(f) for f in files), (m.get("breaks", "") + " **Needs:** " + m.get("needs", "")).replace("|", "/"), caught + (" (in /repo: exit %s)" % inrepo[0]["exit"] if inrepo else ""),
        (firsts[0] if firsts else "").replace("|", "/"), early))
print("| id | files changed | what it breaks / what it needs | caught by | first report | history |")
print("|---|---|---|---|---|---|")
print("\n".join(rows))
