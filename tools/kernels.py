"""Registry and drivers of the exported complex-vector kernels (reim / cplx / reim4 layouts), shared by C07, C13,
C17, C18. Data are integer-valued, so every floating-point operation is exact and results are compared exactly."""
import numpy as np

from lib import Buf, MASK_NONE, MASK_GENERIC, ro

# name, layout, kind, how it is called, constructor of the table it needs, complex numbers consumed per loop step
PW_KERNELS = [
    ("reim_fftvec_mul", "reim", "mul", "dispatch", "new_reim_fftvec_mul_precomp", 1),
    ("reim_fftvec_mul_ref", "reim", "mul", "direct", "new_reim_fftvec_mul_precomp", 1),
    ("reim_fftvec_mul_fma", "reim", "mul", "direct", "new_reim_fftvec_mul_precomp", 4),
    ("reim_fftvec_mul_simple", "reim", "mul", "simple", None, 1),
    ("reim_fftvec_addmul", "reim", "addmul", "dispatch", "new_reim_fftvec_addmul_precomp", 1),
    ("reim_fftvec_addmul_ref", "reim", "addmul", "direct", "new_reim_fftvec_addmul_precomp", 1),
    ("reim_fftvec_addmul_fma", "reim", "addmul", "direct", "new_reim_fftvec_addmul_precomp", 4),
    ("reim_fftvec_addmul_simple", "reim", "addmul", "simple", None, 1),
    ("cplx_fftvec_mul", "cplx", "mul", "dispatch", "new_cplx_fftvec_mul_precomp", 1),
    ("cplx_fftvec_mul_ref", "cplx", "mul", "direct", "new_cplx_fftvec_mul_precomp", 1),
    ("cplx_fftvec_mul_fma", "cplx", "mul", "direct", "new_cplx_fftvec_mul_precomp", 8),
    ("cplx_fftvec_mul_simple", "cplx", "mul", "simple", None, 1),
    ("cplx_fftvec_addmul", "cplx", "addmul", "dispatch", "new_cplx_fftvec_addmul_precomp", 1),
    ("cplx_fftvec_addmul_ref", "cplx", "addmul", "direct", "new_cplx_fftvec_addmul_precomp", 1),
    ("cplx_fftvec_addmul_fma", "cplx", "addmul", "direct", "new_cplx_fftvec_addmul_precomp", 4),
    ("cplx_fftvec_addmul_sse", "cplx", "addmul", "direct", "new_cplx_fftvec_addmul_precomp", 2),
    ("cplx_fftvec_addmul_avx512", "cplx", "addmul", "direct", "new_cplx_fftvec_addmul_precomp", 8),
    ("cplx_fftvec_addmul_simple", "cplx", "addmul", "simple", None, 1),
    ("reim4_fftvec_mul", "reim4", "mul", "dispatch", "new_reim4_fftvec_mul_precomp", 4),
    ("reim4_fftvec_mul_ref", "reim4", "mul", "direct", "new_reim4_fftvec_mul_precomp", 4),
    ("reim4_fftvec_mul_fma", "reim4", "mul", "direct", "new_reim4_fftvec_mul_precomp", 4),
    ("reim4_fftvec_mul_simple", "reim4", "mul", "simple", None, 4),
    ("reim4_fftvec_addmul", "reim4", "addmul", "dispatch", "new_reim4_fftvec_addmul_precomp", 4),
    ("reim4_fftvec_addmul_ref", "reim4", "addmul", "direct", "new_reim4_fftvec_addmul_precomp", 4),
    ("reim4_fftvec_addmul_fma", "reim4", "addmul", "direct", "new_reim4_fftvec_addmul_precomp", 4),
    ("reim4_fftvec_addmul_simple", "reim4", "addmul", "simple", None, 4),
]


def to_layout(layout, z):
    """z: (m x 2) integer array -> float64 array of 2m doubles in the given layout."""
    z = np.asarray(z, dtype=np.float64).reshape(-1, 2)
    m = z.shape[0]
    out = np.empty(2 * m, dtype=np.float64)
    if layout == "reim":
        out[:m], out[m:] = z[:, 0], z[:, 1]
    elif layout == "cplx":
        out[0::2], out[1::2] = z[:, 0], z[:, 1]
    else:  # reim4: blocks of 4 real parts then 4 imaginary parts
        blk = z.reshape(m // 4, 4, 2)
        o = out.reshape(m // 4, 8)
        o[:, :4], o[:, 4:] = blk[:, :, 0], blk[:, :, 1]
    return out


def from_layout(layout, arr, m):
    """-> (m x 2) float64 array"""
    arr = np.asarray(arr)
    z = np.empty((m, 2), dtype=np.float64)
    if layout == "reim":
        z[:, 0], z[:, 1] = arr[:m], arr[m:]
    elif layout == "cplx":
        z[:, 0], z[:, 1] = arr[0::2], arr[1::2]
    else:
        o = arr.reshape(m // 4, 8)
        z.reshape(m // 4, 4, 2)[:, :, 0] = o[:, :4]
        z.reshape(m // 4, 4, 2)[:, :, 1] = o[:, 4:]
    return z


class Tables:
    """tables created per (constructor, m, mask); never freed during a run (they are small)."""

    def __init__(self, L):
        self.L = L
        self.cache = {}

    def get(self, ctor, m, mask, *extra):
        key = (ctor, m, mask) + extra
        if key not in self.cache:
            self.L.set_cpu_mask(mask)
            self.cache[key] = self.L.fn(ctor, "p w" + "".join(e[0] for e in extra))(m, *[e[1] for e in extra])
            self.L.set_cpu_mask(MASK_NONE)
        return self.cache[key]


def run_pointwise(L, tables, kern, m, mask, a, b, r0, alias, off=0):
    """Runs one pointwise kernel. a, b, r0: (m x 2) integer arrays. alias in none|ra|rb|rab|ab.
    Returns ((m x 2) float result, None) or (None, reason)."""
    name, layout, kind, how, ctor, step = kern
    offa, offb, offr = off if isinstance(off, (tuple, list)) else (off, off, off)       # one offset for all, or one per operand
    A = Buf(16 * m, off=offa, fill=0x44)
    B = A if alias == "ab" else Buf(16 * m, off=offb, fill=0x55)
    R = A if alias in ("ra", "rab") else (B if alias == "rb" else Buf(16 * m, off=offr, fill=0x66))
    if alias == "rab":
        B = A
    A.f64[:] = to_layout(layout, a)
    if B is not A:
        B.f64[:] = to_layout(layout, b)
    if R is not A and R is not B:
        R.f64[:] = to_layout(layout, r0)
    a0, b0 = A.snapshot(), B.snapshot()
    fp0 = L.fpenv()
    with ro(*[x for x in (A, B) if x is not R]):
        if how == "simple":
            L.fn(name, "v wppp")(m, R.addr, A.addr, B.addr)
        else:
            t = tables.get(ctor, m, mask if how == "dispatch" else MASK_NONE)
            L.fn(name, "v pppp")(t, R.addr, A.addr, B.addr)
    why = L.fpenv_check(fp0)
    if why:
        return None, why
    for buf in (A, B, R):
        if not buf.canaries_ok():
            return None, "write outside a vector (canary)"
    if R is not A and not np.array_equal(A.u8, a0):
        return None, "source a modified"
    if R is not B and not np.array_equal(B.u8, b0):
        return None, "source b modified"
    return from_layout(layout, R.f64, m), None


def applicable(kern, m):
    step = kern[5]
    return m >= step and m % step == 0 and (kern[1] != "reim4" or m % 4 == 0)
