"""Shared machinery of the checks: builds, TLC runs, evidence, violations, known findings.

Exit codes of a check: 0 = property held on everything explored (KNOWN-FINDING lines allowed),
1 = violation observed on the real code (VIOLATION line printed), 2 = infrastructure/model failure
(no VIOLATION line; nothing is claimed).
"""
import fcntl
import json
import os
import re
import shutil
import subprocess
import sys
import time

VERIF = os.path.dirname(os.path.dirname(os.path.abspath(__file__)))
REPO = os.environ.get("SPQLIOS_REPO", "/repo")
# VERIF_BUILD / VERIF_WORK / VERIF_EVID: only set by tools/seeded.py, which judges a seeded change in a scratch worktree
# (SPQLIOS_REPO) without touching /repo, /verif/_build or /verif/evidence; the registered commands never set them
BUILD = os.environ.get("VERIF_BUILD", os.path.join(VERIF, "_build"))
WORK = os.environ.get("VERIF_WORK", os.path.join(VERIF, "_work"))
SPEC = os.path.join(VERIF, "spec")
EVID = os.environ.get("VERIF_EVID", os.path.join(VERIF, "evidence"))
TLA_CP = "/opt/veriftools/tla/tla2tools.jar:/opt/veriftools/tla/CommunityModules-deps.jar"


class Infra(Exception):
    """Infrastructure or model failure: exit 2, never a VIOLATION."""


def log(*a):
    print(*a, file=sys.stderr, flush=True)


def seed():
    try:
        return int(os.environ.get("VERIF_SEED", "1"))
    except ValueError:
        return 1


def workdir(name):
    d = os.path.join(WORK, name)
    shutil.rmtree(d, ignore_errors=True)
    os.makedirs(d, exist_ok=True)
    return d


# --------------------------------------------------------------------------- builds
def build(kind="rel", targets=None):
    """Incremental out-of-tree build of /repo's *current working tree* with -DSPQLIOS_VERIF.
    kind: rel | asan | tsan. Returns the build directory."""
    os.makedirs(BUILD, exist_ok=True)
    bdir = os.path.join(BUILD, kind)
    lock = open(os.path.join(BUILD, ".lock-" + kind), "w")
    fcntl.flock(lock, fcntl.LOCK_EX)
    try:
        if not os.path.exists(os.path.join(bdir, "build.ninja")):
            cmd = ["cmake", "-G", "Ninja", "-S", os.path.join(VERIF, "harness"), "-B", bdir,
                   "-DSPQLIOS_REPO=" + REPO, "-DCMAKE_BUILD_TYPE=Release"]
            if kind != "rel":
                cmd += ["-DVERIF_SAN=" + kind]
            r = subprocess.run(cmd, capture_output=True, text=True)
            if r.returncode != 0:
                raise Infra("cmake configure failed:\n" + r.stdout[-3000:] + r.stderr[-3000:])
        cmd = ["cmake", "--build", bdir, "-j", "16"]
        if targets:
            cmd += ["--target"] + list(targets)
        r = subprocess.run(cmd, capture_output=True, text=True)
        if r.returncode != 0:
            raise Infra("build of /repo working tree failed:\n" + r.stdout[-4000:] + r.stderr[-2000:])
    finally:
        fcntl.flock(lock, fcntl.LOCK_UN)
        lock.close()
    return bdir


# --------------------------------------------------------------------------- TLC
class TlcResult:
    def __init__(self):
        self.rc = None
        self.out = ""
        self.generated = 0
        self.distinct = 0
        self.depth = 0
        self.ok = False            # "Model checking completed. No error has been found."
        self.violation = None      # name of violated invariant/property, or "deadlock", ...
        self.error = None          # parse / evaluation error text
        self.coverage = {}         # action -> (taken, generated)
        self.printed = []          # PrintT'ed values (raw lines)
        self.wall = 0.0


_RE_STATES = re.compile(r"(\d+) states generated, (\d+) distinct states found")
_RE_DEPTH = re.compile(r"The depth of the complete state graph search is (\d+)")
_RE_COV = re.compile(r"^<(\w+) line \d+, col \d+ to line \d+, col \d+ of module (\w+)>: (\d+):(\d+)", re.M)


def run_tlc(module, cfg=None, cwd=SPEC, workers=8, timeout=900, env=None, simulate=None, depth=None,
            coverage=False, tlc_seed=None, xmx="8g", extra=None, deadlock=True, name=None, dfs=False):
    """Runs TLC on spec/<module>.tla with the given cfg. Never raises on a property violation;
    raises Infra on parse errors, timeouts and crashes."""
    meta = workdir("tlc-" + (name or (module + "-" + os.path.basename(cfg or "default"))))
    jopts = ["-XX:+UseParallelGC", "-Xmx" + xmx, "-Xss64m"]
    if dfs:
        jopts.append("-Dtlc2.tool.queue.IStateQueue=StateDeque")
    cmd = ["java"] + jopts + ["-cp", TLA_CP, "tlc2.TLC", "-metadir", meta, "-workers", str(workers),
                              "-noGenerateSpecTE"]
    if cfg:
        cmd += ["-config", cfg]
    if simulate:
        cmd += ["-simulate", "num=%d" % simulate]
    if depth:
        cmd += ["-depth", str(depth)]
    if coverage:
        cmd += ["-coverage", "1"]
    if tlc_seed is not None:
        cmd += ["-seed", str(tlc_seed)]
    if not deadlock:
        cmd += ["-deadlock"]
    if extra:
        cmd += extra
    cmd += [module]
    e = dict(os.environ)
    if env:
        e.update({k: str(v) for k, v in env.items()})
    t0 = time.time()
    try:
        r = subprocess.run(cmd, cwd=cwd, env=e, capture_output=True, text=True, timeout=timeout)
    except subprocess.TimeoutExpired:
        shutil.rmtree(meta, ignore_errors=True)          # (the state files of an abandoned run can take tens of gigabytes)
        raise Infra("TLC timeout (%ss) on %s %s" % (timeout, module, cfg))
    except BaseException:
        shutil.rmtree(meta, ignore_errors=True)
        raise
    res = TlcResult()
    res.wall = time.time() - t0
    res.rc = r.returncode
    res.out = r.stdout + r.stderr
    shutil.rmtree(meta, ignore_errors=True)
    m = None
    for m in _RE_STATES.finditer(res.out):
        pass
    if m:
        res.generated, res.distinct = int(m.group(1)), int(m.group(2))
    m = _RE_DEPTH.search(res.out)
    if m:
        res.depth = int(m.group(1))
    for m in _RE_COV.finditer(res.out):
        res.coverage[m.group(1)] = (int(m.group(3)), int(m.group(4)))
    res.ok = "No error has been found" in res.out or (simulate and r.returncode == 0)
    m = re.search(r"Invariant (\S+) is violated", res.out)
    if m:
        res.violation = m.group(1)
    elif "Deadlock reached" in res.out:
        res.violation = "deadlock"
    elif re.search(r"Temporal properties were violated|Action property .* is violated", res.out):
        res.violation = "temporal"
    elif "The postcondition" in res.out and "violated" in res.out or "Checking of postcondition" in res.out and "failed" in res.out:
        res.violation = "postcondition"
    if not res.ok and res.violation is None:
        res.error = res.out[-4000:]
    return res


def tlc_must_pass(res, what):
    if res.ok and not res.violation:
        return
    raise Infra("model failure in %s: %s\n%s" % (what, res.violation or "error", res.out[-3000:]))


def sany(module_path):
    r = subprocess.run(["java", "-cp", TLA_CP, "tla2sany.SANY", os.path.basename(module_path)],
                       cwd=os.path.dirname(module_path), capture_output=True, text=True)
    ok = r.returncode == 0 and "Semantic errors" not in r.stdout and "***Parse Error***" not in r.stdout \
        and "Fatal errors" not in r.stdout and "Could not find module" not in r.stdout
    return ok, r.stdout + r.stderr


def printed_json(res, tag):
    """Values printed by the spec as PrintT(<<tag, jsonstring>>): returns the parsed JSON values."""
    out = []
    pat = re.compile(r'^<<"' + re.escape(tag) + r'", "(.*)">>$')
    for line in res.out.splitlines():
        m = pat.match(line.strip())
        if m:
            s = m.group(1).replace('\\"', '"').replace("\\\\", "\\")
            out.append(json.loads(s))
    return out


# --------------------------------------------------------------------------- words
def to_words(x, nwords=4):
    """two's-complement little-endian 16-bit words of an integer (for traces; TLC ints are 32 bit)."""
    x &= (1 << (16 * nwords)) - 1
    return [(x >> (16 * i)) & 0xFFFF for i in range(nwords)]


# --------------------------------------------------------------------------- findings
def load_findings():
    p = os.path.join(VERIF, "known_findings.json")
    if not os.path.exists(p):
        return {"findings": [], "fixed": []}
    return json.load(open(p))


# --------------------------------------------------------------------------- a check run
class Check:
    def __init__(self, pid, level, tier):
        self.pid = pid
        self.level = level
        self.tier = tier
        self.seed = seed()
        self.t0 = time.time()
        self.cov = {"samples": []}
        self.assumptions = []
        self.violations = []        # (description, replay payload)
        self.known_hits = []
        self.findings = [f for f in load_findings().get("findings", []) if f.get("property") == pid]
        self.states = 0
        self.transitions = 0
        self.traces = 0
        self.evals = 0
        self.distinct = set()
        self.notes = []
        self.tlc_runs = []

    # -- accounting
    def add_tlc(self, res, role):
        self.states += res.distinct
        self.transitions += res.generated
        self.tlc_runs.append({"role": role, "generated": res.generated, "distinct": res.distinct,
                              "depth": res.depth, "wall_s": round(res.wall, 2),
                              "actions": {k: v[0] for k, v in res.coverage.items()} or None})

    def case(self, key, nontrivial=True):
        self.evals += 1
        if nontrivial:
            self.distinct.add(key)

    def sample(self, s, cap=6):
        if len(self.cov["samples"]) < cap:
            self.cov["samples"].append(s)

    # -- verdicts
    def violation(self, desc, payload, finding_key=None):
        """Observed on the real code. If it matches a committed known finding, it is reported as such."""
        for f in self.findings:
            if finding_key is not None and f.get("key") == finding_key:
                if finding_key not in self.known_hits:
                    self.known_hits.append(finding_key)
                    print("KNOWN-FINDING: property=%s %s" % (self.pid, f.get("what", finding_key)), flush=True)
                return
        self.violations.append((desc, payload))
        if len(self.violations) <= 8:
            log("violation observed: " + desc)

    def finish(self):
        os.makedirs(os.path.join(EVID, "replay"), exist_ok=True)
        cov = self.cov
        cov["evaluations"] = self.evals + len(self.violations) + len(self.known_hits)
        cov["distinct_nontrivial"] = len(self.distinct)
        if self.states:
            cov["states"] = self.states
            cov["transitions"] = self.transitions
        cov["traces_validated_against_impl"] = self.traces
        cov["tlc_runs"] = self.tlc_runs
        if self.notes:
            cov["notes"] = self.notes
        cov["known_findings_hit"] = self.known_hits
        if not cov["samples"]:
            cov["samples"] = ["(no case executed)"]
        rc = 0
        import glob
        for old in glob.glob(os.path.join(EVID, "replay", self.pid + "-*.json")):
            os.remove(old)
        for n, (desc, payload) in enumerate(self.violations[:20]):
            path = os.path.join(EVID, "replay", "%s-%d.json" % (self.pid, n))
            with open(path, "w") as f:
                json.dump({"property": self.pid, "what": desc, "case": payload}, f, indent=1, default=str)
            print("VIOLATION property=%s replay=%s" % (self.pid, path), flush=True)
            rc = 1
        ev = {"property_id": self.pid, "tier": self.tier, "seed": self.seed, "level": self.level,
              "coverage": cov, "assumptions": self.assumptions, "wall_s": round(time.time() - self.t0, 2),
              "violations": len(self.violations)}
        with open(os.path.join(EVID, self.pid + ".json"), "w") as f:
            json.dump(ev, f, indent=1, default=str)
        try:
            validate_evidence(os.path.join(EVID, self.pid + ".json"))
        except Infra:
            if rc != 1:
                raise
        log("%s %s: evaluations=%d distinct=%d states=%d traces=%d violations=%d wall=%.1fs" % (
            self.pid, self.tier, self.evals, len(self.distinct), self.states, self.traces,
            len(self.violations), time.time() - self.t0))
        return rc


def validate_evidence(path):
    try:
        import jsonschema
        schema = json.load(open("/root/.vp/EVIDENCE.schema.json"))
        jsonschema.validate(json.load(open(path)), schema)
    except ImportError:
        pass
    except FileNotFoundError:
        pass
    except Exception as e:  # schema violation is an infrastructure failure
        raise Infra("evidence file does not validate: %s" % e)


# --------------------------------------------------------------------------- trace validation
def validate_events(module, cfg, events, name, nproc=8, timeout=900, xmx="6g", env=None):
    """Validates recorded events with a stateless-per-event trace spec (prints RESULT n/bad).
    Splits the events over up to nproc TLC processes. Returns (bad_event_indices, [TlcResult])."""
    from concurrent.futures import ThreadPoolExecutor
    if not events:
        return [], []

    def out_of_range(v):
        if isinstance(v, bool):
            return False
        if isinstance(v, int):
            return not (-(1 << 31) < v < (1 << 31))
        if isinstance(v, float):
            return True                       # specifications only see integers (wide values travel as 16-bit words)
        if isinstance(v, (list, tuple)):
            return any(out_of_range(x) for x in v)
        if isinstance(v, dict):
            return any(out_of_range(x) for x in v.values())
        return False
    # TLC integers are 32-bit: an event carrying a larger number cannot be what any specification computes (wide
    # quantities are logged as words), so it is rejected up front instead of crashing the deserialiser
    events = [ev if not out_of_range(ev) else {"e": "ValueOutsideSpecificationRange"} for ev in events]
    d = workdir("trace-" + name)
    nproc = max(1, min(nproc, (len(events) + 199) // 200))
    per = (len(events) + nproc - 1) // nproc
    jobs = []
    for c in range(nproc):
        part = events[c * per:(c + 1) * per]
        if not part:
            continue
        path = os.path.join(d, "t%d.ndjson" % c)
        with open(path, "w") as f:
            for ev in part:
                f.write(json.dumps(ev, separators=(",", ":")) + "\n")
        jobs.append((c, path, len(part)))

    def one(job):
        c, path, n = job
        e = {"TRACE": path}
        if env:
            e.update(env)
        r = run_tlc(module, cfg, workers=1, timeout=timeout, env=e, xmx=xmx,
                    name="%s-%d" % (name, c))
        out = printed_json(r, "RESULT")
        if not out or out[-1].get("n") != n:
            raise Infra("trace validation of %s chunk %d did not complete:\n%s" % (name, c, r.out[-3000:]))
        return [c * per + (b - 1) for b in out[-1]["bad"]], r

    bad, results = [], []
    with ThreadPoolExecutor(max_workers=len(jobs)) as ex:
        for b, r in ex.map(one, jobs):
            bad += b
            results.append(r)
    shutil.rmtree(d, ignore_errors=True)
    return sorted(bad), results


# --------------------------------------------------------------------------- isolation of real-code runs
class Rec:
    """Collector with the accounting API of Check, filled inside a forked child and merged by the parent."""

    def __init__(self, seed_=1, tier="quick"):
        self.seed, self.tier = seed_, tier
        self.cases = []
        self.viol = []
        self.samples = []
        self.notes = []
        self.data = {}
        self._progress = None
        self._skip = set()

    def case(self, key, nontrivial=True):
        self.cases.append((key, nontrivial))

    def violation(self, desc, payload, finding_key=None):
        if len(self.viol) < 200:
            self.viol.append((desc, payload, finding_key))

    def sample(self, s):
        if len(self.samples) < 3:
            self.samples.append(s)

    def progress(self, text):
        """Announces the next call into the library. Returns False when this call must be skipped (it crashed
        or hung in a previous attempt and has been reported)."""
        if text[:250] in self._skip:
            return False
        if self._progress is not None:
            self._progress.value = text.encode()[:250]
        return True


def _merge(chk, rec):
    for key, nt in rec.cases:
        chk.case(key, nt)
    for desc, payload, fk in rec.viol:
        chk.violation(desc, payload, fk)
    for s_ in rec.samples:
        chk.sample(s_)
    chk.notes.extend(rec.notes)


def isolated(chk, label, fn, args=(), timeout=900, max_restarts=6):
    """Runs fn(rec, *args) in a forked child so that a crash or a hang of the code under test becomes an
    observation (violation naming the call that was started last) instead of killing the check. After a crash the
    job is restarted from scratch with that call skipped (fn must honour the return value of rec.progress), so
    that the rest of the work is still done. Returns rec.data of the attempt that completed, or None."""
    import multiprocessing as mp
    ctx = mp.get_context("fork")
    skip = set()
    for attempt in range(max_restarts + 1):
        prog = ctx.Array("c", 256)
        parent, child = ctx.Pipe(duplex=False)

        def body():
            rec = Rec(chk.seed, chk.tier)
            rec._progress = prog
            rec._skip = skip
            try:
                fn(rec, *args)
                rec._progress = None
                child.send(("ok", rec))
            except Infra as e:
                child.send(("infra", str(e)))
            except BaseException:
                import traceback
                child.send(("infra", traceback.format_exc()))
            child.close()
            os._exit(0)

        pr = ctx.Process(target=body)
        pr.start()
        child.close()
        msg = None
        if parent.poll(timeout):
            try:
                msg = parent.recv()
            except EOFError:
                msg = None
        if msg is None:
            pr.join(3)                      # a crashed child closes the pipe slightly before it can be reaped
            alive = pr.is_alive()
            if alive:
                pr.kill()
            pr.join()
            last = prog.value.decode(errors="replace")
            if not alive and pr.exitcode == -9:
                # SIGKILL is never raised by the code under test: the system killed the child (out of memory, an outer timeout) - no verdict
                chk.notes.append("%s: the child process was killed by the system (SIGKILL) in: %s - not a verdict" % (label, last))
                return None
            what = "did not return within %ds" % timeout if alive else "crashed (signal %s)" % (-pr.exitcode if pr.exitcode else pr.exitcode)
            chk.violation("%s: the library %s in: %s" % (label, what, last),
                          {"label": label, "last_call": last, "how": what}, finding_key="crash:" + last)
            if not last or last in skip:
                return None
            skip.add(last)
            continue
        pr.join()
        kind, payload = msg
        if kind == "infra":
            raise Infra("%s: %s" % (label, payload))
        _merge(chk, payload)
        return payload.data
    return None


def isolated_many(chk, jobs, timeout=900, nproc=8):
    """jobs: list of (label, fn, args). Runs them in parallel forked children. Returns list of rec.data."""
    from concurrent.futures import ThreadPoolExecutor
    import threading
    lock = threading.Lock()
    out = [None] * len(jobs)

    class Proxy:  # serialise the merges
        def __init__(self):
            self.seed, self.tier = chk.seed, chk.tier

        def case(self, *a, **k):
            with lock:
                chk.case(*a, **k)

        def violation(self, *a, **k):
            with lock:
                chk.violation(*a, **k)

        def sample(self, *a, **k):
            with lock:
                chk.sample(*a, **k)

        @property
        def notes(self):
            return chk.notes

    def one(i):
        label, fn, args = jobs[i]
        out[i] = isolated(Proxy(), label, fn, args, timeout)

    with ThreadPoolExecutor(max_workers=nproc) as ex:
        list(ex.map(one, range(len(jobs))))
    return out
