#!/bin/sh
# Builds /repo's current working tree WITHOUT the verification guard in a scratch directory
# (outside /repo and /verif), runs the repository's own test suite, removes the directory.
set -e
D=$(mktemp -d /tmp/spqlios-baseline-XXXXXX)
trap 'rm -rf "$D"' EXIT
cmake -G Ninja -S /repo -B "$D" -DCMAKE_BUILD_TYPE=Release >"$D/configure.log" 2>&1 || { cat "$D/configure.log"; exit 2; }
cmake --build "$D" -j 16 >"$D/build.log" 2>&1 || { tail -50 "$D/build.log"; exit 2; }
ctest --test-dir "$D" -j8 --timeout 900 --output-junit "$D/junit.xml" | tail -15
# the ctest entry wraps one googletest binary; run it directly so that the individual test results are visible
"$D/test/spqlios-test" --gtest_brief=1 2>&1 | tail -5
