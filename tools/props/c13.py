"""C13 - supported in-place calls give the same result as out-of-place calls.

 1. TLC exhaustive, with the aliasing dimension: LimbLoops (res=a, res=b, a=b, all three), Normalize (res=a),
    RingMaps (in-place walks), Pointwise (r=a, r=b, block-wise load/store): Algo = Def evaluated on the pre-state.
 2. direction A: every aliased case of those models replayed on the real code, and again with the aliasing removed
    on identical operand values: both must equal the model's state, hence each other. Programs of the API machine
    (in-place inverse DFT, aliased coefficient/big operations) replayed lifted.
 3. direction B: pointwise kernels (reim, cplx, reim4; ref, FMA, SSE, AVX-512, dispatch, simple) with r=a, r=b on
    random integer-valued data recorded and validated by TLC.
"""
import json
import ctypes
import random

import numpy as np

from common import (run_tlc, tlc_must_pass, printed_json, validate_events, Infra, isolated, isolated_many)
from lib import Lib, MASK_NONE, MASK_GENERIC
import vecops
import kernels
from props import c05, c08, c09, c16

LEVEL = "model_checking"


def drive_limb(rec, cases, part, nparts):
    rng = random.Random(rec.seed * 53 + part)
    L = Lib.get()
    mods = vecops.Modules(L)
    twins = {}
    for c in cases:
        if c["alias"] in ("none", "ab"):
            twins[(c["alias"], c["op"], c["rs"], c["as"], c["bs"], c["rsl"], c["asl"], c["bsl"])] = c
    ok = 0
    for idx, c in enumerate(cases):
        if idx % nparts != part or c["alias"] in ("none", "ab"):
            continue
        # out-of-place twin: separate result buffer, same operand values (for res=a=b the twin keeps a=b)
        tw = twins.get(("ab" if c["alias"] == "rab" else "none", c["op"], c["rs"], c["as"], c["bs"], c["rsl"], c["asl"], c["bsl"]))
        n = rng.choice([2, 4, 8, 16, 64, 256])
        kinds = ["fft64", "fft64-generic"] + (["ntt120"] if c["op"] in vecops.GENERIC else [])
        mk = rng.choice(kinds)
        seed = rng.randrange(1 << 30)
        p = rng.choice([0, 1, -1, n, n + 1, 5, rng.randrange(-(1 << 40), 1 << 40)])
        label = "%s[%s] N=%d sizes=(%d,%d,%d) alias=%s" % (c["op"], mk, n, c["rs"], c["as"], c["bs"], c["alias"])
        if not rec.progress(label):
            continue
        why, desc, r1 = vecops.run_case(L, mods, c, n, mk, random.Random(seed), data_seed=seed, p=p, want_result=True)
        rec.case(("limb", c["op"], mk, c["rs"], c["as"], c["bs"], c["alias"]), nontrivial=c["rs"] > 0)
        if why:
            rec.violation(desc + " (aliased call): " + why, {"case": c, "N": n, "module": mk})
            continue
        if tw is not None:
            # the twin has separate buffers; roles a/b carry the same values, so results must coincide
            why2, desc2, r2 = vecops.run_case(L, mods, tw, n, mk, random.Random(seed), data_seed=seed, p=p, want_result=True)
            if why2:
                rec.violation(desc2 + " (out-of-place twin): " + why2, {"case": tw, "N": n, "module": mk})
                continue
            # with res=a the aliased a-data is what the twin reads as a; with res=b likewise for b
            same = all(np.array_equal(x, y) for x, y in zip(r1, r2))
            if not same:
                rec.violation(desc + ": in-place result differs from the out-of-place result on the same operands",
                              {"case": c, "twin": tw, "N": n, "module": mk})
                continue
        ok += 1
    rec.data["ok"] = ok


def tile(z, m):
    z = np.asarray(z, dtype=np.int64)
    reps = m // z.shape[0]
    return np.tile(z, (reps, 1))


def drive_pw_a(rec, cases):
    rng = random.Random(rec.seed)
    L = Lib.get()
    tables = kernels.Tables(L)
    ok = 0
    for c in cases:
        for kern in kernels.PW_KERNELS:
            if kern[2] != c["kind"]:
                continue
            for m in sorted({c["m"], c["m"] * 4, c["m"] * 16, 64, 256}):
                if m % c["m"] or not kernels.applicable(kern, m):
                    continue
                for mask in ((MASK_NONE, MASK_GENERIC) if kern[3] == "dispatch" else (MASK_NONE,)):
                    label = "%s m=%d alias=%s mask=%d" % (kern[0], m, c["alias"], mask)
                    if not rec.progress(label):
                        continue
                    got, why = kernels.run_pointwise(L, tables, kern, m, mask, tile(c["a"], m), tile(c["b"], m),
                                                     tile(c["r0"], m), c["alias"], off=rng.choice([0, 8, 16, 24]))
                    rec.case(("pwA", kern[0], m, c["alias"], mask), nontrivial=c["alias"] != "none")
                    if got is None or not np.array_equal(got, tile(c["r"], m).astype(np.float64)):
                        rec.violation(label + ": " + (why or "result differs from the model's final state"),
                                      {"kernel": kern[0], "m": m, "case": c})
                    else:
                        ok += 1
    rec.data["ok"] = ok


def drive_pw_b(rec, part, count):
    rng = random.Random(rec.seed * 89 + part)
    L = Lib.get()
    tables = kernels.Tables(L)
    events = []
    for it in range(count):
        kern = rng.choice(kernels.PW_KERNELS)
        m = rng.choice([1, 2, 4, 8, 16, 32, 64])
        if not kernels.applicable(kern, m):
            continue
        alias = rng.choice(["none", "ra", "rb", "rab", "ab"])
        mask = rng.choice([MASK_NONE, MASK_GENERIC])
        a = np.array([[rng.randrange(-2000, 2000), rng.randrange(-2000, 2000)] for _ in range(m)])
        b = np.array([[rng.randrange(-2000, 2000), rng.randrange(-2000, 2000)] for _ in range(m)])
        r0 = np.array([[rng.randrange(-2000, 2000), rng.randrange(-2000, 2000)] for _ in range(m)])
        if alias in ("ra", "rab"):
            r0 = a
        if alias in ("rb", "rab"):
            b = r0 if alias == "rb" else a
            if alias == "rb":
                r0 = b
        if alias == "ab":
            b = a
        label = "%s m=%d alias=%s mask=%d (random integer data)" % (kern[0], m, alias, mask)
        if not rec.progress(label):
            continue
        got, why = kernels.run_pointwise(L, tables, kern, m, mask, a, b, r0, alias, off=rng.choice([0, 8, 16, 24]))
        rec.case(("pwB", kern[0], m, alias, mask), nontrivial=alias != "none")
        if got is None or not np.array_equal(got, np.rint(got)) or not (np.abs(got) < 2.0 ** 30).all():
            rec.violation(label + ": " + (why or "non-integer or huge output on small integer data"), {"kernel": kern[0], "m": m})
            continue
        events.append({"e": "Pw", "kind": kern[2], "a": a.tolist(), "b": b.tolist(), "r0": r0.tolist(),
                       "r": got.astype(np.int64).tolist(), "_what": label})
    rec.data["events"] = events


def drive_idft_overlay(rec, cases, ns):
    """IdftOverlay.tla cases: vec_znx_idft / vec_znx_idft_tmp_a with res = the buffer of a_dft against the same call with a
    separate output (and against the integers the DFT was made from)"""
    from lib import Buf, FFT64, NTT120
    L = Lib.get()
    rng = random.Random(rec.seed * 29 + 1)
    ok = 0
    for n in ns:
        for c in cases:
            variants = [("FFT64", FFT64, MASK_NONE), ("FFT64", FFT64, MASK_GENERIC)] if c["ratio"] == 1 else [("NTT120", NTT120, MASK_NONE)]
            for mk, mt, mask in variants:
                mod = L.module(n, mt, mask)
                L.set_cpu_mask(MASK_NONE)
                unit = 8 * n if c["ratio"] == 1 else 16 * n          # bytes of one big limb; a DFT limb is ratio units
                a_size, r_size = c["as"], c["rs"]
                vals = [np.array([rng.randrange(-(1 << 20), 1 << 20) for _ in range(n)], dtype=np.int64) for _ in range(a_size)]
                A = Buf(8 * n * a_size, fill=0x11)
                for i, v in enumerate(vals):
                    A.i64[i * n:(i + 1) * n] = v
                for tmp_a in (False, True):
                    label = "vec_znx_idft%s[%s mask=%d] N=%d a_size=%d res_size=%d res = a_dft" % ("_tmp_a" if tmp_a else "", mk, mask, n, a_size, r_size)
                    if not rec.progress(label):
                        continue
                    shared = Buf(unit * max(c["ratio"] * a_size, r_size), fill=0x6B)
                    sep_d = Buf(unit * c["ratio"] * a_size, fill=0x6B)
                    sep_r = Buf(unit * r_size, fill=0x3A)
                    L.call("vec_znx_dft", mod, sep_d, a_size, A, a_size, n)
                    shared.u8[:unit * c["ratio"] * a_size] = sep_d.u8
                    T1 = Buf(L.call("vec_znx_idft_tmp_bytes", mod), fill=0xEE)
                    T2 = Buf(L.call("vec_znx_idft_tmp_bytes", mod), fill=0xEE)
                    if tmp_a:
                        L.call("vec_znx_idft_tmp_a", mod, sep_r, r_size, sep_d, a_size)
                        L.call("vec_znx_idft_tmp_a", mod, shared, r_size, shared, a_size)
                    else:
                        L.call("vec_znx_idft", mod, sep_r, r_size, sep_d, a_size, T1)
                        L.call("vec_znx_idft", mod, shared, r_size, shared, a_size, T2)
                    rec.case(("idft overlay", mk, mask, a_size, r_size, tmp_a), nontrivial=r_size > 0 and a_size > 0)
                    if not all(b.canaries_ok() for b in (shared, sep_d, sep_r, T1, T2, A)):
                        rec.violation(label + ": write outside an object", {"case": c, "N": n})
                        continue
                    if not np.array_equal(shared.u8[:unit * r_size], sep_r.u8):
                        k = int(np.argmax(shared.u8[:unit * r_size] != sep_r.u8))
                        rec.violation(label + ": differs from the call with a separate output (byte %d, limb %d)" % (k, k // unit),
                                      {"case": c, "N": n, "variant": "tmp_a" if tmp_a else "idft"})
                        continue
                    exp = np.zeros(r_size * n, dtype=np.int64)
                    for i in range(min(a_size, r_size)):
                        exp[i * n:(i + 1) * n] = vals[i]
                    got = sep_r.i64 if c["ratio"] == 1 else sep_r.i64.reshape(-1, 2)[:, 0]
                    if not np.array_equal(got, exp):
                        rec.violation(label + ": the out-of-place result is not the original integers / zero extension", {"case": c, "N": n})
                        continue
                    ok += 1
                L.delete_module(mod)
    rec.data["ok"] = ok


def compaction_legal(n, rs, rsl, size, asl, r0=0, a0=0, descending=False):
    """result limbs at r0 + i*rsl, source limbs at a0 + j*asl (cells of one buffer): a limb that is computed from a source limb (i < min)
    must coincide with its own source or be disjoint from it, and must not touch a source limb that is still to be read (the limbs are
    taken in ascending order - descending for the normalisation, which starts at the least significant limb); the limbs that are only
    zero-filled (i >= size) come last and may land anywhere inside the vector"""
    def inter(x, y):
        return x < y + n and y < x + n
    order = list(range(min(rs, size)))
    if descending:
        order.reverse()
    for pos, i in enumerate(order):
        r = r0 + i * rsl
        if inter(r, a0 + i * asl) and r != a0 + i * asl:
            return False
        for j in order[pos + 1:]:
            if inter(r, a0 + j * asl):
                return False
    if rsl < n and rs > 1:
        return False
    return True


def drive_compaction(rec, quick, cases=()):
    """res is the same base pointer as one source with another stride (a limb vector compacted, or compacted and cleared, in place; the
    one-limb case with different nominal strides).  Only shapes where every output limb is its own source limb or overlaps nothing that
    is still to be read are driven (compaction_legal), so the result must equal the out-of-place result.  Unary operations, and add / sub
    with the result over their first or their second operand."""
    from lib import Buf, FFT64, NTT120
    rng = random.Random(rec.seed * 13 + 7)
    L = Lib.get()
    ok = 0
    for n in ([4, 16, 64] if quick else [2, 4, 8, 16, 64, 256, 2048]):
        for mk, mt, mask in (("fft64", FFT64, MASK_NONE), ("fft64-generic", FFT64, MASK_GENERIC), ("ntt120", NTT120, MASK_NONE)):
            mod = L.module(n, mt, mask)
            L.set_cpu_mask(MASK_NONE)
            shapes = [(size, rs, rsl, asl, 0, 0) for (size, rs) in ((1, 1), (2, 2), (3, 3), (3, 2), (2, 3), (2, 4), (2, 5), (3, 5), (3, 7), (4, 8), (1, 3))
                      for (rsl, asl) in ((n, 2 * n), (n + 1, 2 * n + 2), (n + 2, 2 * n + 2), (n, 3 * n), (n, 2 * n + 1))
                      if compaction_legal(n, rs, rsl, size, asl)]
            # the two vectors start at different places of one buffer and share single limbs (rows of a table moved to other rows)
            shapes += [(size, rs, rsl, asl, r0, a0) for (size, rs) in ((2, 2), (3, 3), (3, 2), (4, 4))
                       for (rsl, asl, r0, a0) in ((4 * n, 3 * n, 0, n), (n, 3 * n, n, 0), (n, 2 * n, n, 0), (3 * n, 4 * n, n, 0), (2 * n, 2 * n, 0, n),
                                                  (2 * n, 2 * n, n, 0), (n, 2 * n, 2 * n, 0), (3 * n, n, 0, n))
                       if compaction_legal(n, rs, rsl, size, asl, r0, a0)]
            # the layouts enumerated by TLC from Overlay.tla (box N0 = 2), scaled to this dimension: a sample of them; the rule written in
            # Python above must agree with the specification on every one of them
            t_ = n // 2
            asc = [c for c in cases if not c["desc"]]
            for c in asc:
                if not compaction_legal(2, c["rs"], c["rsl"], c["size"], c["asl"], c["r0"], c["a0"]):
                    raise Infra("Overlay.tla and compaction_legal disagree on %s" % c)
            shapes += [(c["size"], c["rs"], c["rsl"] * t_, c["asl"] * t_, c["r0"] * t_, c["a0"] * t_)
                       for c in rng.sample(asc, min(len(asc), 40 if quick else 400))]
            for op in ("rotate", "automorphism", "copy", "negate", "add:a", "add:b", "sub:a", "sub:b"):
                for (size, rs, rsl, asl, r0, a0) in shapes:
                    words = max(a0 + (size - 1) * asl, r0 + (rs - 1) * rsl) + n
                    B0 = Buf(8 * words, fill=0x4D)
                    src = [vecops.role_data(rec.seed + 9, "a", j, n, 50) for j in range(size)]
                    for j in range(size):
                        B0.i64[a0 + j * asl:a0 + j * asl + n] = src[j]
                    B = ctypes.c_void_p(B0.addr + 8 * r0)          # the result vector
                    Bs = ctypes.c_void_p(B0.addr + 8 * a0)         # the aliased source vector
                    p = rng.choice([1, 3, n + 1, 2 * n - 1, 5, -7, 0, 2 * n])
                    if op == "automorphism":
                        p |= 1                      # (an even exponent is not an automorphism: outside the domain)
                    binary = ":" in op
                    osz = rng.choice([0, 1, size, size + 1, rs]) if binary else 0       # the other operand of add / sub: its own buffer and size
                    osl = n + rng.choice([0, 3])
                    O = Buf(8 * ((osz - 1) * osl + n) if osz else 0, fill=0x22)
                    oth = [vecops.role_data(rec.seed + 11, "b", j, n, 50) for j in range(osz)]
                    for j in range(osz):
                        O.i64[j * osl:j * osl + n] = oth[j]
                    label = "%s[%s] N=%d size=%d res_size=%d res shares its buffer with the %s operand (res at +%d stride %d, operand at +%d stride %d)%s p=%d" % (
                        op.split(":")[0], mk, n, size, rs, "second" if op.endswith(":b") else "first", r0, rsl, a0, asl,
                        (", other operand %d limbs" % osz) if binary else "", p)
                    if not rec.progress(label):
                        continue
                    if not binary:
                        vecops.call_op(L, mod, op, p, B, rs, rsl, Bs, size, asl, Bs, 0, n)
                    elif op.endswith(":a"):
                        vecops.call_op(L, mod, op[:3], p, B, rs, rsl, Bs, size, asl, O, osz, osl)
                    else:
                        vecops.call_op(L, mod, op[:3], p, B, rs, rsl, O, osz, osl, Bs, size, asl)
                    rec.case(("compaction", op, mk, size, rs, rsl - n, asl - n, r0, a0))
                    if not (B0.canaries_ok() and O.canaries_ok()):
                        rec.violation(label + ": write outside the vector", {})
                        continue
                    bad = None
                    zero = np.zeros(n, dtype=np.int64)
                    for i in range(rs):
                        e = src[i] if i < size else zero
                        if op == "rotate":
                            e = vecops.ring_map("rot", n, p, e)
                        elif op == "automorphism":
                            e = vecops.ring_map("aut", n, p | 1, e)
                        elif op == "negate":
                            e = -e
                        elif binary:
                            o = oth[i] if i < osz else zero
                            e = (e + o) if op.startswith("add") else ((e - o) if op.endswith(":a") else (o - e))
                        if not np.array_equal(B0.i64[r0 + i * rsl:r0 + i * rsl + n], e):
                            bad = i
                            break
                    # a limb of the aliased source that no output limb touches keeps its bytes (the cells between the limbs too)
                    touched = None
                    for j in range(size):
                        lo = a0 + j * asl
                        if all(not (r0 + i * rsl < lo + n and lo < r0 + i * rsl + n) for i in range(rs)) and \
                                not np.array_equal(B0.i64[lo:lo + n], src[j]):
                            touched = j
                            break
                    if bad is not None:
                        rec.violation(label + ": output limb %d is not the operation applied to the operand limbs %d as passed" % (bad, bad), {"limb": bad})
                    elif touched is not None:
                        rec.violation(label + ": limb %d of the source vector, which no output limb overlaps, was modified" % touched, {"limb": touched})
                    else:
                        ok += 1
            # normalisation over its own input with another stride (the limbs are taken from the last one up): against the same call with a
            # separate result
            if mk != "ntt120" or True:
                for (size, rs, rsl, asl) in [(sz, r, rl, al) for (sz, r) in ((2, 2), (3, 3), (3, 2), (4, 4)) for (rl, al) in ((2 * n, n), (2 * n + 3, n), (3 * n, n + 1))
                                             if compaction_legal(n, r, rl, sz, al, 0, 0, descending=True)]:
                    k = rng.choice([1, 7, 19, 44, 62])
                    words = max((size - 1) * asl, (rs - 1) * rsl) + n
                    B0, S, R2 = Buf(8 * words, fill=0x4D), Buf(8 * ((size - 1) * asl + n), fill=0x4D), Buf(8 * words, fill=0x4D)
                    for j in range(size):
                        v = vecops.role_data(rec.seed + 13, "a", j, n, 61)
                        B0.i64[j * asl:j * asl + n] = v
                        S.i64[j * asl:j * asl + n] = v
                    tmp = Buf(L.call("vec_znx_normalize_base2k_tmp_bytes", mod), fill=0x5A)
                    label = "vec_znx_normalize_base2k[%s] N=%d k=%d size=%d res_size=%d over its own input, res_sl=%d a_sl=%d" % (mk, n, k, size, rs, rsl, asl)
                    if not rec.progress(label):
                        continue
                    L.call("vec_znx_normalize_base2k", mod, k, B0, rs, rsl, B0, size, asl, tmp)
                    L.call("vec_znx_normalize_base2k", mod, k, R2, rs, rsl, S, size, asl, tmp)
                    rec.case(("expansion", "normalize", mk, size, rs, rsl - n, asl - n))
                    same = all(np.array_equal(B0.i64[i * rsl:i * rsl + n], R2.i64[i * rsl:i * rsl + n]) for i in range(rs))
                    if not (B0.canaries_ok() and R2.canaries_ok() and tmp.canaries_ok()):
                        rec.violation(label + ": write outside a buffer", {})
                    elif not same:
                        rec.violation(label + ": differs from the same call with a separate result", {})
                    else:
                        ok += 1
            L.delete_module(mod)
    rec.data["ok"] = ok


def run(chk, replay=None):
    quick = chk.tier == "quick"
    Lib.get()
    chk.assumptions += ["aliasing means the same pointer and the same stride (the property's domain); of the partial overlaps only the in-place compaction "
                        "res == a with a_sl >= res_sl + N is driven (output limb 0 is its own source, the others overlap nothing still to be read and "
                        "nothing partly, so the out-of-place result is well defined; the reference loops take that case limb by limb)"]
    # 1. model checking with the aliasing dimension
    for mod, cfg, role in (("LimbLoops", ("LimbLoops_quick.cfg" if quick else "LimbLoops_thorough.cfg"), "limb loops (5 aliasing patterns)"),
                           ("Normalize", "Normalize_small.cfg", "normalisation (alias)"),
                           ("RingMaps", "RingMaps_small.cfg", "in-place walks"),
                           ("Pointwise", ("Pointwise_quick.cfg" if quick else "Pointwise_thorough.cfg"), "pointwise kernels (5 aliasing patterns)")):
        r = run_tlc(mod, cfg, workers=16, coverage=True, name="c13-" + mod, timeout=1800)
        tlc_must_pass(r, mod)
        chk.add_tlc(r, "exhaustive: " + role)
    # 2. direction A
    cases = c08.gen_cases(chk, "c13")
    nparts = 8
    res = isolated_many(chk, [("aliased limb-vector calls, part %d" % i, drive_limb, (cases, i, nparts)) for i in range(nparts)],
                        timeout=1500, nproc=8)
    ok = sum(d["ok"] for d in res if d)
    chk.traces += ok
    chk.cov["aliased_limb_cases_replayed_with_twin"] = ok
    r = run_tlc("Normalize", "Normalize_gen.cfg", workers=1, name="c13-normgen", timeout=900)
    tlc_must_pass(r, "Normalize gen")
    ncases = printed_json(r, "CASE")
    d = isolated(chk, "normalisation in place and out of place", c05.drive_a, (ncases,), timeout=600)
    chk.traces += d["replayed"] if d else 0
    r = run_tlc("RingMaps", "RingMaps_gen.cfg", workers=1, name="c13-ringgen")
    tlc_must_pass(r, "RingMaps gen")
    rcases = printed_json(r, "CASE")
    d = isolated(chk, "in-place ring maps", c09.drive_a, (rcases,), timeout=300)
    chk.traces += d["replayed"] if d else 0
    programs = c16.generate(chk, ["Spqlios_alias.cfg"], 40 if quick else 300, 16, "c13")
    res = isolated_many(chk, [("program replay (in-place idft, aliased operations) part %d" % i, c16.drive,
                               (programs, i, 6, [1, 2, 4, 16], [64, 1024, 8192], 9 if quick else 4)) for i in range(6)],
                        timeout=2400, nproc=6)
    chk.traces += sum(d["ok"] for d in res if d)
    chk.cov["programs"] = len(programs)
    inplace_idft = sum(1 for p in programs for s in p["steps"] if s.get("inplace"))
    chk.cov["inplace_idft_calls_in_programs"] = inplace_idft
    # the inverse DFT over its own input, both module types (a DFT limb is 1 or 2 big limbs wide)
    r = run_tlc("IdftOverlay", "IdftOverlay.cfg", workers=4, name="c13-overlay")
    tlc_must_pass(r, "IdftOverlay")
    chk.add_tlc(r, "exhaustive: inverse DFT over its own input, every read sees the caller's bytes (sizes 0..6, limb ratio 1 and 2)")
    r = run_tlc("IdftOverlay", "IdftOverlay_gen.cfg", workers=1, name="c13-overlaygen")
    tlc_must_pass(r, "IdftOverlay gen")
    ocases = [json.loads(t) for t in sorted(set(json.dumps(c, sort_keys=True) for c in printed_json(r, "CASE")))]
    d = isolated(chk, "inverse DFT over its own input, both module types", drive_idft_overlay, (ocases, [4, 64] if quick else [2, 4, 16, 64, 1024]),
                 timeout=1200)
    chk.traces += d["ok"] if d else 0
    chk.cov["idft_overlay_cases"] = len(ocases)
    # which in-buffer layouts are well defined is decided by Overlay.tla: the rule (Legal) is checked against the loop on a buffer of cells for
    # every layout of the box, an illegal layout that ends wrong is the witness, and the legal layouts are replayed (a sample, scaled)
    ro_ = run_tlc("Overlay", "Overlay.cfg", workers=8, name="c13-overlay", timeout=900)
    tlc_must_pass(ro_, "Overlay: legal layouts end with the out-of-place result")
    chk.add_tlc(ro_, "in-buffer layouts: every layout of the box (N0 = 2, sizes <= 3 / 5, strides <= 7, offsets <= 4, both orders)")
    rw_ = run_tlc("Overlay", "Overlay_witness.cfg", workers=4, name="c13-overlay-witness", timeout=900)
    chk.cov["an_illegal_layout_ends_wrong_in_the_model"] = (rw_.violation == "IllegalAlsoFine")
    if rw_.violation != "IllegalAlsoFine":
        chk.notes.append("Overlay_witness.cfg found no illegal layout that ends wrong: the legality rule may be vacuous")
    rg_ = run_tlc("Overlay", "Overlay_gen.cfg", workers=1, name="c13-overlay-gen", timeout=900)
    tlc_must_pass(rg_, "Overlay gen")
    chk.add_tlc(rg_, "behaviour generation")
    ocases = printed_json(rg_, "CASE")
    chk.cov["legal_layouts_generated"] = len(ocases)
    d = isolated(chk, "operations inside one buffer (layouts from Overlay.tla)", drive_compaction, (quick, ocases), timeout=1500)
    chk.traces += d["ok"] if d else 0
    r = run_tlc("Pointwise", "Pointwise_gen.cfg", workers=1, name="c13-pwgen")
    tlc_must_pass(r, "Pointwise gen")
    pcases = printed_json(r, "CASE")
    d = isolated(chk, "pointwise kernels on generated cases", drive_pw_a, (pcases,), timeout=600)
    chk.traces += d["ok"] if d else 0
    chk.sample({"pointwise_case": pcases[3]})
    # 3. direction B
    res = isolated_many(chk, [("pointwise kernels, random data, part %d" % i, drive_pw_b, (i, 150 if quick else 1500))
                              for i in range(4)], timeout=900, nproc=4)
    events = [ev for d in res if d for ev in d["events"]]
    clean = [{k: v for k, v in ev.items() if not k.startswith("_")} for ev in events]
    bad, results = validate_events("PointwiseTrace", "PointwiseTrace.cfg", clean, "c13", nproc=4, timeout=900)
    for rr in results:
        chk.add_tlc(rr, "trace validation")
    chk.traces += len(events) - len(bad)
    chk.cov["events_validated"] = len(events)
    chk.cov["exhaustive"] = True
    chk.cov["box"] = "LimbLoops box (sizes 0..3, 5 alias patterns), Normalize box, RingMaps N<=16 (replay N<=32), Pointwise m<=16 x block widths"
    chk.cov["rule"] = "one case = (family, entry point, module/mask, sizes or m, alias pattern); non-trivial when the call is aliased"
    for b in bad[:20]:
        chk.violation(events[b]["_what"] + ": result differs from the definition evaluated on the pre-state", clean[b])
