"""C01 - FFT64 negacyclic product is exact within the documented precision budget.

 1. TLC -simulate of the API machine restricted to load / dft / svp / small product / idft: programs replayed lifted
    to N = 4..65536 under both dispatch configurations (row structure: rows beyond the input size exactly zero).
 2. direction B: products with operands up to the 2^50 / 2^52 limits at N <= 64, both entry points, both dispatch
    configurations: TLC recomputes the exact product, the norms, the domain predicate and the bound on Wide integers.
 3. scale: N up to 65536 with adversarial families (all-max, alternating, resonant, sparse, mixed) concentrated just
    below E = 1/2 (exactness demanded) and at the budget limit; deviation and norms measured against the exact
    product of the reference model, the decision (InBudget, WithinE) taken by TLC on the summary event.
"""
import math
import random

import numpy as np

from common import run_tlc, printed_json, validate_events, to_words, Infra, isolated_many
from lib import Lib, Buf, FFT64, MASK_NONE, MASK_GENERIC
import progs
from props import c16

LEVEL = "exploration"


def shape(n, kind, rng):
    i = np.arange(n)
    if kind == "allmax":
        return np.ones(n, dtype=np.int64)
    if kind == "alt":
        return np.where(i % 2 == 0, 1, -1).astype(np.int64)
    if kind == "resonant":
        e = rng.randrange(0, n)
        s = np.sign(np.cos(np.pi * (2 * e + 1) * i / n))
        s[s == 0] = 1
        return s.astype(np.int64)
    if kind == "sparse":
        v = np.zeros(n, dtype=np.int64)
        for _ in range(rng.randrange(1, 4)):
            v[rng.randrange(n)] = rng.choice([1, -1])
        return v
    if kind == "single":
        v = np.zeros(n, dtype=np.int64)
        v[rng.randrange(n)] = rng.choice([1, -1])
        return v
    if kind == "mixed":
        return np.array([rng.choice([0, 1, -1, 1, -1]) * rng.choice([1, 1, 2, 3, 7, 100]) for _ in range(n)], dtype=np.int64)
    return np.array([rng.choice([1, -1]) for _ in range(n)], dtype=np.int64)


KINDS = ["allmax", "alt", "resonant", "sparse", "single", "mixed", "random"]


def norms(v):
    x = [abs(int(t)) for t in v]
    return sum(x), max(x) if x else 0, sum(t * t for t in x)


def isqrt_ceil(x):
    r = math.isqrt(x)
    return r if r * r == x else r + 1


def operands(n, rng):
    """(a, b, regime) inside the documented budget."""
    for _ in range(100):
        sa, sb = shape(n, rng.choice(KINDS), rng), shape(n, rng.choice(KINDS), rng)
        a1, ai, a2 = norms(sa)
        b1, bi, b2 = norms(sb)
        if a1 == 0 or b1 == 0:
            continue
        regime = rng.choice(["exact-edge", "budget-edge", "mid"])
        lim_budget = (1 << 52) // max(1, min(a1 * bi, ai * b1)) - 1          # alpha*beta must stay below this
        lim_exact = (1 << 49) // (max(1, int(math.log2(n))) * (a1 * isqrt_ceil(b2) + isqrt_ceil(a2) * b1)) - 1
        prod = {"exact-edge": min(lim_exact, lim_budget), "budget-edge": lim_budget,
                "mid": max(1, min(lim_exact, lim_budget) >> rng.randrange(1, 20))}[regime]
        if prod < 1:
            continue
        amax = ((1 << 50) - 1) // ai
        bmax = ((1 << 50) - 1) // bi
        alpha = min(amax, max(1, int(prod ** rng.uniform(0.2, 0.8))))
        beta = min(bmax, prod // alpha)
        if beta < 1:
            continue
        a, b = sa * alpha, sb * beta
        A1, Ai, _ = norms(a)
        B1, Bi, _ = norms(b)
        if Ai < (1 << 50) and Bi < (1 << 50) and min(A1 * Bi, Ai * B1) < (1 << 52):
            return a, b, regime
    return np.ones(n, dtype=np.int64), np.ones(n, dtype=np.int64), "unit"


def product(L, mod, n, a, b, path, rng):
    A, B = Buf(8 * n, fill=0x11), Buf(8 * n, fill=0x22)
    A.i64[:] = a
    B.i64[:] = b
    fill = rng.choice([0xFF, 0x00, 0x7F])
    R = Buf(8 * n, fill=fill)
    if path == "small":
        T = Buf(L.call("znx_small_single_product_tmp_bytes", mod), fill=fill)
        L.call("znx_small_single_product", mod, R, A, B, T)
        ok = T.canaries_ok()
    else:
        P = Buf(L.call("bytes_of_svp_ppol", mod), fill=fill)
        D = Buf(L.call("bytes_of_vec_znx_dft", mod, 1), fill=fill)
        L.call("svp_prepare", mod, P, B)
        L.call("svp_apply_dft", mod, D, 1, P, A, 1, n)
        if path == "svp":
            T = Buf(L.call("vec_znx_idft_tmp_bytes", mod), fill=fill)
            L.call("vec_znx_idft", mod, R, 1, D, 1, T)
        else:
            L.call("vec_znx_idft_tmp_a", mod, R, 1, D, 1)
        ok = P.canaries_ok() and D.canaries_ok()
    ok = ok and R.canaries_ok() and A.canaries_ok() and B.canaries_ok() and np.array_equal(A.i64, a) and np.array_equal(B.i64, b)
    return R.i64.copy() if ok else None


def wu(x, n):
    return to_words(x, n)


def summary_event(L, n, a, b, res, label, regime):
    import ctypes
    out = (ctypes.c_uint64 * 3)()
    A, B, R = Buf(8 * n), Buf(8 * n), Buf(8 * n)
    A.i64[:] = a
    B.i64[:] = b
    R.i64[:] = res
    L.fn("rm_product_maxdiff", "v upppp", L.rm)(n, A.addr, B.addr, R.addr, ctypes.addressof(out))
    maxd = int(out[0]) | (int(out[1]) << 64)
    A1, Ai, A2 = norms(a)
    B1, Bi, B2 = norms(b)
    return {"e": "Summary", "N": n, "maxd": wu(maxd, 8), "A1": wu(A1, 6), "Ainf": wu(Ai, 4), "A2sq": wu(A2, 8),
            "B1": wu(B1, 6), "Binf": wu(Bi, 4), "B2sq": wu(B2, 8), "_what": label + " maxdev=%d at %d" % (maxd, out[2]),
            "_regime": regime}


def drive_dense(rec, part, ns):
    """The corner of the domain where the norms themselves no longer fit 64 bits: every coefficient of one operand at
    +-2^e (e = 47..49, so that ||a||_1 reaches 2^63 .. 2^65 at N = 32768 / 65536), the other operand sparse and small:
    min(||a||_1 ||b||_inf, ||a||_inf ||b||_1) stays below 2^52, the product is inside the documented budget."""
    rng = random.Random(rec.seed * 977 + part)
    L = Lib.get()
    events = []
    combos = [(n, e, path, side) for n in ns for e in (47, 48, 49) for path in ("small", "svp", "svp_tmp_a") for side in (0, 1)]
    for idx, (n, e, path, side) in enumerate(combos):
        if idx % 4 != part:
            continue
        signs = rng.choice(["plus", "minus", "alt", "random"])
        sa = {"plus": np.ones(n, dtype=np.int64), "minus": -np.ones(n, dtype=np.int64),
              "alt": np.where(np.arange(n) % 2 == 0, 1, -1).astype(np.int64),
              "random": np.array([rng.choice([1, -1]) for _ in range(n)], dtype=np.int64)}[signs]
        dense = sa * (1 << e)
        sparse = np.zeros(n, dtype=np.int64)
        for _ in range(rng.randrange(1, 3)):
            sparse[rng.randrange(n)] += rng.choice([1, -1])
        if not sparse.any():
            sparse[0] = 1
        a, b = (dense, sparse) if side == 0 else (sparse, dense)      # side 0: the dense operand is the one that is applied
        mask = rng.choice([MASK_NONE, MASK_GENERIC])
        label = "product path=%s N=%d mask=%d dense 2^%d (%s signs) as operand %d times sparse" % (path, n, mask, e, signs, side)
        if not rec.progress(label):
            continue
        mod = L.module(n, FFT64, mask)
        L.set_cpu_mask(MASK_NONE)
        res = product(L, mod, n, a, b, path, rng)
        L.call("delete_module_info", mod)
        rec.case((path, mask, n, "dense-pow2", e, side))
        if res is None:
            rec.violation(label + ": operand or buffer contract broken", {"N": n, "path": path})
            continue
        if side == 1:
            events.append(summary_event(L, n, b, a, res, label, "dense-pow2"))      # the exact product is symmetric: sparse operand second
        else:
            events.append(summary_event(L, n, a, b, res, label, "dense-pow2"))
    rec.data["events"] = events


def drive_b(rec, part, ns, count, scale):
    rng = random.Random(rec.seed * 71 + part)
    L = Lib.get()
    mods = {}
    events = []
    for it in range(count):
        n = rng.choice(ns)
        mask = rng.choice([MASK_NONE, MASK_GENERIC])
        if (n, mask) not in mods:
            mods[(n, mask)] = L.module(n, FFT64, mask)
            L.set_cpu_mask(MASK_NONE)
        a, b, regime = operands(n, rng)
        path = rng.choice(["small", "svp", "svp_tmp_a"])
        label = "product path=%s N=%d mask=%d regime=%s" % (path, n, mask, regime)
        if not rec.progress(label):
            continue
        res = product(L, mods[(n, mask)], n, a, b, path, rng)
        rec.case((path, mask, n, regime))
        if res is None:
            rec.violation(label + ": operand or buffer contract broken", {"N": n, "path": path})
            continue
        if not scale:
            events.append({"e": "Prod", "N": n, "a": [wu(int(x), 4) for x in a], "b": [wu(int(x), 4) for x in b],
                           "res": [wu(int(x), 4) for x in res], "_what": label})
        else:
            events.append(summary_event(L, n, a, b, res, label, regime))
    rec.data["events"] = events


def run(chk, replay=None):
    quick = chk.tier == "quick"
    Lib.get()
    chk.assumptions += ["the error term E is measured, not derived: deviations are computed against the exact integer product "
                        "(TLC on Wide for N<=64, the C reference model above) and the bound is evaluated by TLC",
                        "ceil(sqrt()) in place of the 2-norms loosens the accepted set by a relative 1e-9 at most"]
    # 1. programs
    programs = c16.generate(chk, ["Spqlios_prod.cfg", "Spqlios_prod8.cfg"], 40 if quick else 400, 16, "c01")
    nparts = 8
    res = isolated_many(chk, [("product program replay part %d" % i, c16.drive,
                               (programs, i, nparts, [1, 2, 4, 16], [64, 512, 4096, 16384], 7 if quick else 3))
                              for i in range(nparts)], timeout=2400, nproc=8)
    ok = sum(d["ok"] for d in res if d)
    chk.traces += ok
    chk.cov["programs"] = len(programs)
    chk.cov["program_runs_matching"] = ok
    # 2. direction B, direct
    jobs = [("products validated by TLC, part %d" % i, drive_b, (i, [2, 4, 8, 16, 32] + ([64] if not quick else []),
                                                                  12 if quick else 60, False)) for i in range(8)]
    # 3. scale
    big = [64, 256, 1024, 4096, 16384] if quick else [64, 256, 1024, 4096, 8192, 16384, 32768, 65536]
    jobs += [("products at scale, part %d" % i, drive_b, (100 + i, big, 20 if quick else 60, True)) for i in range(8)]
    jobs += [("dense power-of-two operands at the largest dimensions, part %d" % i, drive_dense,
              (i, [32768, 65536] if quick else [1024, 16384, 32768, 65536])) for i in range(4)]
    res = isolated_many(chk, jobs, timeout=3000, nproc=12)
    events = [ev for d in res if d for ev in d["events"]]
    clean = [{k: v for k, v in ev.items() if not k.startswith("_")} for ev in events]
    bad, results = validate_events("ProductTrace", "ProductTrace.cfg", clean, "c01", nproc=12, timeout=3000)
    for rr in results:
        chk.add_tlc(rr, "trace validation")
    direct = sum(1 for ev in events if ev["e"] == "Prod")
    chk.traces += direct - sum(1 for b in bad if events[b]["e"] == "Prod")
    chk.cov["products_validated_directly_by_tlc"] = direct
    chk.cov["scaled_via_refmodel"] = len(events) - direct
    chk.cov["regimes"] = {r: sum(1 for ev in events if ev.get("_regime") == r) for r in ("exact-edge", "budget-edge", "mid", "dense-pow2")}
    chk.cov["rule"] = ("one case = (entry path small/svp/svp_tmp_a, dispatch mask, N, regime) or an API call of a replayed program; "
                       "operands drawn from all-max/alternating/resonant/sparse/single/mixed/random families scaled to the edge of "
                       "exactness (E just below 1/2), to the budget limit, or in between")
    for b in bad[:20]:
        chk.violation(events[b]["_what"] + ": outside the documented budget E+1/2 (or exactness lost where E<1/2)", clean[b])
    if events:
        chk.sample({"event": {k: (v if not isinstance(v, list) or len(v) < 12 else v[:4] + ["..."]) for k, v in clean[0].items()},
                    "what": events[0]["_what"]})
    if clean:
        big_ev = [e for e in events if e["e"] == "Summary"]
        if big_ev:
            chk.sample({"summary": big_ev[-1]["_what"]})
