"""C18 - read-only operands are never modified.

 1. TLC: frame conditions checked at every step of the code-shaped machines (LimbLoops.Frame, Normalize.SourceKept,
    Pointwise.SourcesKept) and on every action of the simulated API machine (Spqlios.SourcesUnchanged).
 2. direction A: TLC-generated programs, limb-loop cases (including a = b aliasing), VMP shapes and pointwise cases
    replayed with byte snapshots of every object (stride padding included) and of the module / table heap blocks
    before and after each call.
 3. direction B: the per-call change report (object, role, changed) of the program replays is validated by TLC against
    the write sets of Extents.tla: only the output (and the documented scratch source of vec_znx_idft_tmp_a) may change.
"""
import random

from common import run_tlc, tlc_must_pass, printed_json, validate_events, Infra, isolated, isolated_many
from lib import Lib, MASK_NONE, MASK_GENERIC
import progs
import vecops
from props import c02, c08, c13, c16

LEVEL = "model_checking"


def drive_programs(rec, programs, part, nparts):
    rng = random.Random(rec.seed * 211 + part)
    L = Lib.get()
    events = []
    ok = 0
    for idx, prog in enumerate(programs):
        if idx % nparts != part:
            continue
        t = rng.choice([1, 2, 4, 16, 64] + ([1024] if idx % 11 == 0 else []))
        mask = rng.choice([MASK_NONE, MASK_GENERIC]) if prog["mod"] == "FFT64" else MASK_NONE
        evs = []
        bad, nsteps = progs.run_program(L, prog, t, mask, rng, fill=rng.choice([0x5C, 0xFF, 0x00]),
                                        off=rng.choice([0, 8, 16, 24]), progress=rec.progress, events=evs)
        for st in prog["steps"][:nsteps]:
            rec.case((st["op"], prog["mod"], mask, st["res"] == st.get("a"), st["res"] == st.get("b"), st.get("a") == st.get("b")))
        for e in evs:
            e["_what"] = "%s on %s N=%d mask=%d" % (e["op"], prog["mod"], prog["N0"] * t, mask)
        events += evs
        if bad:
            i, why = bad
            rec.violation("program step %d (%s) at N=%d, mask=%d: %s" % (i, progs.describe(prog["steps"][i]), prog["N0"] * t, mask, why),
                          {"program": prog, "t": t, "mask": mask, "step": i, "what": why})
        else:
            ok += 1
    rec.data["events"] = events
    rec.data["ok"] = ok


def drive_overlap(rec, quick):
    """res and a are the same pointer with different strides (partly overlapping limb vectors): whatever the call writes,
    a source limb that lies outside every output limb, and every cell that is neither, must keep its bytes"""
    import numpy as np
    from lib import Buf, FFT64, NTT120
    import vecops
    rng = random.Random(rec.seed * 17 + 3)
    L = Lib.get()
    events = []
    for n in ([4, 16, 64] if quick else [2, 4, 8, 16, 64, 256, 1024]):
        for mk, mt, mask in (("fft64", FFT64, MASK_NONE), ("fft64-generic", FFT64, MASK_GENERIC), ("ntt120", NTT120, MASK_NONE)):
            mod = L.module(n, mt, mask)
            L.set_cpu_mask(MASK_NONE)
            for op in ("rotate", "automorphism", "copy", "negate"):
                for size in (2, 3):
                    for rsl, asl in ((n, 2 * n), (n + 1, 2 * n + 2), (2 * n, n), (n, n + 3), (n + 3, n)):
                        words = (size - 1) * max(rsl, asl) + n
                        B = Buf(8 * words, fill=0x4D)
                        for j in range(size):
                            B.i64[j * asl:j * asl + n] = vecops.role_data(rec.seed + 5, "a", j, n, 50)
                        before = B.i64.copy()
                        p = rng.choice([1, 3, n + 1, 2 * n - 1, 5])
                        if not rec.progress("%s[%s] N=%d size=%d res==a res_sl=%d a_sl=%d" % (op, mk, n, size, rsl, asl)):
                            continue
                        vecops.call_op(L, mod, op, p, B, size, rsl, B, size, asl, B, 0, n)
                        rec.case((op, mk, size, rsl < asl, rsl - n, asl - n))
                        if not B.canaries_ok():
                            rec.violation("%s[%s] N=%d size=%d res==a res_sl=%d a_sl=%d: write outside the vector" % (op, mk, n, size, rsl, asl), {})
                            continue
                        out = np.zeros(words, dtype=bool)
                        for i in range(size):
                            out[i * rsl:i * rsl + n] = True
                        src = np.zeros(words, dtype=bool)
                        changed = B.i64 != before
                        objs = []
                        for j in range(size):
                            src[j * asl:j * asl + n] = True
                            role = "res" if out[j * asl:j * asl + n].any() else "src"
                            # a limb that an output limb overlaps only partly: the part outside the output is judged with the other cells
                            objs.append(["a limb %d" % j, role, bool(changed[j * asl:j * asl + n][~out[j * asl:j * asl + n]].any()) if role == "src"
                                         else bool(changed[j * asl:j * asl + n].any())])
                        objs.append(["cells in no output limb", "other", bool(changed[~out].any())])
                        events.append({"e": "Step", "op": "vec_znx_" + op, "objs": objs,
                                       "_what": "%s[%s] N=%d size=%d res==a res_sl=%d a_sl=%d p=%d" % (op, mk, n, size, rsl, asl, p)})
            L.delete_module(mod)
    rec.data["events"] = events
    rec.data["ok"] = len(events)


def drive_adjacent(rec, quick):
    """operands carved back to back from ONE allocation (no gap between the output and a source, in both orders): no byte is shared, so
    every source must keep its bytes and the output must be what separate allocations give"""
    import numpy as np
    from lib import Buf, FFT64, NTT120
    rng = random.Random(rec.seed * 19 + 11)
    L = Lib.get()
    events = []

    def small(n, bits):
        return np.array([rng.randrange(-(1 << bits), 1 << bits) for _ in range(n)], dtype=np.int64).view(np.uint8)

    for n in ([8, 64] if quick else [2, 4, 8, 16, 64, 256]):
        for mk, mt, mask in (("fft64", FFT64, MASK_NONE), ("fft64-generic", FFT64, MASK_GENERIC), ("ntt120", NTT120, MASK_NONE)):
            mod = L.module(n, mt, mask)
            L.set_cpu_mask(MASK_NONE)
            dftb, bigb = (8 * n, 8 * n) if mt == FFT64 else (32 * n, 16 * n)
            # one prepared DFT vector (2 limbs) as source material
            A0 = Buf(8 * 2 * n)
            A0.u8[:] = small(2 * n, 20)
            D0 = Buf(dftb * 2)
            L.call("vec_znx_dft", mod, D0, 2, A0, 2, n)
            ops = []      # (label, [(name, role, initial bytes)], call(addresses, tmp))
            ops.append(("vec_znx_dft", [("res", "res", np.full(dftb * 2, 0x3B, dtype=np.uint8)), ("a", "src", A0.u8.copy())],
                        lambda ad, t: L.call("vec_znx_dft", mod, ad["res"], 2, ad["a"], 2, n), 0))
            ops.append(("vec_znx_idft", [("res", "res", np.full(bigb * 2, 0x3B, dtype=np.uint8)), ("a", "src", D0.u8.copy())],
                        lambda ad, t: L.call("vec_znx_idft", mod, ad["res"], 2, ad["a"], 2, t), L.call("vec_znx_idft_tmp_bytes", mod)))
            for op in ("add", "sub", "rotate", "automorphism", "copy", "negate"):
                ops.append(("vec_znx_" + op, [("res", "res", np.full(8 * 2 * n, 0x3B, dtype=np.uint8)), ("a", "src", small(2 * n, 40)), ("b", "src", small(2 * n, 40))],
                            (lambda op_: lambda ad, t: vecops.call_op(L, mod, op_, 5, ad["res"], 2, n, ad["a"], 2, n, ad["b"], 2, n))(op), 0))
            ops.append(("vec_znx_normalize_base2k", [("res", "res", np.full(8 * 2 * n, 0x3B, dtype=np.uint8)), ("a", "src", small(3 * n, 50))],
                        lambda ad, t: L.call("vec_znx_normalize_base2k", mod, 12, ad["res"], 2, n, ad["a"], 3, n, t), L.call("vec_znx_normalize_base2k_tmp_bytes", mod)))
            if mt == FFT64:
                P0 = Buf(L.call("bytes_of_svp_ppol", mod))
                pol = Buf(8 * n)
                pol.u8[:] = small(n, 10)
                L.call("svp_prepare", mod, P0, pol)
                ops.append(("svp_apply_dft", [("res", "res", np.full(dftb * 2, 0x3B, dtype=np.uint8)), ("ppol", "src", P0.u8.copy()), ("a", "src", small(2 * n, 10))],
                            lambda ad, t: L.call("svp_apply_dft", mod, ad["res"], 2, ad["ppol"], ad["a"], 2, n), 0))
                ops.append(("znx_small_single_product", [("res", "res", np.full(8 * n, 0x3B, dtype=np.uint8)), ("a", "src", small(n, 12)), ("b", "src", small(n, 12))],
                            lambda ad, t: L.call("znx_small_single_product", mod, ad["res"], ad["a"], ad["b"], t), L.call("znx_small_single_product_tmp_bytes", mod)))
                for op in ("big_add", "big_sub"):
                    ops.append(("vec_znx_" + op, [("res", "res", np.full(8 * 2 * n, 0x3B, dtype=np.uint8)), ("a", "src", small(2 * n, 40)), ("b", "src", small(2 * n, 40))],
                                (lambda op_: lambda ad, t: vecops.call_op(L, mod, op_, 5, ad["res"], 2, n, ad["a"], 2, n, ad["b"], 2, n))(op), 0))
                ops.append(("vec_znx_big_normalize_base2k", [("res", "res", np.full(8 * 2 * n, 0x3B, dtype=np.uint8)), ("a", "src", small(3 * n, 50))],
                            lambda ad, t: L.call("vec_znx_big_normalize_base2k", mod, 12, ad["res"], 2, n, ad["a"], 3, t), L.call("vec_znx_big_normalize_base2k_tmp_bytes", mod)))
                M0 = Buf(L.call("bytes_of_vmp_pmat", mod, 2, 2))
                mat = Buf(8 * n * 4)
                mat.u8[:] = small(4 * n, 8)
                tp = Buf(L.call("vmp_prepare_contiguous_tmp_bytes", mod, 2, 2))
                L.call("vmp_prepare_contiguous", mod, M0, mat, 2, 2, tp)
                ops.append(("vmp_apply_dft_to_dft", [("res", "res", np.full(dftb * 2, 0x3B, dtype=np.uint8)), ("a", "src", D0.u8.copy()), ("pmat", "src", M0.u8.copy())],
                            lambda ad, t: L.call("vmp_apply_dft_to_dft", mod, ad["res"], 2, ad["a"], 2, ad["pmat"], 2, 2, t),
                            L.call("vmp_apply_dft_to_dft_tmp_bytes", mod, 2, 2, 2, 2)))
            for label, operands, fn, tmpb in ops:
                # reference: separate allocations
                sep = {nm: Buf(len(b)) for nm, _, b in operands}
                for nm, _, b in operands:
                    sep[nm].u8[:] = b
                T = Buf(tmpb, fill=0xEE)
                if not rec.progress("%s[%s] N=%d separate allocations" % (label, mk, n)):
                    continue
                fn({nm: sep[nm].addr for nm in sep}, T.addr)
                ref = sep["res"].u8.copy()
                for order in (operands, operands[::-1]):
                    total = sum(len(b) for _, _, b in order)
                    B = Buf(total, fill=0)
                    ad, pos = {}, 0
                    for nm, _, b in order:
                        ad[nm] = (pos, len(b))
                        B.u8[pos:pos + len(b)] = b
                        pos += len(b)
                    T = Buf(tmpb, fill=0xEE)
                    what = "%s[%s] N=%d operands back to back in the order %s" % (label, mk, n, [nm for nm, _, _ in order])
                    if not rec.progress(what):
                        continue
                    fn({nm: B.addr + ad[nm][0] for nm in ad}, T.addr)
                    rec.case(("adjacent", label, mk, order is operands))
                    if not (B.canaries_ok() and T.canaries_ok()):
                        rec.violation(what + ": write outside the allocation", {})
                        continue
                    objs = []
                    for nm, role, b in order:
                        o, ln = ad[nm]
                        now = B.u8[o:o + ln]
                        objs.append([nm, role, bool(not np.array_equal(now, b)) if role == "src" else bool(not np.array_equal(now, ref))])
                    # for the output, "changed" means: differs from what separate allocations produce (reported under the role "other")
                    objs = [[nm, (role if role == "src" else "other"), ch] for nm, role, ch in objs]
                    events.append({"e": "Step", "op": label, "objs": objs, "_what": what})
            L.delete_module(mod)
    rec.data["events"] = events
    rec.data["ok"] = len(events)


def run(chk, replay=None):
    quick = chk.tier == "quick"
    Lib.get()
    chk.assumptions += ["module and table memory = the heap blocks reachable from the MODULE structure (enumerated through the "
                        "private headers), compared over their usable size",
                        "a temporary modification of a caller's operand that is restored before return is seen by the page-protection observer "
                        "(operands write-protected during the call); module and table memory cannot be write-protected (the library "
                        "allocates it): for it such a modification is visible only to the concurrent runs of C12"]
    for mod, cfg, role in (("LimbLoops", ("LimbLoops_quick.cfg" if quick else "LimbLoops_thorough.cfg"), "Frame at every step"),
                           ("Normalize", "Normalize_small.cfg", "SourceKept at every step"),
                           ("Pointwise", ("Pointwise_quick.cfg" if quick else "Pointwise_thorough.cfg"), "SourcesKept at every step")):
        r = run_tlc(mod, cfg, workers=16, coverage=True, name="c18-" + mod, timeout=1800)
        tlc_must_pass(r, mod)
        chk.add_tlc(r, "exhaustive: " + role)
    programs = c16.generate(chk, ["Spqlios_sim.cfg", "Spqlios_sim8.cfg", "Spqlios_sim_ntt.cfg"], 40 if quick else 400, 16, "c18")
    nparts = 8
    res = isolated_many(chk, [("program replay with snapshots, part %d" % i, drive_programs, (programs, i, nparts))
                              for i in range(nparts)], timeout=2400, nproc=8)
    events = [ev for d in res if d for ev in d["events"]]
    chk.traces += sum(d["ok"] for d in res if d)
    chk.cov["programs"] = len(programs)
    # limb loops (subset; C08 runs them all), VMP shapes (subset), pointwise
    cases = c08.gen_cases(chk, "c18")
    sub = [c for i, c in enumerate(cases) if c["alias"] == "ab" or i % 5 == chk.seed % 5]
    res = isolated_many(chk, [("limb-loop cases with full memory image, part %d" % i, c08.drive_a, (sub, i, 6, True, "limb"))
                              for i in range(6)], timeout=1500, nproc=6)
    chk.traces += sum(d["ok"] for d in res if d)
    r = run_tlc("Vmp", "Vmp_gen.cfg", workers=1, name="c18-vmpgen")
    tlc_must_pass(r, "Vmp gen")
    vcases = printed_json(r, "CASE")
    res = isolated_many(chk, [("VMP shapes with operand snapshots, part %d" % i, c02.drive_a, (vcases[i::3], 0, 1, [1, 4, 8], [128]))
                              for i in range(3)], timeout=1500, nproc=3)
    chk.traces += sum(d["ok"] for d in res if d)
    r = run_tlc("Pointwise", "Pointwise_gen.cfg", workers=1, name="c18-pwgen")
    tlc_must_pass(r, "Pointwise gen")
    d = isolated(chk, "pointwise kernels with operand snapshots", c13.drive_pw_a, (printed_json(r, "CASE"),), timeout=600)
    chk.traces += d["ok"] if d else 0
    d = isolated(chk, "res == a with different strides (overlapping limb vectors)", drive_overlap, (quick,), timeout=900)
    if d:
        events += d["events"]
    # the q120 kernels (products, layout conversions, additions, lifts): sources compared with snapshots inside the drivers of C10
    from props import c10
    for label, fn, args in (("q120 conversions, additions and lifts with source snapshots", c10.drive_conversions, (30 if quick else 300,)),
                            ("q120 products with source and table snapshots", c10.drive_products, (0, [0, 1, 5, 64, 4097, 8193, 10000], 1))):
        dq = isolated(chk, label, fn, args, timeout=900)
        chk.traces += 1 if dq else 0
    d = isolated(chk, "operands back to back in one allocation", drive_adjacent, (quick,), timeout=900)
    if d:
        events += d["events"]
    # page-protection observer: the same replays in a process where every operand ends at an inaccessible page and every operand a
    # call only reads is write-protected during the call (a source that is modified and restored before return faults too)
    import json
    import os
    import subprocess
    from common import workdir, VERIF
    try:
        wd = workdir("c18-pages")
        cf = os.path.join(wd, "cases.json")
        r5 = run_tlc("Normalize", "Normalize_gen.cfg", workers=1, name="c18-normgen", timeout=900)
        tlc_must_pass(r5, "Normalize gen")
        json.dump({"limb": sub, "norm": printed_json(r5, "CASE"), "vmp": vcases, "programs": programs[:(40 if quick else 400)],
                   "pointwise": printed_json(r, "CASE")}, open(cf, "w"))
        p = subprocess.run(["python3-vt", os.path.join(VERIF, "tools", "pages_phase.py"), chk.tier, cf], capture_output=True, text=True,
                           env=dict(os.environ, VERIF_PAGES="1"), timeout=3000, cwd=VERIF)
        last = p.stdout.strip().splitlines()[-1] if p.stdout.strip() else ""
        try:
            out = json.loads(last)
        except ValueError:
            raise Infra("the page-protection phase did not report: rc=%s\n%s" % (p.returncode, (p.stdout + p.stderr)[-3000:]))
        chk.cov["page_protection_observer"] = {"ran": True, "evaluations": out["evaluations"], "distinct": out["distinct"]}
        chk.evals += out["evaluations"]
        for desc, payload in out["violations"][:10]:
            chk.violation("with read-only sources and operands ending at an inaccessible page: " + desc, payload)
    except subprocess.TimeoutExpired:
        chk.notes.append("page-protection observer timed out (not a verdict)")
        chk.cov["page_protection_observer"] = {"ran": False, "why": "timeout"}
    # direction B
    clean = [{k: v for k, v in ev.items() if not k.startswith("_")} for ev in events]
    bad, results = validate_events("FrameTrace", "FrameTrace.cfg", clean, "c18", nproc=8, timeout=900)
    for rr in results:
        chk.add_tlc(rr, "trace validation")
    chk.traces += len(events) - len(bad)
    chk.cov["call_reports_validated"] = len(events)
    chk.cov["exhaustive"] = True
    chk.cov["box"] = "LimbLoops / Normalize / Pointwise boxes (every step), simulated API programs (both module types)"
    chk.cov["rule"] = "one case = (entry point, module type, dispatch mask, res==a, res==b, a==b) or a replayed model case"
    for b in bad[:20]:
        chk.violation(events[b]["_what"] + ": an object outside the write set of the call was modified", clean[b])
    if events:
        chk.sample({"call_report": clean[len(clean) // 2]})
