"""C14 - numeric layout conversions are exact or correctly rounded on their whole domain.

The contracts are written in ConvTrace.tla on exact dyadic rationals (Dyadic.tla over Wide integers): no float
arithmetic in the specification. Every conversion x {reference, AVX variants called directly, dispatch under both
CPU masks, *_simple} x every m including below the vector thresholds x divisors 2^j x log2overhead 0..48 x bounds is
driven with magnitudes at and next to the domain boundaries, halves +- one ulp, exact ties, INT32_MIN/MAX and random
values; inputs and outputs are logged as IEEE / two's-complement words and judged element by element by TLC."""
import math
import random
import struct

import numpy as np

from common import run_tlc, validate_events, to_words, Infra, isolated_many
from lib import Lib, Buf, MASK_NONE, MASK_GENERIC
import kernels

LEVEL = "exploration"


def dbits(x):
    return to_words(struct.unpack("<q", struct.pack("<d", float(x)))[0], 4)


def nexta(x, direction):
    return math.nextafter(x, direction)


def y_values(kind, lim_log2, rng, count):
    """doubles y = x/d inside |y| < 2^lim (or <= for to_tnx), boundary directed"""
    lim = 2.0 ** lim_log2
    ys = [0.0, 1.0, -1.0, 0.25, -0.75, 0.5, -0.5, 1.5, 2.5, -3.5, nexta(0.5, 1), nexta(0.5, 0), -nexta(0.5, 0), -nexta(0.5, 1),
          nexta(1.5, 2), nexta(1.5, 1), 1e-300, -1e-300, 2.0 ** -40, 0.4999, 0.5001]
    edge = lim if kind == "to_tnx" else nexta(lim, 0)
    ys += [edge, -edge, lim / 2, -lim / 2, nexta(lim / 2, 0), lim - 1 if lim > 2 else 0.0, -(lim - 1) if lim > 2 else 0.0,
           math.floor(edge) - 0.5 if lim_log2 <= 50 and lim > 2 else 0.5, -(math.floor(edge) - 0.5) if lim_log2 <= 50 and lim > 2 else -0.5]
    while len(ys) < count:
        mag = rng.choice([lim, lim / 4, 2.0 ** rng.randrange(0, max(1, int(lim_log2))), 8.0, 1.0])
        v = (rng.random() * 2 - 1) * mag
        if rng.random() < 0.3:
            v = math.floor(v) + rng.choice([0.5, 0.25, nexta(0.5, 0), nexta(0.5, 1)])
        ys.append(v)
    if kind == "to_tnx":
        return [y for y in ys if abs(y) <= lim][:count]
    return [y for y in ys if abs(y) < lim][:count]


def fill(vals, n, rng):
    out = list(vals)
    while len(out) < n:
        out.append(rng.choice(vals))
    rng.shuffle(out)
    return out[:n]


def drive(rec, part, ms, quick):
    rng = random.Random(rec.seed * 37 + part)
    L = Lib.get()
    tables = kernels.Tables(L)
    events = []

    def emit(conv, variant, m, x_words, r_words, extra, mask):
        ev = {"e": "Conv", "conv": conv, "m": m, "x": x_words, "r": r_words, "_what": "%s via %s m=%d %s mask=%d" % (conv, variant, m, extra, mask)}
        ev.update(extra)
        events.append(ev)

    for m in ms:
        n = 2 * m
        # ---------------- from_znx64 (|x| < 2^50)
        vals = [0, 1, -1, (1 << 50) - 1, -(1 << 50) + 1, (1 << 50) - 2, 1 << 49, -(1 << 49), (1 << 32) + 1] + \
               [rng.randrange(-(1 << 50) + 1, 1 << 50) for _ in range(n)]
        xs = fill(vals, n, rng)
        variants = [("reim_from_znx64_ref", "direct", MASK_NONE)] + ([("reim_from_znx64_bnd50_fma", "direct", MASK_NONE)] if n % 4 == 0 else []) + \
                   [("reim_from_znx64", "dispatch", MASK_NONE), ("reim_from_znx64", "dispatch", MASK_GENERIC), ("reim_from_znx64_simple", "simple", MASK_NONE)]
        for (fn, how, mask) in variants:
            X, R = Buf(8 * n, off=rng.choice([0, 8, 24])), Buf(8 * n, fill=0xEE, off=rng.choice([0, 8, 24]))
            X.i64[:] = xs
            X.readonly(True)      # (page-protection observer: the input is read-only during the call)
            if not rec.progress("%s m=%d mask=%d" % (fn, m, mask)):
                continue
            if how == "simple":
                L.fn(fn, "v wwpp")(m, 50, R.addr, X.addr)
            else:
                t = tables.get("new_reim_from_znx64_precomp", m, mask, ("w", 50))
                L.fn(fn, "v ppp")(t, R.addr, X.addr)
            rec.case(("from_znx64", fn, m, mask))
            if not (X.canaries_ok() and R.canaries_ok()):
                rec.violation("%s m=%d wrote outside its output" % (fn, m), {})
                continue
            emit("from_znx64", fn, m, [to_words(int(v), 4) for v in xs], [to_words(int(v), 4) for v in R.i64], {}, mask)
        # ---------------- from_znx64 with every declared bound 0..50 (the table may pick a kernel by the bound): |x| < 2^bound
        if m in (4, 16, 64):
            for b in range(0, 51):
                top = (1 << b) - 1
                vals = [0, top, -top, top - 1 if top else 0, (1 << b) >> 1, -((1 << b) >> 1), ((1 << b) >> 1) + 1 if b > 1 else 0] + \
                       [rng.randrange(-top, top + 1) for _ in range(n)]
                xs = fill(vals, n, rng)
                for (fn, how, mask) in [("reim_from_znx64", "dispatch", MASK_NONE), ("reim_from_znx64", "dispatch", MASK_GENERIC),
                                        ("reim_from_znx64_simple", "simple", MASK_NONE)]:
                    if how == "simple" and b % 5 != part % 5:
                        continue
                    X, R = Buf(8 * n, off=rng.choice([0, 8, 24])), Buf(8 * n, fill=0xEE, off=rng.choice([0, 8, 24]))
                    X.i64[:] = xs
                    X.readonly(True)      # (page-protection observer: the input is read-only during the call)
                    if not rec.progress("%s m=%d mask=%d log2bound=%d" % (fn, m, mask, b)):
                        continue
                    if how == "simple":
                        L.fn(fn, "v wwpp")(m, b, R.addr, X.addr)
                    else:
                        t = tables.get("new_reim_from_znx64_precomp", m, mask, ("w", b))
                        L.fn(fn, "v ppp")(t, R.addr, X.addr)
                    rec.case(("from_znx64", fn, m, mask, "bound", b))
                    if not (X.canaries_ok() and R.canaries_ok()):
                        rec.violation("%s m=%d log2bound=%d wrote outside its output" % (fn, m, b), {})
                        continue
                    emit("from_znx64", fn, m, [to_words(int(v), 4) for v in xs], [to_words(int(v), 4) for v in R.i64], {"log2bound": b}, mask)
        # ---------------- to_znx64
        # bounds on both sides of the kernel threshold (50) and next to it; consecutive cases share m and often the divisor, so that the
        # thread-local table of the _simple form is re-keyed on the bound alone and on the divisor alone
        for (bound, dl) in [(40, 0), (50, 3), (51, 3), (52, 3), (53, -2), (55, -2), (63, 7), (63, 0), (50, 0)] if not quick else \
                [(50, 3), (51, 3), (52, rng.choice([0, 3, -2])), (63, rng.choice([0, 7])), (63, 3)]:
            lim = min(bound, 52)
            ys = fill(y_values("to_znx64", lim, rng, max(n, 40)), n, rng)
            d = 2.0 ** dl
            xs = [y * d for y in ys]
            variants = [("reim_to_znx64_ref", "direct", MASK_NONE), ("reim_to_znx64", "dispatch", MASK_NONE), ("reim_to_znx64", "dispatch", MASK_GENERIC),
                        ("reim_to_znx64_simple", "simple", MASK_NONE)]
            if n % 4 == 0:
                variants.append(("reim_to_znx64_avx2_bnd63_fma", "direct", MASK_NONE))
                if bound <= 50:
                    variants.append(("reim_to_znx64_avx2_bnd50_fma", "direct", MASK_NONE))
            for (fn, how, mask) in variants:
                X, R = Buf(8 * n, off=rng.choice([0, 8, 24])), Buf(8 * n, fill=0xEE)
                X.f64[:] = xs
                X.readonly(True)      # (page-protection observer: the input is read-only during the call)
                if not rec.progress("%s m=%d dl=%d bound=%d mask=%d" % (fn, m, dl, bound, mask)):
                    continue
                if how == "simple":
                    L.fn(fn, "v wdwpp")(m, d, bound, R.addr, X.addr)
                else:
                    t = tables.get("new_reim_to_znx64_precomp", m, mask, ("d", d), ("w", bound))
                    L.fn(fn, "v ppp")(t, R.addr, X.addr)
                rec.case(("to_znx64", fn, m, mask, bound, dl))
                if not (X.canaries_ok() and R.canaries_ok()):
                    rec.violation("%s m=%d wrote outside its output" % (fn, m), {})
                    continue
                emit("to_znx64", fn, m, [dbits(v) for v in xs], [to_words(int(v), 4) for v in R.i64], {"dl": dl, "bound": bound}, mask)
        # ---------------- to_znx64 and to_tnx32 under every declared bound / overhead (the table picks its kernel from it), m below and
        # above the vector threshold, both dispatch configurations
        if m in (4, 16):
            for bound in range(0, 65):
                lim = min(bound, 52)
                dl = rng.choice([0, 3, -2, -900, -150, 150, 900])
                ys = fill(y_values("to_znx64", lim, rng, max(n, 40)), n, rng)
                xs = [y * 2.0 ** dl for y in ys]
                for mask in (MASK_NONE, MASK_GENERIC):
                    X, R = Buf(8 * n, off=rng.choice([0, 8, 24])), Buf(8 * n, fill=0xEE)
                    X.f64[:] = xs
                    X.readonly(True)      # (page-protection observer: the input is read-only during the call)
                    if not rec.progress("reim_to_znx64 m=%d dl=%d bound=%d mask=%d (sweep)" % (m, dl, bound, mask)):
                        continue
                    t = tables.get("new_reim_to_znx64_precomp", m, mask, ("d", 2.0 ** dl), ("w", bound))
                    L.fn("reim_to_znx64", "v ppp")(t, R.addr, X.addr)
                    rec.case(("to_znx64", "sweep", m, mask, bound))
                    if not (X.canaries_ok() and R.canaries_ok()):
                        rec.violation("reim_to_znx64 m=%d bound=%d wrote outside its output" % (m, bound), {})
                        continue
                    emit("to_znx64", "reim_to_znx64", m, [dbits(v) for v in xs], [to_words(int(v), 4) for v in R.i64], {"dl": dl, "bound": bound}, mask)
            for ovh in range(0, 53):
                dl = rng.choice([0, 20, -3, 5, -1000, -200, -97, -96, -95, 181, 182, 183, 300, 1000])       # every divisor 2^j is in the domain
                ys = fill(y_values("to_tnx32", min(18, max(ovh, 1)), rng, max(n, 40)), n, rng)
                xs = [y * 2.0 ** dl for y in ys]
                for mask in (MASK_NONE, MASK_GENERIC):
                    X, R = Buf(8 * n, off=rng.choice([0, 8, 24])), Buf(4 * n, fill=0xEE)
                    X.f64[:] = xs
                    X.readonly(True)      # (page-protection observer: the input is read-only during the call)
                    if not rec.progress("cplx_to_tnx32 m=%d dl=%d ovh=%d mask=%d (sweep)" % (m, dl, ovh, mask)):
                        continue
                    t = tables.get("new_cplx_to_tnx32_precomp", m, mask, ("d", 2.0 ** dl), ("w", ovh))
                    L.fn("cplx_to_tnx32", "v ppp")(t, R.addr, X.addr)
                    rec.case(("to_tnx32", "sweep", m, mask, ovh))
                    if not (X.canaries_ok() and R.canaries_ok()):
                        rec.violation("cplx_to_tnx32 m=%d ovh=%d wrote outside its output" % (m, ovh), {})
                        continue
                    order = [(i // 2) + (m if i % 2 else 0) for i in range(n)]
                    rv = R.view(np.int32)
                    emit("to_tnx32", "cplx_to_tnx32", m, [dbits(xs[i]) for i in range(n)], [to_words(int(rv[order[i]]), 2) for i in range(n)], {"dl": dl}, mask)
        # ---------------- int32 -> complex
        for conv, base in (("from_znx32", "cplx_from_znx32"), ("from_tnx32", "cplx_from_tnx32")):
            vals = [0, 1, -1, (1 << 31) - 1, -(1 << 31), 1 << 30, -(1 << 30) - 1] + [rng.randrange(-(1 << 31), 1 << 31) for _ in range(n)]
            xs = fill(vals, n, rng)
            variants = [(base + "_ref", "direct", MASK_NONE), (base, "dispatch", MASK_NONE), (base, "dispatch", MASK_GENERIC), (base + "_simple", "simple", MASK_NONE)] + \
                       ([(base + "_avx2_fma", "direct", MASK_NONE)] if m % 8 == 0 else [])
            for (fn, how, mask) in variants:
                X, R = Buf(4 * n), Buf(8 * n, fill=0xEE, off=rng.choice([0, 8, 24]))
                X.view(np.int32)[:] = xs
                X.readonly(True)      # (page-protection observer: the input is read-only during the call)
                if not rec.progress("%s m=%d mask=%d" % (fn, m, mask)):
                    continue
                if how == "simple":
                    L.fn(fn, "v wpp")(m, R.addr, X.addr)
                else:
                    t = tables.get("new_%s_precomp" % base, m, mask)
                    L.fn(fn, "v ppp")(t, R.addr, X.addr)
                rec.case((conv, fn, m, mask))
                if not (X.canaries_ok() and R.canaries_ok()):
                    rec.violation("%s m=%d wrote outside its output" % (fn, m), {})
                    continue
                # input layout: m real parts then m imaginary parts; output interleaved
                order = [(i // 2) + (m if i % 2 else 0) for i in range(n)]
                emit(conv, fn, m, [to_words(int(xs[order[i]]), 2) for i in range(n)], [to_words(int(v), 4) for v in R.i64], {}, mask)
        # ---------------- complex -> torus32  (|x/d| < 2^18)
        for (dl, ovh) in ([(0, 18), (20, 18), (20, 10), (-3, 10), (-3, 30)] if not quick else [(rng.choice([0, 20]), 18), (-3, 18), (-3, rng.choice([0, 10])), (5, 30)]):
            ys = fill(y_values("to_tnx32", min(18, max(ovh, 1)) if ovh <= 18 else 18, rng, max(n, 40)), n, rng)
            d = 2.0 ** dl
            xs = [y * d for y in ys]
            variants = [("cplx_to_tnx32_ref", "direct", MASK_NONE), ("cplx_to_tnx32", "dispatch", MASK_NONE), ("cplx_to_tnx32", "dispatch", MASK_GENERIC),
                        ("cplx_to_tnx32_simple", "simple", MASK_NONE)] + ([("cplx_to_tnx32_avx2_fma", "direct", MASK_NONE)] if m % 8 == 0 and ovh <= 18 else [])
            for (fn, how, mask) in variants:
                X, R = Buf(8 * n, off=rng.choice([0, 8, 24])), Buf(4 * n, fill=0xEE)
                X.f64[:] = xs
                X.readonly(True)      # (page-protection observer: the input is read-only during the call)
                if not rec.progress("%s m=%d dl=%d ovh=%d mask=%d" % (fn, m, dl, ovh, mask)):
                    continue
                if how == "simple":
                    L.fn(fn, "v wdwpp")(m, d, ovh, R.addr, X.addr)
                else:
                    t = tables.get("new_cplx_to_tnx32_precomp", m, mask, ("d", d), ("w", ovh))
                    L.fn(fn, "v ppp")(t, R.addr, X.addr)
                rec.case(("to_tnx32", fn, m, mask, dl, ovh))
                if not (X.canaries_ok() and R.canaries_ok()):
                    rec.violation("%s m=%d wrote outside its output" % (fn, m), {})
                    continue
                order = [(i // 2) + (m if i % 2 else 0) for i in range(n)]     # output: m real parts then m imaginary parts
                rv = R.view(np.int32)
                emit("to_tnx32", fn, m, [dbits(xs[i]) for i in range(n)], [to_words(int(rv[order[i]]), 2) for i in range(n)], {"dl": dl}, mask)
        # ---------------- double -> torus double, every log2overhead
        ovhs = list(range(0, 49)) if not quick else sorted(set([0, 1, 17, 28, 29, 31, 32, 40, 48] + [rng.randrange(0, 49) for _ in range(3)]))
        for ovh in ovhs:
            dl = rng.choice([0, 1, 12, -4, -900, -130, 130, 900])
            ys = fill(y_values("to_tnx", ovh, rng, max(n, 30)), n, rng)
            d = 2.0 ** dl
            xs = [y * d for y in ys]
            variants = [("reim_to_tnx_ref", "direct", MASK_NONE), ("reim_to_tnx", "dispatch", MASK_NONE), ("reim_to_tnx", "dispatch", MASK_GENERIC)] + \
                       ([("reim_to_tnx_avx", "direct", MASK_NONE)] if m % 4 == 0 else [])
            for (fn, how, mask) in variants:
                X, R = Buf(8 * n, off=rng.choice([0, 8, 24])), Buf(8 * n, fill=0xEE)
                X.f64[:] = xs
                X.readonly(True)      # (page-protection observer: the input is read-only during the call)
                if not rec.progress("%s m=%d dl=%d ovh=%d mask=%d" % (fn, m, dl, ovh, mask)):
                    continue
                t = tables.get("new_reim_to_tnx_precomp", m, mask, ("d", d), ("w", ovh))
                L.fn(fn, "v ppp")(t, R.addr, X.addr)
                rec.case(("to_tnx", fn, m, mask, ovh))
                if not (X.canaries_ok() and R.canaries_ok()):
                    rec.violation("%s m=%d wrote outside its output" % (fn, m), {})
                    continue
                emit("to_tnx", fn, m, [dbits(v) for v in xs], [to_words(int(v), 4) for v in R.i64], {"dl": dl, "ovh": ovh}, mask)
    rec.data["events"] = events


def drive_first_use(rec, order):
    """A fresh process (nothing has used the caches of the *_simple conversions yet): (a) the first call of a dimension declares a small
    bound, later calls the full one - or the reverse (order 1); (b) dimensions 2^16, 2^17, 2^18 one after the other.  Sampled elements of
    every call are recorded and judged by the contract."""
    rng = random.Random(rec.seed * 53 + order)
    L = Lib.get()
    events = []

    def sample_idx(n):
        return sorted(set([0, 1, 2, n // 4, n // 2 - 1, n // 2, n // 2 + 1, n - 2, n - 1] + [rng.randrange(n) for _ in range(40)]))

    def from_znx64(m, bound, what):
        n = 2 * m
        top = (1 << bound) - 1
        xs = np.array([rng.choice([top, -top, top - 1, rng.randrange(-top, top + 1)]) for _ in range(n)], dtype=np.int64)
        X, R = Buf(8 * n), Buf(8 * n, fill=0xEE)
        X.i64[:] = xs
        label = "reim_from_znx64_simple m=%d log2bound=%d, %s" % (m, bound, what)
        if not rec.progress(label):
            return
        L.fn("reim_from_znx64_simple", "v wwpp")(m, bound, R.addr, X.addr)
        rec.case(("first-use", "from_znx64", m, bound, what))
        idx = sample_idx(n)
        events.append({"e": "Conv", "conv": "from_znx64", "m": len(idx), "x": [to_words(int(xs[i]), 4) for i in idx],
                       "r": [to_words(int(R.i64[i]), 4) for i in idx], "_what": label})

    def to_znx64(m, bound, what):
        n = 2 * m
        lim = min(bound, 52)
        ys = fill(y_values("to_znx64", lim, rng, 60), n, rng)
        X, R = Buf(8 * n), Buf(8 * n, fill=0xEE)
        X.f64[:] = ys
        label = "reim_to_znx64_simple m=%d log2bound=%d, %s" % (m, bound, what)
        if not rec.progress(label):
            return
        L.fn("reim_to_znx64_simple", "v wdwpp")(m, 1.0, bound, R.addr, X.addr)
        rec.case(("first-use", "to_znx64", m, bound, what))
        idx = sample_idx(n)
        events.append({"e": "Conv", "conv": "to_znx64", "m": len(idx), "x": [dbits(ys[i]) for i in idx], "r": [to_words(int(R.i64[i]), 4) for i in idx],
                       "dl": 0, "bound": bound, "_what": label})

    def from_i32(fname, conv, m, what):
        n = 2 * m
        xs = np.array([rng.choice([(1 << 31) - 1, -(1 << 31), rng.randrange(-(1 << 31), 1 << 31)]) for _ in range(n)], dtype=np.int64)
        X, R = Buf(4 * n), Buf(8 * n, fill=0xEE)
        X.view(np.int32)[:] = xs
        label = "%s m=%d, %s" % (fname, m, what)
        if not rec.progress(label):
            return
        L.fn(fname, "v wpp")(m, R.addr, X.addr)
        rec.case(("first-use", conv, m, what))
        order_ = lambda i: (i // 2) + (m if i % 2 else 0)          # input: m real parts then m imaginary parts; output interleaved
        idx = sample_idx(n)
        events.append({"e": "Conv", "conv": conv, "m": len(idx), "x": [to_words(int(xs[order_(i)]), 2) for i in idx],
                       "r": [to_words(int(R.i64[i]), 4) for i in idx], "_what": label})

    seq = [(20, 50), (0, 50), (31, 50), (32, 45)] if order == 0 else [(50, 20), (50, 0), (50, 31)]
    for m, (b1, b2) in zip((16, 64, 8, 32), seq):
        from_znx64(m, b1, "first call of the dimension in this process")
        from_znx64(m, b2, "after a call that declared bound %d" % b1)
        from_znx64(m, b1, "third call")
    for m, (b1, b2) in zip((16, 64, 8), [(10, 63), (50, 52), (63, 50)] if order == 0 else [(63, 10), (52, 50), (50, 63)]):
        to_znx64(m, b1, "first call of the dimension in this process")
        to_znx64(m, b2, "after a call that declared bound %d" % b1)
    for m in ((1 << 16, 1 << 17, 1 << 18) if order == 0 else (1 << 18, 1 << 16, 1 << 17)):
        from_znx64(m, 50, "large dimensions one after the other")
        to_znx64(m, 63, "large dimensions one after the other")
        from_i32("cplx_from_znx32_simple", "from_znx32", m, "large dimensions one after the other")
        from_i32("cplx_from_tnx32_simple", "from_tnx32", m, "large dimensions one after the other")
    rec.data["events"] = events


def run(chk, replay=None):
    quick = chk.tier == "quick"
    Lib.get()
    chk.assumptions += ["exact .5 ties accept either neighbouring integer", "divisors are powers of two (the constructors reject others)",
                        "reim_from_znx32/tnx32/to_tnx32 kernels are NOT_IMPLEMENTED stubs: no in-domain call, not driven"]
    # the mantissa tricks of the accelerated kernels, in a toy format with a P-bit significand, exhaustively
    for P in ([8] if quick else [7, 8, 9, 10, 11]):
        rt = run_tlc("ToyFloat", "ToyFloat_%d.cfg" % P, workers=1, timeout=2400)
        chk.add_tlc(rt, "ToyFloat P=%d: to_znx64 bnd50, from_znx64 bnd50, to_tnx tricks over every toy value of the window" % P)
        if not rt.ok:
            raise RuntimeError("ToyFloat P=%d failed: %s" % (P, rt.out[-600:]))
    ms = [1, 2, 4, 8, 16, 64] if quick else [1, 2, 4, 8, 16, 32, 64, 256, 1024]
    jobs = [("numeric conversions m=%s" % ms[i::6], drive, (i, ms[i::6], quick)) for i in range(6) if ms[i::6]]
    jobs += [("first uses of the conversion caches, order %d" % o, drive_first_use, (o,)) for o in (0, 1)]
    res = isolated_many(chk, jobs, timeout=2400, nproc=6)
    events = [ev for d in res if d for ev in d["events"]]
    clean = [{k: v for k, v in ev.items() if not k.startswith("_")} for ev in events]
    bad, results = validate_events("ConvTrace", "ConvTrace.cfg", clean, "c14", nproc=14, timeout=3000)
    for rr in results:
        chk.add_tlc(rr, "trace validation")
    chk.traces += len(events) - len(bad)
    chk.cov["calls_validated"] = len(events)
    chk.cov["elements_judged"] = sum(len(e["x"]) for e in events)
    chk.cov["rule"] = "one case = (conversion, variant, m, dispatch mask, divisor / bound / log2overhead); elements are boundary directed"
    for b in bad[:40]:
        ev = events[b]
        # locate the failing elements for the report (recomputed with Python fractions, report only)
        chk.violation(ev["_what"] + ": an element violates the conversion contract", clean[b],
                      finding_key=finding_key(ev))
    if events:
        e0 = clean[len(clean) // 2]
        chk.sample({"event": {k: (v if not isinstance(v, list) else v[:3] + ["..."]) for k, v in e0.items()}, "what": events[len(clean) // 2]["_what"]})


def finding_key(ev):
    """Identifies the one known finding: reim_to_znx64_avx2_bnd63_fma on x/d = +-(1/2 - 2^-54), and nothing else."""
    from fractions import Fraction
    if ev["conv"] != "to_znx64":
        return None
    fails = []
    for xw, rw in zip(ev["x"], ev["r"]):
        bits = sum(w << (16 * i) for i, w in enumerate(xw))
        x = struct.unpack("<d", struct.pack("<Q", bits))[0]
        r = sum(w << (16 * i) for i, w in enumerate(rw))
        if r >> 63:
            r -= 1 << 64
        y = Fraction(x) / (Fraction(2) ** ev["dl"])
        if abs(Fraction(r) - y) * 2 > 1:
            fails.append((y, r))
    half_minus = Fraction(1, 2) - Fraction(1, 2 ** 54)
    if fails and all(abs(y) == half_minus and r == (1 if y > 0 else -1) for (y, r) in fails) and \
            ("bnd63" in ev["_what"] or ((("reim_to_znx64 " in ev["_what"] and "mask=0" in ev["_what"]) or "reim_to_znx64_simple" in ev["_what"])
                                        and ev["bound"] > 50 and ev["m"] >= 8)):
        return "to_znx64_bnd63:half_minus_ulp"
    return None
