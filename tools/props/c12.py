"""C12 - shared modules and precomputed tables are safe for concurrent use.

 1. TLC exhaustive: SimpleCache.tla - all interleavings of the unsynchronised Read / Init+Publish / Use steps of the
    cached *_simple functions for 2-3 threads, warm and cold start: after warm-up no write to a process-wide slot
    (hence no race), the table used always matches the call; call graph of module-level calls reaches no slot;
    cold start: a race is reachable (witness) - the documented reason for the warm-up protocol.
 2. direction B: 16 threads x hundreds of calls over module-level entry points, table-based kernels and *_simple
    functions on shared MODULE / PRECOMP objects with private data, warm and cold start (first use included); the
    totally ordered event trace (hook events + Enter/Exit with output hashes) is validated by TLC
    (SimpleCacheTrace.tla). A ThreadSanitizer build observes warm runs: a reported race is an illegal event.
 3. structural binding: the writable static storage of the freshly built library must be the slot inventory of
    the specification (an unmodelled static object is reported and widens the concurrent runs).
"""
import math
import os
import re
import struct
import subprocess

import numpy as np

from common import run_tlc, tlc_must_pass, validate_events, Infra, build, workdir, log

LEVEL = "model_checking"
KIND = {1: "Miss", 2: "Use", 10: "Enter", 11: "Exit", 12: "Enter", 13: "Exit", 20: "WarmupDone"}


def bits_to_log2(b):
    if b == 0:
        return 0
    d = struct.unpack("<d", struct.pack("<q", int(b)))[0]
    return int(round(math.log2(d))) if d > 0 else -9999


def to_events(raw):
    evs = []
    for r in raw:
        k = int(r[0])
        if k not in KIND:
            continue
        ev = {"e": KIND[k], "tid": int(r[1]), "seq": int(r[2])}
        if k in (10, 12):
            ev.update(cls="mod" if k == 10 else "simple", op=int(r[3]))
            if r[4]:
                ev.update(m=int(r[4]), div=bits_to_log2(r[5]), bnd=int(r[6]))
        elif k in (11, 13):
            ev.update(cls="mod" if k == 11 else "simple", op=int(r[3]), h1=int(r[4]), h2=int(r[5]))
        elif k in (1, 2):
            ev.update(slot=int(r[3]), idx=int(r[4]), m=int(r[5]), div=bits_to_log2(r[6]), bnd=int(r[7]))
        evs.append(ev)
    return evs


def run_driver(bdir, mode, nthreads, iters, seed, tag, env=None, timeout=600):
    d = workdir("c12-" + tag)
    out = os.path.join(d, "ev.bin")
    try:
        r = subprocess.run([os.path.join(bdir, "conc_drive"), mode, str(nthreads), str(iters), str(seed), out],
                           capture_output=True, text=True, timeout=timeout, env=env)
    except subprocess.TimeoutExpired as e:
        err = e.stderr or b""
        return None, "timeout", (err.decode(errors="replace") if isinstance(err, bytes) else err)[-200000:]
    if r.returncode != 0 or not os.path.exists(out):
        return None, "exit %s" % r.returncode, r.stderr[-3000:]
    raw = np.fromfile(out, dtype=np.int64).reshape(-1, 8)
    return raw, None, r.stderr


def static_inventory(bdir):
    """writable static storage of the built static library: objects in .bss/.data/.tbss/.tdata"""
    lib = os.path.join(bdir, "repo", "spqlios", "libspqlios.a")
    r = subprocess.run(["nm", "-S", "--defined-only", lib], capture_output=True, text=True)
    objs = []
    cur = ""
    for line in r.stdout.splitlines():
        if line.endswith(":"):
            cur = line[:-1]
            continue
        p = line.split()
        if len(p) == 4 and p[2] in "bBdD" and not p[3].startswith("verif_"):
            objs.append((cur, p[3], int(p[1], 16), p[2]))
    return objs


def run(chk, replay=None):
    quick = chk.tier == "quick"
    bdir = build("rel")
    chk.assumptions += ["threads work on private data; only MODULE / PRECOMP objects and the caches are shared",
                        "the event order is the global sequence number taken atomically inside the hook",
                        "cold-start races inside the *_simple functions are allowed by their documented warm-up protocol"]
    # 1. model
    for cfg, role in (("SimpleCache_warm.cfg", "3 threads x 1 call, warm"), ("SimpleCache_warm2.cfg", "2 threads x 2 calls, warm"),
                      ("SimpleCache_cold.cfg", "2 threads x 2 calls, cold"), ("SimpleCache_seq.cfg", "sequential histories of 4 calls")):
        r = run_tlc("SimpleCache", cfg, workers=16, xmx="16g", name="c12-" + cfg, timeout=1800)
        tlc_must_pass(r, cfg)
        chk.add_tlc(r, "all interleavings: " + role)
    r = run_tlc("SimpleCache", "SimpleCache_coldwitness.cfg", workers=8, name="c12-witness")
    chk.add_tlc(r, "cold-start race witness")
    chk.cov["cold_start_race_reachable_in_model"] = (r.violation == "ColdRacePossible")
    if r.violation != "ColdRacePossible":
        chk.notes.append("the cold-start race witness was not found: the race detector of the model may be vacuous")
    # 2. recorded executions
    # (mode, threads, iterations, seed, CPU mask): mask 15 = the portable kernels in every module and table built by the process
    runs = [("warm", 16, 400 if quick else 2000, chk.seed, 0), ("cold", 16, 60 if quick else 300, chk.seed, 0),
            ("cold", 8, 10, chk.seed + 1, 0), ("warm", 4, 60, chk.seed + 2, 0),
            ("warm", 16, 250 if quick else 1500, chk.seed + 11, 15), ("cold", 16, 40 if quick else 200, chk.seed + 12, 15)]
    if not quick:
        runs += [("cold", 16, 60, chk.seed + 7 * i, 0) for i in range(1, 6)] + [("warm", 16, 400, chk.seed + 3, 0)]
    total_events = 0
    for i, (mode, nt, iters, seed, cpumask) in enumerate(runs):
        raw, err, stderr = run_driver(bdir, mode, nt, iters, seed, "run%d" % i,
                                      env=dict(os.environ, CONC_CPU_MASK=str(cpumask)) if cpumask else None)
        chk.case(("run", mode, nt, cpumask))
        if cpumask:
            mode = mode + " (portable kernels)"
        if raw is None:
            chk.violation("concurrent %s run (%d threads): the driver %s" % (mode, nt, err),
                          {"mode": mode, "threads": nt, "stderr": stderr}, finding_key="crash:conc_drive " + mode)
            continue
        evs = to_events(raw)
        total_events += len(evs)
        for ev in evs:
            if ev["e"] in ("Enter",):
                chk.case(("call", ev["cls"], ev["op"], mode))
        clean = [{k: v for k, v in ev.items() if k != "seq"} for ev in evs]
        bad, results = validate_events("SimpleCacheTrace", "SimpleCacheTrace.cfg", clean, "c12-%d" % i, nproc=1, timeout=1200)
        for rr in results:
            chk.add_tlc(rr, "trace validation (%s, %d threads)" % (mode, nt))
        if not bad:
            chk.traces += 1
        seen = set()
        for b in bad:
            ev = evs[b]
            key = (ev["e"], ev.get("slot"), ev.get("op"))
            if key in seen:
                continue
            seen.add(key)
            # context: the call the thread was in
            ctx = next((e for e in reversed(evs[:b]) if e["tid"] == ev["tid"] and e["e"] == "Enter"), None)
            chk.violation("%s run, %d threads: event %d %s violates the concurrency contract (thread was in call %s)" % (
                mode, nt, b, {k: v for k, v in ev.items()}, ctx), {"mode": mode, "threads": nt, "seed": seed, "event_index": b,
                                                                   "event": ev, "enclosing_call": ctx, "slice": evs[max(0, b - 6):b + 3]})
        if i == 0:
            chk.sample({"trace_slice": clean[len(clean) // 2:len(clean) // 2 + 6], "mode": mode, "threads": nt})
    chk.cov["events_validated"] = total_events
    # TSan observer (warm runs: any race report is illegal)
    try:
        tdir = build("tsan", targets=["conc_drive"])
        env = dict(os.environ, TSAN_OPTIONS="halt_on_error=0 report_signal_unsafe=0 exitcode=0", CONC_NOEVENTS="1")
        raw, err, stderr = run_driver(tdir, "warm", 8, 200 if quick else 1000, chk.seed, "tsan", env=env, timeout=420 if quick else 900)
        races = re.findall(r"WARNING: ThreadSanitizer: data race.*?(?=\n\n|\Z)", stderr, flags=re.S)
        chk.cov["tsan_observer"] = {"ran": raw is not None, "race_reports": len(races)}
        chk.case(("tsan", "warm", 8))
        if raw is None and err:
            chk.notes.append("TSan observer run failed: %s" % err)
        for rep in races[:3]:
            chk.violation("ThreadSanitizer observed a data race during a warm run", {"report": rep[:3000]})
        # the same under the portable dispatch
        env1 = dict(env, CONC_CPU_MASK="15")
        raw1, err1, stderr1 = run_driver(tdir, "warm", 8, 150 if quick else 800, chk.seed + 3, "tsan-generic", env=env1, timeout=420 if quick else 900)
        races1 = re.findall(r"WARNING: ThreadSanitizer: data race.*?(?=\n\n|\Z)", stderr1, flags=re.S)
        chk.cov["tsan_observer_portable_kernels"] = {"ran": raw1 is not None, "race_reports": len(races1)}
        chk.case(("tsan", "warm-portable", 8))
        if raw1 is None and err1:
            chk.notes.append("TSan observer run (portable kernels) failed: %s" % err1)
        for rep in races1[:3]:
            chk.violation("ThreadSanitizer observed a data race during a warm run under the portable dispatch", {"report": rep[:3000]})
        # a fresh process in which the threads run module-level and table operations only (first use included, no *_simple call): the
        # warm-up protocol does not apply to them, so every race report is illegal here too
        env2 = dict(env, CONC_CLASS0_ONLY="1")
        raw2, err2, stderr2 = run_driver(tdir, "cold", 8, 120 if quick else 600, chk.seed + 5, "tsan-cold", env=env2, timeout=420 if quick else 900)
        races2 = re.findall(r"WARNING: ThreadSanitizer: data race.*?(?=\n\n|\Z)", stderr2, flags=re.S)
        chk.cov["tsan_observer_cold_module_level"] = {"ran": raw2 is not None, "race_reports": len(races2)}
        chk.case(("tsan", "cold-class0", 8))
        if raw2 is None and err2:
            chk.notes.append("TSan observer (cold, module-level operations) failed: %s" % err2)
        for rep in races2[:3]:
            chk.violation("ThreadSanitizer observed a data race between module-level / table operations in a fresh process", {"report": rep[:3000]})
    except Infra as e:
        chk.cov["tsan_observer"] = {"ran": False, "why": str(e)[:300]}
        chk.notes.append("TSan observer unavailable (not a verdict)")
    # 3. structural binding
    # non-temporal stores are ordered with later ordinary stores only by a fence: a result written with them and handed to another thread
    # through an ordinary release could be seen stale there.  No run of this check can observe that; the built library is scanned instead
    # (advisory: the pinned library has no such store)
    try:
        dis = subprocess.run(["objdump", "-d", "--no-show-raw-insn", os.path.join(bdir, "repo", "spqlios", "libspqlios.so")],
                             capture_output=True, text=True, timeout=300).stdout
        unfenced, cur, has_nt, has_fence = [], None, False, False
        for line in dis.splitlines() + ["0 <end>:"]:
            mfn = re.match(r"^[0-9a-f]+ <([^>]+)>:$", line)
            if mfn:
                if cur and has_nt and not has_fence:
                    unfenced.append(cur)
                cur, has_nt, has_fence = mfn.group(1), False, False
            elif re.search(r"\bv?movnt", line):
                has_nt = True
            elif "sfence" in line or "mfence" in line:
                has_fence = True
        chk.cov["functions_with_unfenced_non_temporal_stores"] = unfenced
        if unfenced:
            chk.notes.append("non-temporal stores without a fence in %s: results handed to another thread may be seen stale there "
                             "(not observable by the runs of this check; advisory)" % unfenced[:8])
    except (OSError, subprocess.TimeoutExpired):
        chk.cov["functions_with_unfenced_non_temporal_stores"] = "objdump unavailable"
    inv = static_inventory(bdir)
    modelled = [o for o in inv if re.match(r"^(p|precomp|prev_log2bound)(\.\d+)?$", o[1])]
    extra = [o for o in inv if o not in modelled]
    chk.cov["static_storage_objects"] = len(inv)
    chk.cov["static_storage_modelled"] = len(modelled)
    if extra:
        chk.cov["unmodelled_state"] = [list(map(str, o)) for o in extra]
        chk.notes.append("writable static storage outside the slot inventory of SimpleCache.tla: %s (not a violation by itself)" % extra)
    chk.cov["exhaustive"] = True
    chk.cov["box"] = "model: 2-3 threads x 1-2 calls x 2 dimensions x 2 divisors, warm/cold; executions: up to 16 threads"
    chk.cov["rule"] = "one case = (call class, operation, start mode) observed in a recorded concurrent execution, or a run"
