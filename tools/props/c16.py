"""C16 - pipelines of API calls compute the corresponding expression in Z[X]/(X^N+1).

The API machine Spqlios.tla is the exact interpreter: TLC -simulate draws random well-typed, in-budget straight-line
programs over the public API (both module types); every program is replayed on the real library, lifted from the
specification dimension N0 to N = N0*t, under both dispatch configurations, and the abstract state is compared after
every call (DFT-space and prepared objects projected through the library's own inverse DFT / apply)."""
import random

from common import run_tlc, tlc_must_pass, printed_json, Infra, isolated_many
from lib import Lib, MASK_NONE, MASK_GENERIC
import progs

LEVEL = "exploration"


def generate(chk, cfgs, num, depth, tag):
    out = []
    for cfg in cfgs:
        r = run_tlc("Spqlios", cfg, workers=4, simulate=num, depth=depth, tlc_seed=chk.seed, name=tag + "-" + cfg,
                    timeout=1200)
        if not r.ok:
            raise Infra("Spqlios simulation failed (%s): %s" % (cfg, r.out[-2000:]))
        chk.add_tlc(r, "program generation " + cfg)
        seen = set()
        for p in printed_json(r, "PROGRAM"):
            key = repr(p["steps"])
            if key not in seen:
                seen.add(key)
                out.append(p)
    return out


def drive(rec, programs, part, nparts, ts_small, ts_big, every_big):
    rng = random.Random(rec.seed * 101 + part)
    L = Lib.get()
    ok = 0
    steps = 0
    for idx, prog in enumerate(programs):
        if idx % nparts != part:
            continue
        ts = [rng.choice(ts_small), rng.choice(ts_small)]
        if idx % every_big == 0:
            ts.append(rng.choice(ts_big))
        for t in ts:
            mask = rng.choice([MASK_NONE, MASK_GENERIC]) if prog["mod"] == "FFT64" else MASK_NONE
            bad, nsteps = progs.run_program(L, prog, t, mask, rng, fill=rng.choice([0x5C, 0xFF, 0x00]),
                                            off=rng.choice([0, 8, 16, 24]), progress=rec.progress)
            steps += nsteps
            for st in prog["steps"][:nsteps]:
                rec.case((st["op"], prog["mod"], mask, st.get("rs"), st.get("as"), st.get("bs"), st["res"] == st.get("a"),
                          "N<8" if prog["N0"] * t < 8 else ("N<=64" if prog["N0"] * t <= 64 else "big")))
            if bad:
                i, why = bad
                rec.violation("program step %d (%s) at N=%d, mask=%d: %s" % (i, progs.describe(prog["steps"][i]),
                                                                             prog["N0"] * t, mask, why),
                              {"program": prog, "t": t, "mask": mask, "step": i, "what": why})
            else:
                ok += 1
        # the linear prefix of the program once more with every initial coefficient multiplied by a constant that takes the largest
        # intermediate value to the top of the range of the representation (int64 for coefficient vectors and NTT120 inputs;
        # 2^40 for FFT64, far inside its budget so that results stay exact)
        k, top = progs.linear_prefix(prog)
        if k >= 2:
            lim = ((1 << 63) - 1) if prog["mod"] != "FFT64" else (1 << 40)
            smax = lim // top
            scale = smax if rng.random() < 0.6 else rng.randrange(max(1, smax >> 12), smax + 1)
            t = rng.choice(ts_small)
            mask = rng.choice([MASK_NONE, MASK_GENERIC]) if prog["mod"] == "FFT64" else MASK_NONE
            bad, nsteps = progs.run_program(L, prog, t, mask, rng, fill=rng.choice([0x5C, 0xFF, 0x00]), off=rng.choice([0, 8, 16, 24]),
                                            progress=rec.progress, scale=scale, nsteps=k)
            steps += nsteps
            rec.case(("scaled", prog["mod"], mask, min(k, 8)))
            if bad:
                i, why = bad
                rec.violation("program step %d (%s) at N=%d, mask=%d, initial data times %d: %s" % (
                    i, progs.describe(prog["steps"][i]), prog["N0"] * t, mask, scale, why),
                    {"program": prog, "t": t, "mask": mask, "step": i, "what": why, "scale": scale})
            else:
                ok += 1
    rec.data["ok"] = ok
    rec.data["steps"] = steps


def run(chk, replay=None):
    quick = chk.tier == "quick"
    Lib.get()
    chk.assumptions += ["operands of the generated programs are small (budget 1e5): every floating-point operation of the "
                        "FFT64 path is exact or far inside the C01 budget, so integer results are compared exactly",
                        "DFT / prepared objects are projected with the library's own vec_znx_idft, svp_apply_dft, vmp_apply_dft"]
    programs = generate(chk, ["Spqlios_sim.cfg", "Spqlios_sim8.cfg", "Spqlios_sim_ntt.cfg"], 60 if quick else 600,
                        16, "c16")
    if len(programs) < 10:
        raise Infra("too few programs generated: %d" % len(programs))
    nparts = 12
    ts_small = [1, 2, 4, 16]
    ts_big = [64, 256, 1024, 4096, 16384]
    res = isolated_many(chk, [("program replay part %d" % i, drive, (programs, i, nparts, ts_small, ts_big, 9 if quick else 4))
                              for i in range(nparts)], timeout=2400, nproc=12)
    ok = sum(d["ok"] for d in res if d)
    steps = sum(d["steps"] for d in res if d)
    chk.traces += ok
    chk.cov["programs"] = len(programs)
    chk.cov["program_runs_matching"] = ok
    chk.cov["calls_executed_and_compared"] = steps
    chk.cov["rule"] = ("one evaluation = one API call of a replayed program, judged against the API machine's post-state; distinct = "
                       "(entry point, module type, dispatch mask, sizes, aliasing res==a, N class)")
    chk.sample({"program": {"N0": programs[0]["N0"], "mod": programs[0]["mod"],
                            "steps": [progs.describe(s) for s in programs[0]["steps"]]}})
