"""C06 - reim/cplx FFT and iFFT equal the mathematical transform, in documented order.

 1. TLC: FftSchedule.tla - the butterfly schedule and twiddle exponents of the reference split-layout FFT (leaves of
    16/8/4/2, breadth-first radix-4 passes, recursive halving) as a symbolic machine over exponents of w = exp(2 pi i/4m):
    every output j is the evaluation at w^(1 + 4 bitrev j), one monomial per (output, input), for m = 1..256 in the
    breadth-first regime and with a lowered recursion threshold (the recursive regime at small m); FftInverse.tla -
    the inverse schedule (reim_ifft_ref.c) executed on the symbolic output of the forward map gives m * identity.
 2. table binding (advisory): the real twiddle tables of new_reim_fft_precomp for m <= 2048 against the table TLC
    generates from the schedule (cos / sin of the generated exponent, absolute tolerance 8 * 2^-53).
 3. impulse probes on every implementation (reference, AVX2/FMA drivers incl. the assembly leaves, dispatch under both
    CPU masks, *_simple; reim and cplx layouts; forward and inverse), every m = 1..65536: each output is classified to
    a 4m-th root of unity and TLC checks the exponents against the evaluation map. Repeated calls must be bit-identical
    and leave the table bytes unchanged.
 4. error-norm clause (measured): constants, resonant vectors, large dynamic range and random inputs against an
    80-bit long double evaluation of the documented map; TLC checks  ||err||^2 2^106 <= (8 log2 2m)^2 ||exact||^2.
"""
import ctypes
import math
import random
import struct

import numpy as np

from common import run_tlc, tlc_must_pass, printed_json, validate_events, to_words, Infra, isolated_many
from lib import Lib, Buf, MASK_NONE, MASK_GENERIC
import kernels

LEVEL = "other"
LD = np.longdouble
CLD = np.clongdouble


def bitrev_perm(m):
    k = m.bit_length() - 1
    r = np.zeros(m, dtype=np.int64)
    for b in range(k):
        r |= ((np.arange(m) >> b) & 1) << (k - 1 - b)
    return r


def ld_fft(t, sign):
    """Y[r] = sum_i t_i exp(sign * 2 pi i * i r / m) in long double (iterative radix 2, twiddles from direct cos/sin)"""
    m = len(t)
    a = np.array(t, dtype=CLD)[bitrev_perm(m)]
    size = 2
    twopi = 2 * np.arccos(LD(-1))
    while size <= m:
        half = size // 2
        ang = sign * twopi * np.arange(half, dtype=LD) / LD(size)
        w = np.cos(ang) + 1j * np.sin(ang)
        a = a.reshape(-1, size)
        u, v = a[:, :half].copy(), a[:, half:] * w
        a[:, :half], a[:, half:] = u + v, u - v
        a = a.reshape(-1)
        size *= 2
    return a


def exact_transform(x, inverse):
    """the documented map in long double. forward: y_j = sum_i x_i w^(i (1 + 4 bitrev j)); inverse: z_j = sum_i y_i w^(-j (1 + 4 bitrev i))"""
    m = len(x)
    twopi = 2 * np.arccos(LD(-1))
    ang = twopi * np.arange(m, dtype=LD) / LD(4 * m)
    tw = np.cos(ang) + 1j * np.sin(ang)
    br = bitrev_perm(m)
    if not inverse:
        return ld_fft(np.array(x, dtype=CLD) * tw, +1)[br] if m > 1 else np.array(x, dtype=CLD)
    if m == 1:
        return np.array(x, dtype=CLD)
    return ld_fft(np.array(x, dtype=CLD)[br], -1) * np.conj(tw)


IMPLS = [
    # transform, layout, implementation name, how, minimum m
    ("fft", "reim", "reim_fft_ref", "direct", 1), ("fft", "reim", "reim_fft_avx2_fma", "direct", 1), ("fft", "reim", "reim_fft", "dispatch", 1),
    ("fft", "reim", "reim_fft_simple", "simple", 1),
    ("ifft", "reim", "reim_ifft_ref", "direct", 1), ("ifft", "reim", "reim_ifft_avx2_fma", "direct", 1), ("ifft", "reim", "reim_ifft", "dispatch", 1),
    ("ifft", "reim", "reim_ifft_simple", "simple", 1),
    ("fft", "cplx", "cplx_fft_ref", "direct", 1), ("fft", "cplx", "cplx_fft_avx2_fma", "direct", 8), ("fft", "cplx", "cplx_fft", "dispatch", 1),
    ("fft", "cplx", "cplx_fft_simple", "simple", 1),
    ("ifft", "cplx", "cplx_ifft_ref", "direct", 1), ("ifft", "cplx", "cplx_ifft_avx2_fma", "direct", 8), ("ifft", "cplx", "cplx_ifft", "dispatch", 1),
    ("ifft", "cplx", "cplx_ifft_simple", "simple", 1),
]


FP_NOTES = []      # calls that left the floating-point control state changed (reported by the drivers)


def call_impl(L, tables, impl, m, mask, z, off=0):
    """z: complex128 vector of length m -> complex128 output (or None), and the table it used"""
    tr, layout, name, how, _ = impl
    d = Buf(16 * m, fill=0, off=off)
    zz = np.stack([z.real, z.imag], axis=1)
    d.f64[:] = kernels.to_layout(layout, zz)
    t = None
    fp0 = L.fpenv()
    if how == "simple":
        L.fn(name, "v wp")(m, d.addr)
    else:
        t = tables.get("new_%s_%s_precomp" % (layout, tr), m, mask if how == "dispatch" else MASK_NONE, ("w", 0))
        L.fn(name, "v pp")(t, d.addr)
    why = L.fpenv_check(fp0)
    if why:
        FP_NOTES.append("%s m=%d: %s" % (name, m, why))
    if not d.canaries_ok():
        return None, t
    o = kernels.from_layout(layout, d.f64, m)
    return o[:, 0] + 1j * o[:, 1], t


def drive(rec, ms, quick):
    rng = random.Random(rec.seed * 61 + ms[0])
    L = Lib.get()
    tables = kernels.Tables(L)
    events = []
    for m in ms:
        for impl in IMPLS:
            tr, layout, name, how, minm = impl
            if m < minm:
                continue
            masks = (MASK_NONE, MASK_GENERIC) if how == "dispatch" else (MASK_NONE,)
            for mask in masks:
                # ---------------- impulse probes
                n_imp = (6 if quick else 16) if m <= 4096 else (2 if quick else 6)
                pos = sorted(set([0, m - 1, m // 2] + [max(0, m - 1 - t) for t in range(min(m, 3))] + [rng.randrange(m) for _ in range(n_imp)]))[:n_imp + 4]
                for i in pos:
                    z = np.zeros(m, dtype=np.complex128)
                    z[i] = 1.0
                    if not rec.progress("%s m=%d impulse at %d mask=%d" % (name, m, i, mask)):
                        continue
                    out, t = call_impl(L, tables, impl, m, mask, z)
                    rec.case((name, m, mask, "impulse"), nontrivial=m > 1)
                    if out is None or not np.isfinite(out).all():
                        rec.violation("%s m=%d: write outside the data or non-finite output on a unit impulse" % (name, m), {"m": m, "i": i})
                        continue
                    ang = np.angle(out)
                    ex = np.rint(ang * (4 * m) / (2 * np.pi)).astype(np.int64) % (4 * m)
                    root = np.exp(2j * np.pi * ex / (4 * m))
                    resid = np.abs(out - root).max()
                    js = list(range(m)) if m <= 32 else sorted(set([0, 1, m - 1, m // 2, m // 2 - 1] + [rng.randrange(m) for _ in range(24)]))
                    # all outputs are classified; the sampled ones go to TLC, the rest is compared here with the same formula via the residual
                    events.append({"e": "Impulse", "tr": tr, "m": m, "i": i, "js": js, "exps": [int(ex[j]) for j in js], "ok": bool(resid <= 2.0 ** -40),
                                   "_what": "%s m=%d mask=%d impulse at %d (max residual %.2e)" % (name, m, mask, i, resid)})
                    if m > 32:      # scaled part: every output against the exponent formula (vectorised, same map as the specification)
                        br = bitrev_perm(m)
                        allj = np.arange(m, dtype=np.int64)
                        exp_all = (i * (1 + 4 * br)) % (4 * m) if tr == "fft" else (-(allj * (1 + 4 * int(br[i])))) % (4 * m)
                        if not np.array_equal(ex, exp_all):
                            jbad = int(np.argmax(ex != exp_all))
                            rec.violation("%s m=%d mask=%d impulse at %d: output %d is w^%d, the documented map gives w^%d" % (
                                name, m, mask, i, jbad, int(ex[jbad]), int(exp_all[jbad])), {"impl": name, "m": m, "i": i, "j": jbad})
                # ---------------- accuracy on dense inputs + determinism + table immutability
                fams = ["const", "resonant", "resonant-last", "dynrange", "tiny", "huge", "random"] if (m <= 4096 or not quick) else \
                       ["random", "tiny", "resonant-last"]
                for fam in fams:
                    if fam == "const":
                        z = np.full(m, 1.0 - 2.0j)
                    elif fam in ("resonant", "resonant-last"):      # conjugates of the powers of one evaluation root: the energy concentrates in one output
                        j0 = rng.randrange(m) if fam == "resonant" else m - 1 - rng.randrange(min(m, 16))      # (one of the last 16 outputs: the last leaf)
                        e = 1 + 4 * int(bitrev_perm(m)[j0])
                        z = np.exp(-2j * np.pi * e * np.arange(m) / (4 * m)) if tr == "fft" else np.exp(2j * np.pi * (np.arange(m) % 7) / 7)
                    elif fam == "dynrange":
                        z = np.array([(rng.random() - 0.5) * 2.0 ** rng.randrange(-40, 40) + 1j * (rng.random() - 0.5) * 2.0 ** rng.randrange(-40, 40)
                                      for _ in range(m)]) if m <= 4096 else (np.random.default_rng(rng.randrange(1 << 30)).standard_normal(m) * 1e20 + 0j)
                    elif fam in ("tiny", "huge"):
                        # "every finite input": magnitudes reaching into the subnormal doubles (2^-1000 .. 2^-1060), resp. close to the
                        # largest ones (2^960 .. 2^1000, so that sums of m terms stay finite)
                        g = np.random.default_rng(rng.randrange(1 << 30))
                        ex = g.integers(-1060, -999, m) if fam == "tiny" else g.integers(960 - 18, 1000 - 18, m)
                        if fam == "tiny":
                            # gradual underflow costs an ABSOLUTE 2^-1075 per operation on the small terms: the clause is meaningful when the
                            # norm is carried by normal numbers, so one coefficient is pinned at the top of the range (norm >= 2^-1001)
                            ex[0] = -1000
                        z = np.ldexp(g.uniform(0.5, 1.0, m) * g.choice([-1.0, 1.0], m), ex) + 1j * np.ldexp(g.uniform(0.5, 1.0, m) * g.choice([-1.0, 1.0], m), ex)
                    else:
                        g = np.random.default_rng(rng.randrange(1 << 30))
                        z = g.standard_normal(m) + 1j * g.standard_normal(m)
                    if not rec.progress("%s m=%d family=%s mask=%d" % (name, m, fam, mask)):
                        continue
                    out, t = call_impl(L, tables, impl, m, mask, z)
                    rec.case((name, m, mask, fam), nontrivial=m > 1)
                    if out is None or not np.isfinite(out).all():
                        rec.violation("%s m=%d: write outside the data or non-finite output" % (name, m), {"m": m})
                        continue
                    ref = exact_transform(z, tr == "ifft")
                    # both norms on a common power-of-two scale (exact), so that very small and very large data neither vanish nor overflow
                    mx = float(np.max(np.abs(ref)))
                    e0 = math.frexp(mx)[1] if mx > 0 and np.isfinite(mx) else 0
                    sc0 = np.ldexp(LD(1), -e0)
                    err2 = float(np.sum(np.abs((out.astype(CLD) - ref) * sc0) ** 2))
                    ref2 = float(np.sum(np.abs(ref * sc0) ** 2))
                    # integers on a common power-of-two scale: ref2 ~ 2^200 (rounded up), err2 rounded down: both loosen
                    sc = 200 - (math.frexp(ref2)[1] if ref2 > 0 else 0)
                    ei, ri = int(math.floor(math.ldexp(err2, sc))) if err2 > 0 else 0, int(math.ceil(math.ldexp(ref2, sc))) if ref2 > 0 else 0
                    if ei >= 1 << 400:
                        ei = (1 << 400) - 1
                    events.append({"e": "NormErr", "m": m, "err2": to_words(ei, 26), "ref2": to_words(ri, 14),
                                   "_what": "%s m=%d mask=%d family=%s: relative error %.3e (bound %.3e)" % (
                                       name, m, mask, fam, math.sqrt(err2 / ref2) if ref2 else 0.0, 8 * math.log2(2 * m) * 2.0 ** -53)})
                    # determinism and immutability of the table
                    blk = L.block(t) if t else None
                    snap = L.snapshot_blocks([blk]) if blk else None
                    # the repeated call runs on data placed 8, 16, 24 or 40 bytes past a 64-byte boundary (no alignment is documented)
                    out2, _ = call_impl(L, tables, impl, m, mask, z, off=rng.choice([8, 16, 24, 40]))
                    same = out2 is not None and np.array_equal(out.view(np.uint64), out2.view(np.uint64))
                    unchanged = True if blk is None else (L.snapshot_blocks([blk]) == snap)
                    events.append({"e": "Same", "identical": bool(same), "table_unchanged": bool(unchanged),
                                   "_what": "%s m=%d mask=%d: repeated call / table bytes" % (name, m, mask)})
        while FP_NOTES:
            rec.violation(FP_NOTES.pop(0), {})
        # ---------------- library-owned work buffers (new_*_precomp(m, num_buffers), *_precomp_get_buffer): the transform run inside
        # them must equal the transform run in a caller array, before and after, and the buffers must not overlap each other
        for tr in ("fft", "ifft"):
            for layout in ("reim", "cplx"):
                for mask in (MASK_NONE, MASK_GENERIC):
                    if not rec.progress("%s_%s m=%d work buffers mask=%d" % (layout, tr, m, mask)):
                        continue
                    t = tables.get("new_%s_%s_precomp" % (layout, tr), m, mask, ("w", 2))
                    fn = L.fn("%s_%s" % (layout, tr), "v pp")
                    getb = L.fn("%s_%s_precomp_get_buffer" % (layout, tr), "p pw")
                    g = np.random.default_rng(rng.randrange(1 << 30))
                    z = g.standard_normal(2 * m)
                    outs = []
                    addrs = [getb(t, 0), getb(t, 1)]
                    for where in ("caller", 0, 1, "caller", 0):
                        if where == "caller":
                            d = Buf(16 * m, fill=0)
                            d.f64[:] = z
                            fn(t, d.addr)
                            outs.append(d.f64.copy() if d.canaries_ok() else None)
                        else:
                            arr = np.ctypeslib.as_array(ctypes.cast(addrs[where], ctypes.POINTER(ctypes.c_double)), shape=(2 * m,))
                            arr[:] = z
                            fn(t, addrs[where])
                            outs.append(arr.copy())
                    rec.case(("buffers", layout, tr, m, mask), nontrivial=m > 1)
                    same = all(o is not None and np.array_equal(o.view(np.uint64), outs[0].view(np.uint64)) for o in outs)
                    disjoint = abs(addrs[1] - addrs[0]) >= 16 * m and addrs[0] % 32 == 0 and addrs[1] % 32 == 0
                    events.append({"e": "Same", "identical": bool(same), "table_unchanged": bool(disjoint),
                                   "_what": "%s_%s m=%d mask=%d: caller array / work buffer 0 / work buffer 1 / caller array / work buffer 0" % (
                                       layout, tr, m, mask)})
    rec.data["events"] = events


def drive_signals(rec, quick):
    """The transforms while signals are delivered to the computing thread (a 4 kHz interval timer with an empty handler): a handler runs on
    the thread's own stack, below the 128 bytes the ABI reserves under the stack pointer - a kernel that parks live values further down
    loses them.  Every call must return the bytes of the first call."""
    import signal
    import time
    rng = random.Random(rec.seed + 321)
    L = Lib.get()
    tables = kernels.Tables(L)
    ok = 0
    got_signals = [0]

    def handler(*a):
        got_signals[0] += 1
    old = signal.signal(signal.SIGALRM, handler)
    try:
        for (tr, layout, name) in (("fft", "reim", "reim_fft"), ("ifft", "reim", "reim_ifft"), ("fft", "cplx", "cplx_fft"), ("ifft", "cplx", "cplx_ifft")):
            for m in ((16, 4096) if quick else (16, 64, 1024, 4096, 65536)):
                for mask in (MASK_NONE, MASK_GENERIC):
                    t = tables.get("new_%s_%s_precomp" % (layout, tr), m, mask, ("w", 0))
                    src = np.array([rng.uniform(-1, 1) for _ in range(2 * m)])
                    d = Buf(16 * m, fill=0)
                    f = L.fn(name, "v pp")
                    label = "%s m=%d mask=%d under a stream of signals" % (name, m, mask)
                    if not rec.progress(label):
                        continue
                    d.f64[:] = src
                    f(t, d.addr)
                    first = d.u8.copy()                       # (no timer yet)
                    signal.setitimer(signal.ITIMER_REAL, 0.00025, 0.00025)
                    bad = 0
                    t_end = time.time() + (0.25 if quick else 1.0)
                    reps = 0
                    while time.time() < t_end:
                        for _ in range(50):
                            d.f64[:] = src
                            f(t, d.addr)
                            reps += 1
                            if not np.array_equal(d.u8, first):
                                bad += 1
                    signal.setitimer(signal.ITIMER_REAL, 0, 0)
                    rec.case(("signals", name, m, mask))
                    if bad or not d.canaries_ok():
                        rec.violation(label + ": %d of %d calls returned other bytes than the first call" % (bad, reps), {"fn": name, "m": m})
                    else:
                        ok += 1
    finally:
        signal.setitimer(signal.ITIMER_REAL, 0, 0)
        signal.signal(signal.SIGALRM, old)
    rec.data["ok"] = ok
    rec.data["signals"] = got_signals[0]
    rec.data["events"] = []


def drive_simple_sequence(rec, quick):
    """the *_simple transforms over every dimension inside ONE process, up and then down: the table a call uses may not depend on the
    dimensions used before (each result must be the bytes the table-based entry point gives)"""
    L = Lib.get()
    tables = kernels.Tables(L)
    rng = random.Random(rec.seed + 909)
    events = []
    dims = [1 << s for s in range(0, 17)]
    for order in (dims, dims[::-1]):
        for m in order:
            for tr in ("fft", "ifft"):
                for layout in ("reim", "cplx"):
                    if not rec.progress("%s_%s_simple m=%d in a sequence over all dimensions" % (layout, tr, m)):
                        continue
                    g = np.random.default_rng(rng.randrange(1 << 30))
                    z = g.integers(-1000, 1000, 2 * m).astype(np.float64)
                    a, b = Buf(16 * m, fill=0), Buf(16 * m, fill=0)
                    a.f64[:] = z
                    b.f64[:] = z
                    L.fn("%s_%s_simple" % (layout, tr), "v wp")(m, a.addr)
                    t = tables.get("new_%s_%s_precomp" % (layout, tr), m, MASK_NONE, ("w", 0))
                    L.fn("%s_%s" % (layout, tr), "v pp")(t, b.addr)
                    rec.case(("simple-seq", layout, tr, m), nontrivial=m > 1)
                    same = a.canaries_ok() and b.canaries_ok() and np.array_equal(a.u8, b.u8)
                    events.append({"e": "Same", "identical": bool(same), "table_unchanged": True,
                                   "_what": "%s_%s_simple m=%d in a sequence over all dimensions against the table-based call" % (layout, tr, m)})
    rec.data["events"] = events


def drive_helpers(rec, quick):
    """index helpers of commons_private.c on every power of two and on sampled arguments"""
    rng = random.Random(rec.seed + 404)
    L = Lib.get()
    events = []
    if not rec.progress("index helpers"):
        rec.data["events"] = events
        return
    for k in range(0, 31):
        events.append({"e": "Helper", "fn": "log2m", "x": 1 << k, "val": int(L.fn("log2m", "w w")(1 << k))})
    xs = sorted(set(list(range(0, 70)) + [(1 << k) - 1 for k in range(1, 17)] + [1 << k for k in range(0, 16)] + [rng.randrange(1 << 16) for _ in range(200 if quick else 4000)]))
    frb = L.fn("fracrevbits", "d w")
    for x in xs:
        v = frb(x) * 65536.0
        events.append({"e": "Helper", "fn": "fracrevbits", "x": x, "val": int(v) if v == int(v) else -1})
        nb = rng.randrange(1, 17)
        xx = x & ((1 << nb) - 1)
        events.append({"e": "Helper", "fn": "revbits", "nbits": nb, "x": xx, "val": int(L.fn("revbits", "w ww")(nb, xx))})
    for x in list(range(0, 200)) + [rng.randrange(1 << 30) for _ in range(100)]:
        for fn in ("ceilto64b", "ceilto32b"):
            events.append({"e": "Helper", "fn": fn, "x": x, "val": int(L.fn(fn, "u u")(x))})
    for ev in events:
        ev["_what"] = "%s(%s) = %s" % (ev["fn"], ev["x"], ev["val"])
    rec.case(("helpers",))
    rec.data["events"] = events


def drive_tables(rec, tabs):
    """advisory: real reim and cplx, forward and inverse tables against the tables generated from the schedules"""
    try:
        import mpmath
        mpmath.mp.prec = 120
    except ImportError:
        rec.data["drift"] = ["mpmath not available"]
        return
    L = Lib.get()
    tables = kernels.Tables(L)
    drift = []
    checked = 0
    import ctypes
    for tb in tabs:
        m = tb["m"]
        t = tables.get("new_%s_%s_precomp" % (tb.get("layout", "reim"), "ifft" if tb.get("inverse") else "fft"), m, MASK_NONE, ("w", 0))
        # powomegas pointer is the 4th 8-byte field: function, m, buf_size, powomegas (see reim_fft_private.h); read through the struct
        ptr = ctypes.cast(t + 24, ctypes.POINTER(ctypes.c_void_p))[0]
        real = np.ctypeslib.as_array(ctypes.cast(ptr, ctypes.POINTER(ctypes.c_double)), shape=(len(tb["table"]),)).copy()
        for idx, (kind, e) in enumerate(tb["table"]):
            a = 2 * mpmath.pi * e / (4 * m)
            exact = mpmath.cos(a) if kind == "c" else mpmath.sin(a)
            got = mpmath.mpf(float(real[idx]))
            checked += 1
            # the library evaluates cos/sin of a double-rounded argument 2 pi s (s <= 1): absolute error of a few 2^-53
            if abs(got - exact) > 8 * mpmath.mpf(2) ** -53:
                drift.append(tb.get("layout", "reim") + (" inverse" if tb.get("inverse") else "") + " m=%d entry %d: %s(2 pi %d/%d) expected %s got %r" % (m, idx, kind, e, 4 * m, mpmath.nstr(exact, 20), float(real[idx])))
                if len(drift) > 10:
                    break
    rec.data["drift"] = drift
    rec.data["checked"] = checked


def run(chk, replay=None):
    quick = chk.tier == "quick"
    Lib.get()
    chk.assumptions += ["the error-norm clause is measured against an 80-bit long double evaluation of the documented map (TLA+ has no reals)",
                        "classification of impulse responses to 4m-th roots of unity is unambiguous: spacing >= 2.4e-5 rad, residual <= 2^-40 demanded",
                        "the assembly leaves cannot be hooked; they are bound behaviourally through the AVX2 drivers (m = 16 and above)"]
    for cfg, role in (("FftSchedule_quick.cfg", "reim layout, m = 1..256, breadth-first regime"),
                      ("FftSchedule_rec.cfg", "reim layout, m = 64..256 with recursion threshold 32"),
                      ("FftSchedule_cplx.cfg", "cplx layout (radix-2 passes up to m = 8, own table layout), m = 1..256"),
                      ("FftSchedule_cplx_rec.cfg", "cplx layout, m = 64..256 with recursion threshold 32")):
        r = run_tlc("FftSchedule", cfg, workers=9, xmx="16g", name="c06-" + cfg, timeout=1800)
        tlc_must_pass(r, cfg)
        chk.add_tlc(r, "symbolic schedule = evaluation map: " + role)
    for cfg, role in (("FftInverse.cfg", "reim layout, m = 1..64, breadth-first regime"), ("FftInverse_rec.cfg", "reim layout, m = 64 with recursion threshold 32"),
                      ("FftInverse_cplx.cfg", "cplx layout (radix-2 level right after the leaves), m = 1..64"),
                      ("FftInverse_cplx_rec.cfg", "cplx layout, m = 64 with recursion threshold 32")):
        r = run_tlc("FftInverse", cfg, workers=7, xmx="24g", name="c06-" + cfg, timeout=1800)
        tlc_must_pass(r, cfg)
        chk.add_tlc(r, "symbolic inverse schedule after the forward map = m * identity: " + role)
    r = run_tlc("FftSchedule", "FftSchedule_gen.cfg", workers=1, xmx="8g", name="c06-gen", timeout=900)
    tlc_must_pass(r, "FftSchedule gen")
    tabs = printed_json(r, "TABLE")
    r = run_tlc("FftSchedule", "FftSchedule_cplx_gen.cfg", workers=1, xmx="8g", name="c06-gen-cplx", timeout=900)
    tlc_must_pass(r, "FftSchedule cplx gen")
    tabs += printed_json(r, "TABLE")
    for cfg in ("FftInverse_reim_gen.cfg", "FftInverse_cplx_gen.cfg"):
        r = run_tlc("FftInverse", cfg, workers=1, xmx="8g", name="c06-" + cfg, timeout=900)
        tlc_must_pass(r, cfg)
        for tb in printed_json(r, "ITABLE"):
            tb["inverse"] = True
            tabs.append(tb)
    ms = [1 << s for s in range(0, 19)]      # every dimension up to 2^18 in both tiers (the tiers differ in the number of probes per dimension)
    jobs = [("FFT probes m=%s" % ms[i::7], drive, (ms[i::7], quick)) for i in range(7)] + [("table binding", drive_tables, (tabs,)),
                                                                                              ("index helpers", drive_helpers, (quick,)),
                                                                                              ("*_simple over all dimensions in one process", drive_simple_sequence, (quick,)),
                                                                                              ("transforms under a stream of signals", drive_signals, (quick,))]
    res = isolated_many(chk, jobs, timeout=3000, nproc=10)
    events = [ev for d in res[:7] if d for ev in d["events"]] + (res[8]["events"] if res[8] else []) + (res[9]["events"] if res[9] else [])
    if res[10]:
        chk.traces += res[10]["ok"]
        chk.cov["signals_delivered_during_transforms"] = res[10]["signals"]
    td = res[7] or {}
    chk.cov["table_entries_checked"] = td.get("checked", 0)
    if td.get("drift"):
        chk.cov["model_drift"] = td["drift"][:10]
        chk.notes.append("model_drift: the real twiddle table differs from the table generated by FftSchedule.tla (advisory)")
    clean = [{k: v for k, v in ev.items() if not k.startswith("_")} for ev in events]
    bad, results = validate_events("FftTrace", "FftTrace.cfg", clean, "c06", nproc=12, timeout=3000)
    for rr in results:
        chk.add_tlc(rr, "trace validation")
    chk.traces += len(events) - len(bad)
    chk.cov["events_validated"] = len(events)
    chk.cov["by_kind"] = {k: sum(1 for e in events if e["e"] == k) for k in ("Impulse", "NormErr", "Same", "Helper")}
    worst = 0.0
    for ev in events:
        if ev["e"] == "NormErr":
            e2, r2 = sum(w << (16 * i) for i, w in enumerate(ev["err2"])), sum(w << (16 * i) for i, w in enumerate(ev["ref2"]))
            c = 8 * math.log2(2 * ev["m"])
            if r2:
                worst = max(worst, math.sqrt(e2 / r2) / (c * 2.0 ** -53))
    chk.cov["worst_observed_fraction_of_the_norm_bound"] = round(worst, 4)
    chk.cov["explanation"] = ("order/structure: schedule model-checked (FftSchedule.tla), impulse responses of all 16 implementations validated by TLC "
                              "for every m; error norm: measured against long double and compared with the documented bound by TLC")
    chk.cov["rule"] = "one case = (implementation, m, dispatch mask, probe kind: impulse / input family)"
    for b in bad[:20]:
        chk.violation(events[b]["_what"] + ": not the documented transform (order, value, error norm, determinism or table immutability)", clean[b])
    imp = [e for e in clean if e["e"] == "Impulse" and e["m"] == 8]
    if imp:
        chk.sample({"impulse_event": imp[0]})
