"""C15 - results depend only on arguments: no hidden state, history or alignment.

 1. TLC exhaustive: SimpleCache.tla, sequential histories of the cached functions over 2 dimensions x 2 divisors x
    2 bounds: the table a call uses was built with the call's own values of every parameter its result depends on;
    the catalogue of cache keys covers the relevant parameters (KeyCoversRelevant).
 2. direction A: TLC-simulated call histories over the 17 *_simple functions (dimensions 1..64, divisors, bounds)
    replayed: every call is also executed on a freshly built table, with another buffer offset and prefill; all
    executions of one logical call must be bit-identical. API programs of Spqlios.tla are replayed twice with different
    prefills / offsets / interleaved unrelated calls: the raw bytes of every defined object must coincide.
 3. direction B: the hook events of the histories (which table was used, with which parameters) validated by TLC.
"""
import hashlib
import random
import struct

import numpy as np

from common import run_tlc, tlc_must_pass, printed_json, validate_events, Infra, isolated, isolated_many
from lib import Lib, Buf, FFT64, MASK_NONE, MASK_GENERIC
import progs
import vecops
from props import c16
from props.c12 import to_events

LEVEL = "model_checking"
BOUND = {0: 40, 1: 50, 2: 55, 5: 63}
OVH = {0: 0, 1: 5, 2: 18, 5: 25}      # (18 is the last overhead served by the accelerated kernel; 25 needs the portable one)


def logical_inputs(f, m, seed):
    g = np.random.default_rng([seed, m, sum(map(ord, f))])
    return g


def exec_call(L, c, fresh, off, fill, seed):
    """Executes one logical call of the history, through the *_simple function or on a freshly built table.
    Returns the output bytes, or None when the function is not applicable to this dimension."""
    f, m = c["f"], 1 << c["m"]
    g = logical_inputs(f, m, seed)
    dv = float(1 << c["div"])
    made = []

    def P(n, fl=fill):
        b = Buf(n, off=off, fill=fl)
        made.append(b)
        return b
    fp0 = L.fpenv()
    try:
        return _exec_call(L, c, fresh, f, m, g, dv, P)
    finally:
        why = L.fpenv_check(fp0)
        if why:
            raise OutOfExtent("%s m=%d: %s" % (f, m, why))
        if not all(b.canaries_ok() for b in made):
            raise OutOfExtent("%s m=%d: write outside a buffer of the declared size" % (f, m))


class OutOfExtent(Exception):
    pass


def _exec_call(L, c, fresh, f, m, g, dv, P):
    if f.startswith("reim4") and m < 4:
        return None
    if f in ("reim_fft_simple", "reim_ifft_simple", "cplx_fft_simple", "cplx_ifft_simple"):
        d = P(16 * m)
        d.f64[:] = g.integers(-1000, 1000, 2 * m).astype(np.float64)
        base = f[:-7]
        if fresh:
            t = L.fn("new_%s_precomp" % base, "p ww")(m, 0)
            L.fn(base, "v pp")(t, d.addr)
        else:
            L.fn(f, "v wp")(m, d.addr)
        return d.u8.tobytes()
    if "fftvec" in f:
        a, b, r = P(16 * m), P(16 * m), P(16 * m)
        # generic doubles (kernels that fuse or do not fuse the multiply-add differ in the last bit: the choice of the kernel may depend on
        # the table only), with a few operands in the subnormal range (their products with ordinary numbers depend on the floating-point
        # environment an earlier call may have left behind)
        a.f64[:] = g.standard_normal(2 * m) * 1000.0
        b.f64[:] = g.standard_normal(2 * m) * 1000.0
        r.f64[:] = g.standard_normal(2 * m) * 1000.0
        # (whole complex numbers in the subnormal range, in either layout: positions 0, 1, m, m + 1 are both parts of elements 0 and 1 of a
        # split vector, and of elements 0 and m/2 of an interleaved one; the accumulator is tiny there too, so the results are subnormal)
        for t, idx in enumerate(sorted(set([0, 1, m % (2 * m), (m + 1) % (2 * m)]))):
            a.f64[idx] = float(np.ldexp(1.25 + t / 8.0, -1040))
            r.f64[idx] = float(np.ldexp(1.5 - t / 8.0, -1035))
        base = f[:-7]
        if fresh:
            t = L.fn("new_%s_precomp" % base, "p w")(m)
            L.fn(base, "v pppp")(t, r.addr, a.addr, b.addr)
        else:
            L.fn(f, "v wppp")(m, r.addr, a.addr, b.addr)
        return r.u8.tobytes()
    if f == "reim_from_znx64_simple":
        x, r = P(16 * m), P(16 * m)
        x.i64[:] = g.integers(-(1 << 49), 1 << 49, 2 * m)
        if fresh:
            t = L.fn("new_reim_from_znx64_precomp", "p ww")(m, 50)
            L.fn("reim_from_znx64", "v ppp")(t, r.addr, x.addr)
        else:
            L.fn(f, "v wwpp")(m, 50, r.addr, x.addr)
        return r.u8.tobytes()
    if f == "reim_to_znx64_simple":
        bnd = BOUND[c["ovh"]]
        x, r = P(16 * m), P(16 * m)
        # values for which the choice of the kernel matters: exact ties (the two accelerated kernels round them differently) and, when the
        # declared bound allows it, magnitudes that only the wide kernel handles; a stale table then shows in the output bytes
        mag = min(bnd, 61) - 1
        v = g.integers(-(1 << 39), 1 << 39, 2 * m).astype(np.float64) + g.integers(0, 3, 2 * m) / 4.0       # fractions 0, 1/4, 1/2
        if mag > 40:
            big = g.integers(1 << (mag - 1), 1 << mag, 2 * m).astype(np.float64) * g.choice([-1.0, 1.0], 2 * m)
            v = np.where(g.integers(0, 2, 2 * m) == 1, big, v)
        # exact ties at both ends of the vector (where a kernel that treats a few head / tail elements apart would round them its own way)
        if len(v) >= 6:
            v[0:3] = [2.5, -4.5, 7.5]
            v[-3:] = [-6.5, 1.5, 8.5]
        x.f64[:] = v * dv
        if fresh:
            t = L.fn("new_reim_to_znx64_precomp", "p wdw")(m, dv, bnd)
            L.fn("reim_to_znx64", "v ppp")(t, r.addr, x.addr)
        else:
            L.fn(f, "v wdwpp")(m, dv, bnd, r.addr, x.addr)
        return r.u8.tobytes()
    if f in ("cplx_from_znx32_simple", "cplx_from_tnx32_simple"):
        x, r = P(8 * m), P(16 * m)
        x.view(np.int32)[:] = g.integers(-(1 << 31), 1 << 31, 2 * m).astype(np.int32)
        base = f[:-7]
        if fresh:
            t = L.fn("new_%s_precomp" % base, "p w")(m)
            L.fn(base, "v ppp")(t, r.addr, x.addr)
        else:
            L.fn(f, "v wpp")(m, r.addr, x.addr)
        return r.u8.tobytes()
    if f == "cplx_to_tnx32_simple":
        ovh = OVH[c["ovh"]]
        x, r = P(16 * m), P(8 * m)
        lim = max(1, (1 << ovh) - 1) if ovh else 1
        x.f64[:] = (g.integers(-lim, lim + 1, 2 * m).astype(np.float64) + g.integers(0, 8, 2 * m) / 8.0 - 0.4375) * dv
        if fresh:
            t = L.fn("new_cplx_to_tnx32_precomp", "p wdw")(m, dv, ovh)
            L.fn("cplx_to_tnx32", "v ppp")(t, r.addr, x.addr)
        else:
            L.fn(f, "v wdwpp")(m, dv, ovh, r.addr, x.addr)
        return r.u8.tobytes()
    if f in ("reim4_from_cplx_simple", "reim4_to_cplx_simple"):
        a, r = P(16 * m), P(16 * m)
        a.f64[:] = g.integers(-1000, 1000, 2 * m).astype(np.float64)
        base = f[:-7]
        if fresh:
            t = L.fn("new_%s_precomp" % base, "p w")(m)
            L.fn(base, "v ppp")(t, r.addr, a.addr)
        else:
            L.fn(f, "v wpp")(m, r.addr, a.addr)
        return r.u8.tobytes()
    raise ValueError(f)


def relevant(c):
    f = c["f"]
    if f == "reim_to_znx64_simple":
        return (f, c["m"], c["div"], BOUND[c["ovh"]])
    if f == "cplx_to_tnx32_simple":
        return (f, c["m"], c["div"], OVH[c["ovh"]])
    return (f, c["m"])


def drive_placement(rec, quick):
    """The same call with its operands at particular places relative to each other: the result immediately before or after a source,
    result and source (or the two sources) exactly 2^31 + 64, 2^32 and 2^35 bytes apart in either order.  A sparse mapping holds the
    operands; the result bytes must be those of the call on ordinary buffers, and the sources must keep their bytes."""
    import ctypes
    from props.c08 import Sparse
    from lib import NTT120
    rng = random.Random(rec.seed * 101 + 9)
    L = Lib.get()
    sp = Sparse(40 << 30)
    if sp.addr is None:
        rec.notes.append("operand placement: a sparse mapping of 40 GiB was refused by the system (not a verdict)")
        rec.data["ok"] = 0
        return
    n = 64
    modf = L.module(n, FFT64, MASK_NONE)
    modg = L.module(n, FFT64, MASK_GENERIC)
    modn = L.module(n, NTT120, MASK_NONE)
    L.set_cpu_mask(MASK_NONE)
    g = np.random.default_rng(rec.seed + 3)
    ok = 0
    X0 = 1 << 30                                       # offsets inside the mapping

    def ops():
        """(label, result bytes, [source byte strings], call(R, srcs...))"""
        a = g.integers(-(1 << 30), 1 << 30, 3 * n, dtype=np.int64)
        b = g.integers(-(1 << 30), 1 << 30, 3 * n, dtype=np.int64)
        out = []
        for mk, mod in (("fft64", modf), ("fft64-generic", modg), ("ntt120", modn)):
            for op in ("add", "sub", "copy", "negate", "rotate", "automorphism"):
                out.append(("vec_znx_%s[%s]" % (op, mk), 8 * 3 * n, [a.tobytes(), b.tobytes()],
                            lambda R, A, B, op=op, mod=mod: vecops.call_op(L, mod, op, 5, R, 3, n, A, 3, n, B, 3, n)))
            nbd = 8 * n if mk != "ntt120" else 32 * n
            nbg = 8 * n if mk != "ntt120" else 16 * n
            out.append(("vec_znx_dft[%s]" % mk, nbd * 3, [a.tobytes()], lambda R, A, mod=mod: L.call("vec_znx_dft", mod, R, 3, A, 3, n)))
            d = Buf(nbd * 3, fill=0)
            A0 = Buf(8 * 3 * n)
            A0.i64[:] = a
            L.call("vec_znx_dft", mod, d, 3, A0, 3, n)
            tmp = Buf(L.call("vec_znx_idft_tmp_bytes", mod), fill=0x55)
            out.append(("vec_znx_idft[%s]" % mk, nbg * 3, [d.u8.tobytes()],
                        lambda R, D, mod=mod, tmp=tmp: L.call("vec_znx_idft", mod, R, 3, D, 3, tmp)))
        pp = Buf(L.call("bytes_of_svp_ppol", modf), fill=0)
        s1 = Buf(8 * n)
        s1.i64[:] = g.integers(-8, 9, n, dtype=np.int64)
        L.call("svp_prepare", modf, pp, s1)
        out.append(("svp_apply_dft[fft64]", 8 * n * 3, [a.tobytes()], lambda R, A: L.call("svp_apply_dft", modf, R, 3, pp, A, 3, n)))
        for nm in ("znx_rotate_i64", "znx_automorphism_i64", "znx_mul_xp_minus_one"):
            out.append((nm, 8 * n, [a[:n].tobytes()], lambda R, A, nm=nm: L.call(nm, n, 7, R, A)))
        fa = g.integers(-1000, 1001, 2 * n).astype(np.float64)
        fb = g.integers(-1000, 1001, 2 * n).astype(np.float64)
        for nm, ctor in (("reim_fftvec_mul", "new_reim_fftvec_mul_precomp"), ("cplx_fftvec_mul", "new_cplx_fftvec_mul_precomp")):
            t = L.fn(ctor, "p w")(n)
            out.append((nm, 16 * n, [fa.tobytes(), fb.tobytes()], lambda R, A, B, nm=nm, t=t: L.fn(nm, "v pppp")(t, R, A, B)))
        import q120
        qc = q120.Q(L)
        ell = 9
        qx = g.integers(0, 1 << 63, 4 * ell, dtype=np.uint64)
        qy = g.integers(0, 1 << 63, 4 * ell, dtype=np.uint64)
        for impl in ("ref", "avx2"):
            out.append(("q120_vec_mat1col_product_bbb_" + impl, 32, [qx.tobytes(), qy.tobytes()],
                        lambda R, X, Y, impl=impl: L.fn("q120_vec_mat1col_product_bbb_" + impl, "v puppp")(qc.prod_pre("bbb"), ell, R, X, Y)))
        return out

    def run_at(call, rbytes, srcs, raddr, saddrs):
        sp.u8(raddr - sp.addr, rbytes)[:] = 0x6B
        for sa, sb in zip(saddrs, srcs):
            sp.u8(sa - sp.addr, len(sb))[:] = np.frombuffer(sb, dtype=np.uint8)
        call(ctypes.c_void_p(raddr), *[ctypes.c_void_p(x) for x in saddrs])
        res = sp.u8(raddr - sp.addr, rbytes).tobytes()
        kept = all(sp.u8(sa - sp.addr, len(sb)).tobytes() == sb for sa, sb in zip(saddrs, srcs))
        return res, kept

    for (label, rbytes, srcs, call) in ops():
        # reference: ordinary buffers
        R = Buf(rbytes, fill=0x6B)
        S = [Buf(len(x)) for x in srcs]
        for bf, x in zip(S, srcs):
            bf.u8[:] = np.frombuffer(x, dtype=np.uint8)
        call(ctypes.c_void_p(R.addr), *[ctypes.c_void_p(x.addr) for x in S])
        ref = R.u8.tobytes()
        base = sp.addr + X0
        s0 = len(srcs[0])
        places = [("result immediately before the first source", base - rbytes, [base]),
                  ("first source immediately before the result", base + s0, [base]),
                  ("result 2^32 bytes above the first source", base + (1 << 32), [base]),
                  ("result 2^32 bytes below the first source", base, [base + (1 << 32)]),
                  ("result 2^35 bytes above the first source", base + (1 << 35), [base]),
                  ("result 2^31 + 64 bytes above the first source", base + (1 << 31) + 64, [base])]
        for what, raddr, saddrs in places:
            if len(srcs) == 2:
                # the second source: far from both, or exactly 2^31 + 64 / 2^32 bytes from the first one
                saddrs = saddrs + [saddrs[0] + rng.choice([(1 << 31) + 64, 1 << 32, (3 << 30) + 4096])]
                if abs(saddrs[1] - raddr) < max(rbytes, len(srcs[1])):
                    saddrs[1] += 1 << 20
            full = "%s: %s" % (label, what)
            if not rec.progress(full):
                continue
            res, kept = run_at(call, rbytes, srcs, raddr, saddrs)
            rec.case(("placement", label, what))
            if res != ref:
                rec.violation(full + ": the result differs from the result of the same call on ordinary buffers", {"call": label, "placement": what})
            elif not kept:
                rec.violation(full + ": a source operand was modified", {"call": label, "placement": what})
            else:
                ok += 1
    for m_ in (modf, modg, modn):
        L.delete_module(m_)
    sp.close()
    rec.data["ok"] = ok


def drive_lifetimes(rec, quick):
    """Objects of one kind and dimension are independent: the result of a call on one of them is the same bytes before and after
    other objects of the same kind (same or other dimension) are created or deleted.  Every table kind that has a constructor, and
    FFT64 modules (small product).  The results are compared with the first result obtained for the same arguments."""
    import ctypes
    rng = random.Random(rec.seed * 29 + 3)
    L = Lib.get()
    free = L.libc.free

    def dbl(n, scale=1 << 20):
        return np.array([float(rng.randrange(-scale, scale)) for _ in range(n)], dtype=np.float64)

    def table_kind(name, ctor, sig, args_of, call, dtor=None):
        return (name, lambda m: L.fn(ctor, sig)(*args_of(m)), call, (lambda t: L.fn(dtor, "v p")(t)) if dtor else (lambda t: free(t)))

    def vec_call(fname, nd, out_bytes=None):
        """call fname(table, data) in place on a copy of nd doubles; returns bytes"""
        def run(t, m, data):
            B = Buf(8 * len(data), fill=0x11)
            B.f64[:] = data
            L.fn(fname, "v pp")(t, B.addr)
            return B.u8.tobytes() if B.canaries_ok() else None
        return run

    def conv_call(fname, in_kind, out_bytes_per_m):
        def run(t, m, data):
            X = Buf(8 * len(data), fill=0x11)
            if in_kind == "i64":
                X.i64[:] = data.astype(np.int64)
            elif in_kind == "i32":
                X = Buf(4 * len(data), fill=0x11)
                X.view(np.int32)[:] = data.astype(np.int32)
            else:
                X.f64[:] = data
            R = Buf(out_bytes_per_m * m, fill=0x22)
            L.fn(fname, "v ppp")(t, R.addr, X.addr)
            return R.u8.tobytes() if (R.canaries_ok() and X.canaries_ok()) else None
        return run

    def pw_call(fname):
        def run(t, m, data):
            A, B, R = Buf(16 * m, fill=0x11), Buf(16 * m, fill=0x12), Buf(16 * m, fill=0x13)
            A.f64[:] = data[:2 * m]
            B.f64[:] = data[::-1][:2 * m]
            R.f64[:] = data[:2 * m] * 3.0
            L.fn(fname, "v pppp")(t, R.addr, A.addr, B.addr)
            return R.u8.tobytes() if all(x.canaries_ok() for x in (A, B, R)) else None
        return run

    def q120_call(fname):
        def run(t, n, data):
            B = Buf(32 * n, fill=0x11)
            B.u64[:] = (data[:4 * n].astype(np.int64).view(np.uint64) * np.uint64(0x9E3779B97F4A7C15))
            L.fn(fname, "v pp")(t, B.addr)
            return B.u8.tobytes() if B.canaries_ok() else None
        return run

    kinds = [
        table_kind("reim_fft", "new_reim_fft_precomp", "p ww", lambda m: (m, 0), vec_call("reim_fft", 2)),
        table_kind("reim_ifft", "new_reim_ifft_precomp", "p ww", lambda m: (m, 0), vec_call("reim_ifft", 2)),
        table_kind("cplx_fft", "new_cplx_fft_precomp", "p ww", lambda m: (m, 0), vec_call("cplx_fft", 2)),
        table_kind("cplx_ifft", "new_cplx_ifft_precomp", "p ww", lambda m: (m, 0), vec_call("cplx_ifft", 2)),
        table_kind("reim_fftvec_mul", "new_reim_fftvec_mul_precomp", "p w", lambda m: (m,), pw_call("reim_fftvec_mul")),
        table_kind("reim_fftvec_addmul", "new_reim_fftvec_addmul_precomp", "p w", lambda m: (m,), pw_call("reim_fftvec_addmul")),
        table_kind("cplx_fftvec_mul", "new_cplx_fftvec_mul_precomp", "p w", lambda m: (m,), pw_call("cplx_fftvec_mul")),
        table_kind("cplx_fftvec_addmul", "new_cplx_fftvec_addmul_precomp", "p w", lambda m: (m,), pw_call("cplx_fftvec_addmul")),
        table_kind("reim4_fftvec_mul", "new_reim4_fftvec_mul_precomp", "p w", lambda m: (m,), pw_call("reim4_fftvec_mul")),
        table_kind("reim4_fftvec_addmul", "new_reim4_fftvec_addmul_precomp", "p w", lambda m: (m,), pw_call("reim4_fftvec_addmul")),
        table_kind("reim_from_znx64", "new_reim_from_znx64_precomp", "p ww", lambda m: (m, 50), conv_call("reim_from_znx64", "i64", 16)),
        table_kind("reim_to_znx64", "new_reim_to_znx64_precomp", "p wdw", lambda m: (m, 4.0, 60), conv_call("reim_to_znx64", "f64", 16)),
        table_kind("reim_to_tnx", "new_reim_to_tnx_precomp", "p wdw", lambda m: (m, 8.0, 20), conv_call("reim_to_tnx", "f64", 16)),
        table_kind("cplx_from_znx32", "new_cplx_from_znx32_precomp", "p w", lambda m: (m,), conv_call("cplx_from_znx32", "i32", 16)),
        table_kind("cplx_from_tnx32", "new_cplx_from_tnx32_precomp", "p w", lambda m: (m,), conv_call("cplx_from_tnx32", "i32", 16)),
        table_kind("cplx_to_tnx32", "new_cplx_to_tnx32_precomp", "p wdw", lambda m: (m, 16.0 * 1048576.0, 20), conv_call("cplx_to_tnx32", "f64", 8)),
        table_kind("q120_ntt", "q120_new_ntt_bb_precomp", "p u", lambda m: (m,), q120_call("q120_ntt_bb_avx2"), "q120_del_ntt_bb_precomp"),
        table_kind("q120_intt", "q120_new_intt_bb_precomp", "p u", lambda m: (m,), q120_call("q120_intt_bb_avx2"), "q120_del_intt_bb_precomp"),
    ]
    ok = 0
    events = []
    ids = {}

    def hash2(b):
        d = hashlib.sha256(b).digest()
        return int.from_bytes(d[:4], "little") & 0x7FFFFFFF, int.from_bytes(d[4:8], "little") & 0x7FFFFFFF

    counter = [0]

    def ev_new(obj, key):
        counter[0] += 1                  # an identifier is never reused, an address may be
        ids[obj] = counter[0]
        events.append({"e": "New", "id": ids[obj], "key": key, "_what": "constructor of %s" % key})

    def ev_del(obj):
        events.append({"e": "Del", "id": ids.pop(obj), "_what": "destructor"})

    for (name, make0, call, delete0) in kinds:
        def make(mm, make0=make0, name=name):
            t = make0(mm)
            ev_new(("t", t), "%s/%d" % (name, mm))
            return t

        def delete(t, delete0=delete0):
            ev_del(("t", t))
            delete0(t)
        for m in ([64, 16, 4] if quick else [1024, 64, 16, 4, 8]):      # descending: a later, smaller table must not inherit a choice made for a larger one
            data = dbl(4 * m)
            first = {}

            def use(t, mm, what):
                nonlocal ok
                label = "%s m=%d on a table of its own, %s" % (name, mm, what)
                if not rec.progress(label):
                    return
                fp0 = L.fpenv()
                got = call(t, mm, data if mm == m else data2)
                why = L.fpenv_check(fp0)
                rec.case(("lifetime", name, mm == m, what))
                if got is None or why:
                    rec.violation(label + ": " + (why or "write outside a buffer"), {"kind": name, "m": mm})
                else:
                    h1, h2 = hash2(got)
                    events.append({"e": "Use", "id": ids[("t", t)], "arg": "data of the m=%d pass for dimension %d" % (m, mm), "h1": h1, "h2": h2, "_what": label})
                    ok += 1
                # the caller's rounding mode is the caller's: the same call under round-down and round-up must leave the control state as
                # it found it (the values computed under a directed mode are not judged)
                if what.startswith("first"):
                    setr = L.fn("vh_fpenv_set_round", "v w", L.vh)
                    for mode, mname in ((1, "round-down"), (2, "round-up")):
                        setr(mode)
                        fp1 = L.fpenv()
                        call(t, mm, data if mm == m else data2)
                        why2 = L.fpenv_check(fp1)
                        setr(0)
                        if why2:
                            rec.violation("%s m=%d called in %s mode: %s" % (name, mm, mname, why2), {"kind": name, "m": mm})
            data2 = dbl(8 * m)
            t1, t2 = make(m), make(m)
            use(t1, m, "first of two live tables")
            use(t2, m, "second of two live tables")
            delete(t1)
            use(t2, m, "after the other table of this dimension was deleted")
            t3, t4 = make(m), make(2 * m)
            use(t2, m, "after two more tables were created")
            use(t3, m, "third table of this dimension")
            use(t4, 2 * m, "table of the double dimension")
            delete(t2)
            use(t3, m, "after the second table was deleted")
            use(t4, 2 * m, "table of the double dimension, after a delete")
            delete(t4)
            use(t3, m, "after the table of the double dimension was deleted")
            delete(t3)
    # FFT64 modules under both dispatch configurations
    for n in ([16, 256] if quick else [2, 16, 256, 4096]):
        for mask in (MASK_NONE, MASK_GENERIC):
            a = np.array([rng.randrange(-(1 << 20), 1 << 20) for _ in range(n)], dtype=np.int64)
            b = np.array([rng.randrange(-(1 << 20), 1 << 20) for _ in range(n)], dtype=np.int64)
            first = {}

            def prod(mod, what):
                nonlocal ok
                label = "znx_small_single_product N=%d mask=%d, %s" % (n, mask, what)
                if not rec.progress(label):
                    return
                A, B, R = Buf(8 * n, fill=0x11), Buf(8 * n, fill=0x12), Buf(8 * n, fill=0x13)
                A.i64[:], B.i64[:] = a, b
                T = Buf(L.call("znx_small_single_product_tmp_bytes", mod), fill=0x14)
                L.call("znx_small_single_product", mod, R, A, B, T)
                rec.case(("lifetime", "module", mask, what))
                got = R.u8.tobytes()
                if not all(x.canaries_ok() for x in (A, B, R, T)):
                    rec.violation(label + ": write outside a buffer", {"N": n})
                else:
                    h1, h2 = hash2(got)
                    events.append({"e": "Use", "id": ids[("m", mod)], "arg": "ab", "h1": h1, "h2": h2, "_what": label})
                    ok += 1

            def new_mod(nn, mk):
                mo = L.module(nn, FFT64, mk)
                ev_new(("m", mo), "fft64/%d/mask%d" % (nn, mk))
                return mo

            def del_mod(mo):
                ev_del(("m", mo))
                L.delete_module(mo)
            m1, m2 = new_mod(n, mask), new_mod(n, mask)
            prod(m1, "first of two live modules")
            prod(m2, "second of two live modules")
            del_mod(m1)
            prod(m2, "after the other module of this dimension was deleted")
            m3, m4 = new_mod(n, mask), new_mod(2 * n, MASK_NONE)
            prod(m2, "after two more modules were created")
            prod(m3, "third module of this dimension")
            del_mod(m2)
            del_mod(m4)
            prod(m3, "after two deletes")
            del_mod(m3)
    L.set_cpu_mask(MASK_NONE)
    rec.data["ok"] = ok
    rec.data["events"] = events


def drive_hist(rec, hists):
    rng = random.Random(rec.seed)
    L = Lib.get()
    L.events_enable(1 << 16)
    outs = {}
    opid = {}
    events = []
    ncalls = 0
    for h in hists:
        for c in h:
            key = relevant(c)
            k = opid.setdefault(key, len(opid))
            label = "%s via the cache, after %d calls" % (key, ncalls)
            if not rec.progress(label):
                continue
            L.events(clear=True)
            try:
                out = exec_call(L, c, False, rng.choice([0, 8, 16, 24, 32, 40, 48, 56]), rng.choice([0x00, 0xFF, 0x7F]), rec.seed)
            except OutOfExtent as e:
                rec.violation("%s after %d calls of a history: %s" % (key, ncalls, e), {"call": c, "after_calls": ncalls})
                L.events(clear=True)
                continue
            if out is None:
                continue
            ncalls += 1
            raw = L.events(clear=True)
            hsh = int.from_bytes(hashlib.sha256(out).digest()[:8], "little")
            ev_enter = {"e": "Enter", "tid": 0, "cls": "simple", "op": k}
            if len(key) == 4:
                ev_enter.update(m=1 << key[1], div=key[2], bnd=key[3])
            events.append(ev_enter)
            for ev in to_events(raw):
                ev.pop("seq", None)
                ev["tid"] = 0
                events.append(ev)
            events.append({"e": "Exit", "tid": 0, "cls": "simple", "op": k, "h1": hsh & 0x7FFFFFFF, "h2": (hsh >> 31) & 0x7FFFFFFF})
            rec.case(("hist", key))
            first = outs.setdefault(key, out)
            if first != out:
                rec.violation("%s returned different bytes than an earlier identical call (history dependence)" % (key,),
                              {"call": c, "after_calls": ncalls})
            # the same logical call on a freshly built table, other offset / prefill
            if c.get("fresh") or rng.random() < 0.5:
                try:
                    fo = exec_call(L, c, True, rng.choice([0, 8, 24, 56]), rng.choice([0x00, 0xFF]), rec.seed)
                except OutOfExtent:
                    fo = None
                L.events(clear=True)
                if fo != out:
                    rec.violation("%s through the cache differs from the same call on a freshly built table" % (key,),
                                  {"call": c, "after_calls": ncalls})
    rec.data["events"] = events
    rec.data["calls"] = ncalls
    rec.data["logical"] = len(opid)


def obj_digest(m):
    """raw bytes of every defined limb of every object (padding excluded)"""
    h = hashlib.sha256()
    for nm in sorted(m.objs):
        o = m.objs[nm]
        for i in range(o.cap):
            if o.defined[i] and o.kind != "pmat":
                lo, hi = m.limb_range(o, i)
                h.update(o.buf.u8[lo:hi].tobytes())
        if o.kind == "pmat" and all(o.defined):
            h.update(o.buf.u8.tobytes())
    return h.hexdigest()


def drive_programs(rec, programs, part, nparts):
    rng = random.Random(rec.seed * 17 + part)
    L = Lib.get()
    ok = 0
    for idx, prog in enumerate(programs):
        if idx % nparts != part:
            continue
        t = rng.choice([1, 2, 4, 16, 64])
        mask = rng.choice([MASK_NONE, MASK_GENERIC]) if prog["mod"] == "FFT64" else MASK_NONE
        digests = []
        for variant in range(2):
            fill = [0x00, 0xFF, 0x7F, 0x5C][(idx + variant * 2) % 4]
            off = [0, 8, 16, 24, 32, 40, 48, 56][(idx * 3 + variant * 5) % 8]
            m = progs.Machine(L, prog, t, mask, random.Random(idx), fill, off)
            ds = []
            bad = None
            for i, st in enumerate(prog["steps"]):
                if not rec.progress("program %d variant %d step %d: %s N=%d" % (idx, variant, i, progs.describe(st), m.n)):
                    bad = "skipped"
                    break
                if variant == 1 and prog["mod"] == "FFT64" and i % 3 == 0:
                    # an unrelated call in between: another module, other data
                    junk = Buf(8 * 16, fill=0x33)
                    other = L.module(16, FFT64, MASK_NONE)
                    L.call("vec_znx_negate", other, junk, 1, 16, junk, 1, 16)
                    L.delete_module(other)
                why = m.step(st)
                if why:
                    bad = why
                    rec.violation("program step %d (%s) N=%d mask=%d fill=%#x off=%d: %s" % (
                        i, progs.describe(st), m.n, mask, fill, off, why), {"program": prog, "t": t, "step": i})
                    break
                ds.append(obj_digest(m))
                rec.case((st["op"], prog["mod"], mask, "prefill/offset variant"))
            m.close()
            digests.append(None if bad else ds)
        if digests[0] and digests[1]:
            for i, (x, y) in enumerate(zip(*digests)):
                if x != y:
                    rec.violation("program step %d (%s) N=%d: object bytes depend on prefill / alignment / interleaved calls" % (
                        i, progs.describe(prog["steps"][i]), prog["N0"] * t), {"program": prog, "t": t, "step": i})
                    break
            else:
                ok += 1
    rec.data["ok"] = ok


def run(chk, replay=None):
    quick = chk.tier == "quick"
    Lib.get()
    chk.assumptions += ["inputs of a logical call are a function of (function, dimension, seed); all executions must agree byte for byte",
                        "reim_from_znx32/tnx32/to_tnx32_simple have no in-domain call (their kernels are NOT_IMPLEMENTED stubs) and are not driven"]
    # the storage behind modules and tables: every object its own table (the code), or shared and counted - safe; shared and freed by
    # the first delete - the witness that the safety invariant is not vacuous
    for cfg in ("Lifecycle_own.cfg", "Lifecycle_refcount.cfg"):
        rl = run_tlc("Lifecycle", cfg, workers=4, name="c15-" + cfg, timeout=600)
        tlc_must_pass(rl, cfg)
        chk.add_tlc(rl, "object life cycles, all histories of 9 steps over 3 objects and 2 keys (%s)" % cfg)
    rl = run_tlc("Lifecycle", "Lifecycle_mut.cfg", workers=4, name="c15-lifecycle-mut", timeout=600)
    chk.cov["shared_table_freed_by_first_delete_rejected_by_model"] = (rl.violation == "UseSafe")
    if rl.violation != "UseSafe":
        chk.notes.append("Lifecycle_mut.cfg did not violate UseSafe: the life-cycle invariant may be vacuous")
    r = run_tlc("SimpleCache", "SimpleCache_seq.cfg", workers=16, xmx="16g", name="c15-seq", timeout=1800)
    tlc_must_pass(r, "SimpleCache sequential histories")
    chk.add_tlc(r, "all histories of 4 calls over 4 functions x 2 dims x 2 divisors x 2 bounds")
    r = run_tlc("SimpleCache", "SimpleCache_hist.cfg", workers=1, simulate=8 if quick else 60, depth=400, tlc_seed=chk.seed,
                name="c15-hist", timeout=900)
    if not r.ok:
        raise Infra("history generation failed: " + r.out[-1500:])
    chk.add_tlc(r, "history generation")
    hists = printed_json(r, "HISTORY")
    if not hists:
        raise Infra("no history generated")
    # a fixed prologue (the replay runs in a fresh process): pointwise calls, then every transform of every small dimension, then the same
    # pointwise calls again: whatever a transform leaves behind in the process (tables, floating-point environment) must not show
    pw = [{"f": f, "m": 3, "div": 0, "ovh": 0} for f in ("reim_fftvec_mul_simple", "reim_fftvec_addmul_simple", "cplx_fftvec_mul_simple",
                                                          "cplx_fftvec_addmul_simple", "reim4_fftvec_mul_simple", "reim4_fftvec_addmul_simple")]
    tr = [{"f": f, "m": mm, "div": 0, "ovh": 0} for mm in range(0, 7) for f in ("reim_fft_simple", "reim_ifft_simple", "cplx_fft_simple", "cplx_ifft_simple")]
    hists.insert(0, pw + tr + pw)
    # every convenience function over every dimension, up and then down, each call compared with a freshly built table: the slot a
    # dimension lands in must be its own, whatever was used before
    allf = ["reim_fft_simple", "reim_ifft_simple", "reim_fftvec_mul_simple", "reim_fftvec_addmul_simple", "reim_from_znx64_simple",
            "reim_to_znx64_simple", "cplx_fft_simple", "cplx_ifft_simple", "cplx_fftvec_mul_simple", "cplx_fftvec_addmul_simple",
            "cplx_from_znx32_simple", "cplx_from_tnx32_simple", "cplx_to_tnx32_simple", "reim4_fftvec_mul_simple", "reim4_fftvec_addmul_simple",
            "reim4_from_cplx_simple", "reim4_to_cplx_simple"]
    dims = list(range(0, 17 if not quick else 15)) + ([16] if quick else [])
    hists.insert(1, [{"f": f, "m": mm, "div": 2, "ovh": 2, "fresh": True} for mm in dims + dims[::-1] for f in allf])
    # directed histories of the two functions whose thread-local table is keyed by (m, divisor, bound / overhead): a long random walk over
    # a small key space visits (almost) every ordered triple of keys, i.e. every way a stale key component can be left behind
    rngd = random.Random(chk.seed * 5 + 1)
    for f in ("reim_to_znx64_simple", "cplx_to_tnx32_simple"):
        keys = [{"f": f, "m": mm, "div": dd, "ovh": oo} for mm in (3, 4) for dd in (0, 2) for oo in (0, 1, 2, 5)]
        hists.append([dict(rngd.choice(keys)) for _ in range(1500 if quick else 12000)])
    d = isolated(chk, "replay of call histories of the *_simple functions", drive_hist, (hists,), timeout=1800)
    events = d["events"] if d else []
    chk.cov["history_calls"] = d["calls"] if d else 0
    chk.cov["logical_calls"] = d["logical"] if d else 0
    chk.traces += len(hists) if d else 0
    chk.sample({"history_prefix": hists[0][:5]})
    bad, results = validate_events("SimpleCacheTrace", "SimpleCacheTrace.cfg", events, "c15", nproc=1, timeout=900)
    for rr in results:
        chk.add_tlc(rr, "trace validation of the cache events")
    chk.cov["events_validated"] = len(events)
    for b in bad[:10]:
        chk.violation("history replay: event %d %s: the table used does not match the call, or the result differs from an "
                      "earlier identical call" % (b, events[b]), {"event": events[b], "slice": events[max(0, b - 4):b + 2]})
    dp = isolated(chk, "operands at particular places relative to each other", drive_placement, (quick,), timeout=1200)
    chk.traces += dp["ok"] if dp else 0
    chk.cov["placement_calls_identical"] = dp["ok"] if dp else 0
    dl = isolated(chk, "lifetimes of tables and modules", drive_lifetimes, (quick,), timeout=1200)
    lev = dl["events"] if dl else []
    badl, resl = validate_events("LifecycleTrace", "LifecycleTrace.cfg", [{k: v for k, v in e.items() if not k.startswith("_")} for e in lev],
                                 "c15-life", nproc=1, timeout=900)
    for rr in resl:
        chk.add_tlc(rr, "trace validation of object life cycles")
    for b in badl[:10]:
        chk.violation("life cycle event %d (%s): the result differs from the result of the same call on another object of the same kind "
                      "and dimension, or at another point of the history" % (b, lev[b]["_what"]), {"event": lev[b]})
    chk.traces += (dl["ok"] if dl else 0) - len([b for b in badl if lev[b]["e"] == "Use"])
    chk.cov["lifetime_events_validated"] = len(lev)
    programs = c16.generate(chk, ["Spqlios_sim.cfg", "Spqlios_sim_ntt.cfg"], 20 if quick else 200, 16, "c15")
    res = isolated_many(chk, [("programs under prefill/offset/interleaving variants, part %d" % i, drive_programs, (programs, i, 8))
                              for i in range(8)], timeout=2400, nproc=8)
    chk.traces += sum(x["ok"] for x in res if x)
    chk.cov["programs_with_identical_bytes_across_variants"] = sum(x["ok"] for x in res if x)
    chk.cov["exhaustive"] = True
    chk.cov["box"] = "model: all sequential histories of <= 4 calls; replay: simulated histories of 60 calls over 17 functions, 7 dimensions"
    chk.cov["rule"] = "one case = logical call (function, dimension[, divisor, bound]) in a history, or (entry point, module, mask) under variants"
