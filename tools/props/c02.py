"""C02 - vector-matrix product equals the naive polynomial product for all shapes.

 1. TLC exhaustive: Vmp.tla (prepared-layout address map, block / column-pair / odd-last / N<8 paths, zero fill) for
    nrows, ncols in 1..4, a_size, res_size in 0..5, N in {2,4,8,16}: accumulated product sets = definition, no address
    outside the prepared matrix, scratch within *_tmp_bytes, termination; layout injective and exactly filling.
 2. direction A: the 576 shape tuples with concrete integer matrices (expected product computed by TLC in
    Z[X]/(X^2+1)) replayed on the real library lifted to N = 2..65536, vmp_apply_dft and vec_znx_dft +
    vmp_apply_dft_to_dft, AVX and generic dispatch, exact-size scratch and objects.
 3. direction B: larger random shapes with dense small operands recorded and re-computed by TLC.
"""
import random

import numpy as np

from common import run_tlc, tlc_must_pass, printed_json, validate_events, Infra, isolated_many
from lib import Lib, Buf, FFT64, MASK_NONE, MASK_GENERIC, ro

LEVEL = "model_checking"


def vmp_run(L, mod, n, mat, nrows, ncols, a, rs, entry, rng, a_pad=0, fill=0xFF, off=0, a_fill=0x3C, reuse=False):
    """mat: list of nrows*ncols int vectors (len n); a: list of int vectors. Returns (list of rs int64 vectors, None)
    or (None, reason)."""
    a_size = len(a)
    a_sl = n + a_pad
    M = Buf(8 * n * nrows * ncols, off=off, fill=0x3C)
    for k, v in enumerate(mat):
        M.i64[k * n:(k + 1) * n] = v
    A = Buf(8 * ((a_size - 1) * a_sl + n) if a_size else 0, off=off, fill=a_fill)      # a_fill: what lies between the limbs
    for k, v in enumerate(a):
        A.i64[k * a_sl:k * a_sl + n] = v
    pm = Buf(L.call("bytes_of_vmp_pmat", mod, nrows, ncols), off=off, fill=fill)
    t1 = Buf(L.call("vmp_prepare_contiguous_tmp_bytes", mod, nrows, ncols), off=off, fill=fill)
    if reuse:                                          # the prepared-matrix buffer held another (dense) matrix before
        J = Buf(8 * n * nrows * ncols, fill=0x3C)
        J.i64[:] = [rng.randrange(-5, 6) or 1 for _ in range(n * nrows * ncols)]
        L.call("vmp_prepare_contiguous", mod, pm, J, nrows, ncols, t1)
    m0, a0 = M.snapshot(), A.snapshot()
    with ro(M):
        L.call("vmp_prepare_contiguous", mod, pm, M, nrows, ncols, t1)
    if not (pm.canaries_ok() and t1.canaries_ok() and M.canaries_ok()):
        return None, "vmp_prepare_contiguous wrote outside its output or scratch"
    pm0 = pm.snapshot()
    R = Buf(L.call("bytes_of_vec_znx_dft", mod, rs), off=off, fill=fill)
    if entry == "from_znx":
        t2 = Buf(L.call("vmp_apply_dft_tmp_bytes", mod, rs, a_size, nrows, ncols), off=off, fill=fill)
        with ro(A, pm):
            L.call("vmp_apply_dft", mod, R, rs, A, a_size, a_sl, pm, nrows, ncols, t2)
        extra = []
    else:
        D = Buf(L.call("bytes_of_vec_znx_dft", mod, a_size), off=off, fill=fill)
        L.call("vec_znx_dft", mod, D, a_size, A, a_size, a_sl)
        d0 = D.snapshot()
        t2 = Buf(L.call("vmp_apply_dft_to_dft_tmp_bytes", mod, rs, a_size, nrows, ncols), off=off, fill=fill)
        with ro(D, pm):
            L.call("vmp_apply_dft_to_dft", mod, R, rs, D, a_size, pm, nrows, ncols, t2)
        if not D.canaries_ok() or not np.array_equal(D.u8, d0):
            return None, "the DFT input vector was modified"
        extra = [D]
    if not (R.canaries_ok() and t2.canaries_ok() and pm.canaries_ok() and A.canaries_ok()):
        return None, "write outside the result, the scratch (*_tmp_bytes) or an operand"
    # the prepared matrix is used a second time, into another result buffer with another scratch content: the same bytes
    R2 = Buf(L.call("bytes_of_vec_znx_dft", mod, rs), off=off, fill=fill ^ 0x5A)
    t2b = Buf(t2.nbytes, off=off, fill=fill ^ 0xA5)
    if entry == "from_znx":
        L.call("vmp_apply_dft", mod, R2, rs, A, a_size, a_sl, pm, nrows, ncols, t2b)
    else:
        L.call("vmp_apply_dft_to_dft", mod, R2, rs, extra[0], a_size, pm, nrows, ncols, t2b)
    if not (R2.canaries_ok() and t2b.canaries_ok()) or not np.array_equal(R2.u8, R.u8):
        return None, "a second application of the same prepared matrix to the same vector gives other bytes"
    if not (np.array_equal(pm.u8, pm0) and np.array_equal(M.u8, m0) and np.array_equal(A.u8, a0)):
        return None, "a source operand (matrix, prepared matrix or vector) was modified"
    G = Buf(L.call("bytes_of_vec_znx_big", mod, rs), off=off, fill=fill)
    t3 = Buf(L.call("vec_znx_idft_tmp_bytes", mod), fill=fill)
    L.call("vec_znx_idft", mod, G, rs, R, rs, t3)
    return [G.i64[j * n:(j + 1) * n].copy() for j in range(rs)], None


def lift(tup, n, t):
    v = np.zeros(n, dtype=np.int64)
    v[::t] = tup
    return v


def drive_a(rec, cases, part, nparts, ts_small, ts_big):
    rng = random.Random(rec.seed * 17 + part)
    L = Lib.get()
    mods = {}
    ok = 0
    for idx, c in enumerate(cases):
        if idx % nparts != part:
            continue
        ts = list(ts_small)
        if idx % 37 == part % 37:
            ts.append(rng.choice(ts_big))
        for t in ts:
            n = 2 * t
            for mask in (MASK_NONE, MASK_GENERIC):
                if (n, mask) not in mods:
                    mods[(n, mask)] = L.module(n, FFT64, mask)
                    L.set_cpu_mask(MASK_NONE)
                for entry in ("from_znx", "from_dft"):
                    label = "vmp %s N=%d mask=%d nrows=%d ncols=%d a_size=%d res_size=%d" % (
                        entry, n, mask, c["nrows"], c["ncols"], c["as"], c["rs"])
                    if not rec.progress(label):
                        continue
                    got, why = vmp_run(L, mods[(n, mask)], n, [lift(m, n, t) for m in c["mat"]], c["nrows"], c["ncols"],
                                       [lift(x, n, t) for x in c["a"]], c["rs"], entry, rng,
                                       a_pad=rng.choice([0, 1, 8]), fill=rng.choice([0xFF, 0x00, 0x7F]),
                                       off=rng.choice([0, 8, 16, 24]))
                    rec.case((entry, mask, "small" if n < 8 else "block", c["nrows"], c["ncols"], c["as"], c["rs"]),
                             nontrivial=c["rs"] > 0)
                    if got is None:
                        rec.violation(label + ": " + why, {"case": c, "N": n, "mask": mask, "entry": entry})
                        continue
                    for j in range(c["rs"]):
                        if not np.array_equal(got[j], lift(c["res"][j], n, t)):
                            rec.violation(label + ": column %d differs from the product computed by the specification" % j,
                                          {"case": c, "N": n, "mask": mask, "entry": entry, "column": j,
                                           "got_nonzero": [[int(i), int(v)] for i, v in enumerate(got[j]) if v][:16]})
                            break
                    else:
                        ok += 1
    rec.data["ok"] = ok


def drive_b(rec, part, count):
    rng = random.Random(rec.seed * 313 + part)
    L = Lib.get()
    events = []
    mods = {}
    for it in range(count):
        n = rng.choice([2, 4, 8, 8, 16, 32])
        nrows, ncols = rng.randrange(1, 9), rng.randrange(1, 9)
        a_size, rs = rng.randrange(0, 11), rng.randrange(0, 11)
        if it % 6 == 5:                      # beyond 8 rows / columns, sizes beyond the matrix, multiples of 8 against odd counts
            nrows, ncols = rng.choice([8, 9, 12, 15, 16, 17]), rng.choice([1, 3, 7, 8, 9, 16, 17])
            a_size, rs = rng.choice([nrows - 1, nrows, nrows + 1, nrows + 5]), rng.choice([ncols - 1, ncols, ncols + 1, ncols + 4])
            n = rng.choice([2, 8, 16])
        if it % 12 == 11:                    # many rows (the documented range goes to 200), few columns
            nrows, ncols = rng.choice([65, 66, 70, 128, 129, 200]), rng.choice([1, 2, 3])
            a_size, rs = rng.choice([nrows, nrows, nrows - 1, nrows + 1]), rng.choice([ncols, ncols, ncols + 1])
            n = rng.choice([8, 16])
        mask = rng.choice([MASK_NONE, MASK_GENERIC])
        if (n, mask) not in mods:
            mods[(n, mask)] = L.module(n, FFT64, mask)
            L.set_cpu_mask(MASK_NONE)
        mat = [[rng.randrange(-3, 4) for _ in range(n)] for _ in range(nrows * ncols)]
        a = [[rng.randrange(-3, 4) for _ in range(n)] for _ in range(a_size)]
        family = rng.choice(["dense", "dense", "null-limbs", "null-entries", "unit", "cancel"])
        if family == "null-limbs":                     # whole limbs of the vector are the zero polynomial
            a = [x if rng.random() < 0.5 else [0] * n for x in a]
        elif family == "null-entries":                 # whole entries / rows / columns of the matrix are zero
            zr, zc = rng.randrange(nrows), rng.randrange(ncols)
            mat = [([0] * n if (rng.random() < 0.3 or k // ncols == zr or k % ncols == zc) else v) for k, v in enumerate(mat)]
        elif family == "cancel" and a_size >= 2:       # the limbs of the vector (and the rows of the matrix) cancel: their sum is the zero polynomial
            v = a[0]
            cs = [rng.choice([1, -1, 2]) for _ in range(a_size - 1)]
            a = [[c * x for x in v] for c in cs] + [[-sum(cs) * x for x in v]]
            if rng.random() < 0.5 and nrows >= 2:
                for j in range(ncols):
                    mat[(nrows - 1) * ncols + j] = [-sum(mat[i * ncols + j][t] for i in range(nrows - 1)) for t in range(n)]
        elif family == "unit" and a_size:              # the vector selects one row
            k = rng.randrange(a_size)
            a = [([1] + [0] * (n - 1)) if i == k else [0] * n for i in range(a_size)]
        entry = rng.choice(["from_znx", "from_dft"])
        a_pad = rng.choice([0, 3, n, n, 3 * n])        # strides N, N+3, 2N, 4N
        a_fill = rng.choice([0x3C, 0x00])              # between the limbs: a pattern, or zeros
        reuse = rng.random() < 0.4
        label = "vmp %s N=%d mask=%d nrows=%d ncols=%d a_size=%d res_size=%d (%s, a_sl=%d, gap fill %#x%s)" % (
            entry, n, mask, nrows, ncols, a_size, rs, family, n + a_pad, a_fill, ", prepared buffer reused" if reuse else "")
        if not rec.progress(label):
            continue
        got, why = vmp_run(L, mods[(n, mask)], n, mat, nrows, ncols, a, rs, entry, rng, a_pad=a_pad, off=rng.choice([0, 8, 16, 24]),
                           a_fill=a_fill, reuse=reuse)
        rec.case(("B", entry, mask, n, min(nrows, 4), min(ncols, 4), min(a_size, 5), min(rs, 5)), nontrivial=rs > 0)
        if got is None:
            rec.violation(label + ": " + why, {"N": n, "nrows": nrows, "ncols": ncols, "a_size": a_size, "res_size": rs})
            continue
        events.append({"e": "Vmp", "N": n, "nrows": nrows, "ncols": ncols, "mat": mat, "a": a, "rs": rs,
                       "res": [[int(v) for v in g] for g in got], "_what": label})
        # the same product with every matrix coefficient times 2^32 (or 2^20, 2^33): exactly the recorded result times that factor - a
        # coefficient whose low half is zero is still a coefficient
        if it % 2 == 1 and nrows <= 17 and rs:
            sh = rng.choice([32, 32, 20, 33])
            which = rng.choice(["matrix", "vector"])
            mat2 = [[x << sh for x in v] for v in mat] if which == "matrix" else mat
            a2 = a if which == "matrix" else [[x << sh for x in v] for v in a]
            got2, why2 = vmp_run(L, mods[(n, mask)], n, mat2, nrows, ncols, a2, rs, entry, rng, a_pad=a_pad,
                                 off=rng.choice([0, 8]), a_fill=a_fill)
            rec.case(("B-scaled", entry, mask, n, sh, which))
            if got2 is None:
                rec.violation(label + " with the %s times 2^%d: %s" % (which, sh, why2), {"N": n})
            elif any(not np.array_equal(g2, g * (1 << sh)) for g2, g in zip(got2, got)):
                rec.violation(label + ": with every %s coefficient times 2^%d the product is not the recorded product times 2^%d" % (which, sh, sh),
                              {"N": n, "nrows": nrows, "ncols": ncols, "shift": sh, "scaled": which})
    rec.data["events"] = events


def run(chk, replay=None):
    quick = chk.tier == "quick"
    Lib.get()
    chk.assumptions += ["operands are small integers: every FFT64 operation is exact far inside the C01 budget, results compared exactly",
                        "the result is projected with the library's own vec_znx_idft (opaque DFT objects)"]
    r = run_tlc("Vmp", ("Vmp_quick.cfg" if quick else "Vmp_thorough.cfg"), workers=16, coverage=True, name="c02-mc")
    tlc_must_pass(r, "Vmp exhaustive")
    chk.add_tlc(r, "exhaustive + liveness")
    never = [a for a, (t, g) in r.coverage.items() if t == 0 and a != "Done"]
    if never:
        chk.notes.append("actions never taken: %s" % never)
    r = run_tlc("Vmp", "Vmp_gen.cfg" if quick else "Vmp_gen_thorough.cfg", workers=1, name="c02-gen", timeout=1800)
    tlc_must_pass(r, "Vmp gen")
    chk.add_tlc(r, "behaviour generation")
    cases = printed_json(r, "CASE")
    if len(cases) < 100:
        raise Infra("Vmp_gen produced %d cases" % len(cases))
    nparts = 12
    ts_small = [1, 2, 4, 8] if quick else [1, 2, 4, 8, 16, 32]
    ts_big = [128, 1024, 8192, 32768]
    res = isolated_many(chk, [("replay of VMP shapes part %d" % i, drive_a, (cases, i, nparts, ts_small, ts_big))
                              for i in range(nparts)], timeout=2400, nproc=12)
    ok = sum(d["ok"] for d in res if d)
    chk.traces += ok
    chk.cov["behaviours_replayed"] = ok
    chk.sample({"direction": "A", "case": cases[len(cases) // 2]})
    res = isolated_many(chk, [("dense VMP shapes part %d" % i, drive_b, (i, 25 if quick else 200)) for i in range(8)],
                        timeout=900, nproc=8)
    events = [ev for d in res if d for ev in d["events"]]
    clean = [{k: v for k, v in ev.items() if not k.startswith("_")} for ev in events]
    bad, results = validate_events("VmpTrace", "VmpTrace.cfg", clean, "c02", nproc=8, timeout=1800)
    for rr in results:
        chk.add_tlc(rr, "trace validation")
    chk.traces += len(events) - len(bad)
    chk.cov["events_validated"] = len(events)
    chk.cov["exhaustive"] = True
    chk.cov["box"] = "nrows,ncols in 1..4; a_size,res_size in 0..5; model N in {2,4,8,16}; replay N = 2..65536 (both layouts)"
    chk.cov["rule"] = "one case = (entry point, dispatch mask, layout class, nrows, ncols, a_size, res_size); non-trivial when res_size>0"
    for b in bad[:20]:
        chk.violation(events[b]["_what"] + ": recorded product differs from the definition", clean[b])
    if events:
        chk.sample({"direction": "B", "event": clean[0]})
