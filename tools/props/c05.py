"""C05 - base-2^k normalisation yields the unique balanced digit expansion.

 1. TLC exhaustive: Normalize.tla (code-shaped limb loop + primitive) = DefNormalize for every k, sizes
    (0 included), limb values of a box, in place and out of place; primitive identity; uniqueness; range slices.
 2. direction A: every enumerated case (k<=2, sizes 0..3 x 0..4, small limb values, alias) replayed on
    vec_znx_normalize_base2k (FFT64, NTT120 modules), vec_znx_big_normalize_base2k and the sub-range variant.
 3. direction B: 62-bit limbs, every k in 1..62, carry-ripple and boundary patterns: one event per coefficient
    column, re-computed by TLC on Wide integers; one-limb primitive in its six argument shapes.
"""
import random

import numpy as np

from common import (run_tlc, tlc_must_pass, printed_json, validate_events, to_words, Infra, isolated,
                    isolated_many)
from lib import Lib, Buf, FFT64, NTT120, MASK_NONE, MASK_GENERIC, ro

LEVEL = "model_checking"


def norm_call(L, mod, variant, n, k, A, rsz, alias, pad, off, fill, rng, rangespec=None):
    """A: (asz x n) int64 array, limb 0 most significant. Returns (res matrix rsz x n, None) or (None, reason)."""
    asz = A.shape[0]
    tmpb = L.call({"vec": "vec_znx_normalize_base2k_tmp_bytes", "big": "vec_znx_big_normalize_base2k_tmp_bytes",
                   "range": "vec_znx_big_range_normalize_base2k_tmp_bytes"}[variant], mod)
    tmp = Buf(tmpb, off=off, fill=fill)
    if variant == "range":
        b, e, st, Lb = rangespec
        a_sl = n
        abuf = Buf(8 * n * Lb, off=off, fill=0x5A)
        av = abuf.i64
        for j in range(asz):
            av[(b + j * st) * n:(b + j * st) * n + n] = A[j]
        nlimbs_a = Lb
    else:
        a_sl = n if variant == "big" else n + pad
        nlimbs_a = max(asz, rsz) if alias else asz
        abuf = Buf(8 * ((nlimbs_a - 1) * a_sl + n) if nlimbs_a else 0, off=off, fill=0x5A)
        av = abuf.i64
        for j in range(asz):
            av[j * a_sl:j * a_sl + n] = A[j]
    if alias:
        res_sl, rbuf = a_sl, abuf
    else:
        res_sl = n + (pad if variant != "vec" else (pad * 2 + 1))
        rbuf = Buf(8 * ((rsz - 1) * res_sl + n) if rsz else 0, off=off, fill=fill)
    a_before = abuf.snapshot()
    with ro(*([] if alias else [abuf])):
        if variant == "vec":
            L.call("vec_znx_normalize_base2k", mod, k, rbuf, rsz, res_sl, abuf, asz, a_sl, tmp)
        elif variant == "big":
            L.call("vec_znx_big_normalize_base2k", mod, k, rbuf, rsz, res_sl, abuf, asz, tmp)
        else:
            L.call("vec_znx_big_range_normalize_base2k", mod, k, rbuf, rsz, res_sl, abuf, b, e, st, tmp)
    if not (tmp.canaries_ok() and abuf.canaries_ok() and rbuf.canaries_ok()):
        return None, "write outside a buffer (canary)"
    rv = rbuf.i64
    out = np.zeros((rsz, n), dtype=np.int64)
    for j in range(rsz):
        out[j] = rv[j * res_sl:j * res_sl + n]
    if not alias:
        if not (a_before == abuf.u8).all():
            return None, "source modified"
        ru = rbuf.u8
        for j in range(rsz - 1):
            if not (ru[8 * (j * res_sl + n):8 * (j + 1) * res_sl] == fill).all():
                return None, "stride padding of the output modified"
    else:
        # cells of the shared buffer that are not output limbs must be unchanged
        au = abuf.u8
        for j in range(nlimbs_a):
            lo, hi = 8 * (j * a_sl + n), 8 * min((j + 1) * a_sl, len(au) // 8)
            if hi > lo and not (au[lo:hi] == a_before[lo:hi]).all():
                return None, "stride padding modified (in place)"
            if j >= rsz and not (au[8 * j * a_sl:8 * (j * a_sl + n)] == a_before[8 * j * a_sl:8 * (j * a_sl + n)]).all():
                return None, "limb beyond res_size modified (in place)"
    return out, None


def entry_points(L, n):
    mods = {"fft64": L.module(n, FFT64, MASK_NONE), "fft64-generic": L.module(n, FFT64, MASK_GENERIC),
            "ntt120": L.module(n, NTT120, MASK_NONE)}
    L.set_cpu_mask(MASK_NONE)
    eps = [("vec", "fft64"), ("vec", "fft64-generic"), ("vec", "ntt120"), ("big", "fft64"), ("range", "fft64"),
           ("big", "fft64-generic")]
    return mods, eps


def range_for(asz, rng):
    b, st = rng.randrange(0, 3), rng.randrange(1, 4)
    if rng.random() < 0.25:      # now and then a far begin and a long step
        b, st = rng.randrange(0, 12), rng.choice([1, 2, 3, 4, 5, 7, 8, 9, 16, 17])
    e = b if asz == 0 else b + (asz - 1) * st + 1 + rng.randrange(0, st)
    return (b, e, st, e + rng.randrange(0, 2))


def drive_a(rec, cases):
    rng = random.Random(rec.seed)
    L = Lib.get()
    groups = {}
    for c in cases:
        groups.setdefault((c["k"], len(c["a"]), c["rs"], c["alias"]), []).append(c)
    replayed = 0
    modcache = {}
    for (k, asz, rsz, alias), cs in sorted(groups.items()):
        n = 2
        while n < len(cs):
            n *= 2
        cols = [cs[j % len(cs)] for j in range(n)]
        A = np.array([[c["a"][i] for c in cols] for i in range(asz)], dtype=np.int64).reshape(asz, n)
        exp = np.array([[c["res"][i] for c in cols] for i in range(rsz)], dtype=np.int64).reshape(rsz, n)
        if n not in modcache:
            modcache[n] = entry_points(L, n)
        mods, eps = modcache[n]
        for (variant, mk) in eps:
            if alias and variant == "range":
                continue
            for fill in (0xFF, 0x00):
                pad = rng.choice([0, 1, 3, n])
                off = rng.choice([0, 8, 16, 24])
                rs = range_for(asz, rng) if variant == "range" else None
                if not rec.progress("%s[%s] N=%d k=%d a_size=%d res_size=%d alias=%s range=%s" % (
                        variant, mk, n, k, asz, rsz, alias, rs)):
                    continue
                got, why = norm_call(L, mods[mk], variant, n, k, A, rsz, alias, pad, off, fill, rng, rs)
                rec.case(("A", variant, mk, k, asz, rsz, alias), nontrivial=asz > 0 and rsz > 0)
                if got is None or not np.array_equal(got, exp):
                    col = 0
                    if got is not None:
                        col = int(np.argwhere((got != exp).any(axis=0))[0][0]) if rsz else 0
                    rec.violation("%s[%s] N=%d k=%d a_size=%d res_size=%d alias=%s: %s" % (
                        variant, mk, n, k, asz, rsz, alias, why or "digits differ from the model's final state"),
                        {"variant": variant, "module": mk, "N": n, "k": k, "alias": alias, "range": rs,
                         "case": cols[col], "got": None if got is None else [int(v) for v in got[:, col]]})
        replayed += len(cs)
    rec.data["replayed"] = replayed


def patterns(k, asz, n, rng, overlay=True):
    """(asz x n) int64 matrix of in-domain limbs (|a_i| <= 2^62) stressing carries."""
    M = 1 << 62
    half = 1 << (k - 1)
    cols = []
    for c in range(n):
        kind = c % 10
        col = []
        for i in range(asz):
            if kind == 0:
                v = rng.choice([M, -M])
            elif kind == 1:   # digits at the boundary, arbitrary upper part
                d = rng.choice([-half, half - 1])
                hi = rng.randrange(-(1 << (62 - k)) + 1, 1 << (62 - k)) if k < 62 else 0
                v = d + hi * (1 << k)
            elif kind == 2:   # positive ripple
                v = half - 1 if i < asz - 1 else half
            elif kind == 3:   # negative ripple
                v = -half if i < asz - 1 else -half - 1
            elif kind == 4:
                v = rng.choice([half, half - 1, -half, -half - 1, 0, 1, -1])
            elif kind == 5:
                v = rng.choice([M, -M, M - 1, -M + 1, half, -half])
            elif kind == 8:   # every limb at the upper bound (the carry grows to 2^62 over 64 limbs of k = 1)
                v = M
            elif kind == 9:
                v = -M
            else:
                v = rng.randrange(-M, M + 1)
            col.append(max(-M, min(M, v)))
        cols.append(col)
    A = np.array(cols, dtype=np.int64).T.reshape(asz, n)
    # whole limbs that are the zero polynomial or one constant (a limb-level shortcut must still pass the carries on)
    for i in range(asz if overlay else 0):
        u = rng.random()
        if u < 0.12:
            A[i, :] = 0
        elif u < 0.18:
            A[i, :] = rng.choice([M, -M, half, -half - 1, half - 1, 1, -1])
    return A


def drive_b(rec, ks, quick):
    rng = random.Random(rec.seed * 7919 + ks[0])
    L = Lib.get()
    n = 16 if quick else 64
    mods, eps = entry_points(L, n)
    events = []
    for k in ks:
        nrep = 3 if quick else 8
        long_chain = (k in (1, 2, 7, 16, 19, 31, 62)) or not quick
        # directed: carry chains over more than 64 and more than 128 dropped limbs, whatever k (every limb on the digit boundary, or
        # every limb at +-2^62), results that lie far above the dropped part; through the plain, the big and the range entry points
        chains = [(1, 66, "vec"), (2, 130, "big"), (60, 67, "vec"), (1, 126, "range"), (4, 136, "range"), (61, 69, "big"), (3, 129, "vec")]
        if not long_chain:
            chains = []
        elif quick and k != 1:
            chains = rng.sample(chains, 2)
        for rep in range(nrep + 1 + len(chains)):
            asz = rng.randrange(1, 6)
            rsz = rng.choice([0, asz, asz, max(0, asz - 1), asz + 1, rng.randrange(0, 7)])
            overlay = True
            want = None
            if rep == nrep:     # directed: many dropped low limbs (more than 64 bits of them) under a maximal carry chain
                rsz = rng.choice([0, 1, 1, 2])
                asz = rsz + 64 // k + 2 + rng.randrange(1, 3)
            if rep > nrep:
                rsz, drop, want = chains[rep - nrep - 1]
                asz = rsz + drop
                overlay = False
            A = patterns(k, asz, n, rng, overlay)
            variant, mk = eps[(k + rep) % len(eps)]
            if want:
                variant, mk = rng.choice([e for e in eps if e[0] == want])
            alias = rng.random() < 0.3 and variant != "range"
            rs = range_for(asz, rng) if variant == "range" else None
            if not rec.progress("%s[%s] N=%d k=%d a_size=%d res_size=%d alias=%s range=%s (62-bit data)" % (
                    variant, mk, n, k, asz, rsz, alias, rs)):
                continue
            got, why = norm_call(L, mods[mk], variant, n, k, A, rsz, alias, rng.choice([0, 2, n]),
                                 rng.choice([0, 8, 16, 24]), rng.choice([0xFF, 0x00, 0x7F]), rng, rs)
            rec.case(("B", variant, mk, k, asz, rsz, alias), nontrivial=rsz > 0)
            if got is None:
                rec.violation("%s[%s] N=%d k=%d a_size=%d res_size=%d alias=%s: %s" % (
                    variant, mk, n, k, asz, rsz, alias, why), {"variant": variant, "k": k, "a_size": asz, "res_size": rsz})
                continue
            for c in range(n):
                ev = {"e": "Norm", "k": k, "rs": rsz, "res": [to_words(int(got[j, c])) for j in range(rsz)],
                      "_what": "%s[%s] N=%d alias=%s col=%d" % (variant, mk, n, alias, c)}
                if variant == "range":
                    b, e, st, Lb = rs
                    big = [[0x5A5A] * 4 for _ in range(Lb)]
                    for j in range(asz):
                        big[b + j * st] = to_words(int(A[j, c]))
                    ev["big"] = big
                    ev["range"] = [b, e, st]
                else:
                    ev["a"] = [to_words(int(A[j, c])) for j in range(asz)]
                events.append(ev)
        # a large dimension (the vector loops may treat the coefficients in blocks): sampled columns, both halves
        volume = (k in (19, 62)) if quick else (k % 4 == 3)      # N * a_size beyond 2^20 coefficients (blocking over both axes)
        if k in (1, 19, 44, 62) or not quick:
            nbig = 4096 if (quick or k % 3) else 16384
            asz, rsz = rng.choice([(2, 2), (3, 2), (3, 3), (4, 2)])
            if volume:
                # (the validation of one recorded column grows faster than linearly in the number of limbs: 70 is where it stays cheap)
                nbig, asz = rng.choice([(65536, 18), (32768, 36), (16384, 70)] if quick else [(65536, 18), (32768, 36), (16384, 70), (8192, 135)])
                rsz = rng.choice([asz, asz - 1, asz // 2, 2])
            modsb, epsb = entry_points(L, nbig)
            A = patterns(k, asz, nbig, rng)
            variant, mk = epsb[k % len(epsb)]
            rs = range_for(asz, rng) if variant == "range" else None
            if rec.progress("%s[%s] N=%d k=%d a_size=%d res_size=%d (large dimension)" % (variant, mk, nbig, k, asz, rsz)):
                got, why = norm_call(L, modsb[mk], variant, nbig, k, A, rsz, False, 0, 0, 0x7F, rng, rs)
                rec.case(("B-large", variant, mk, k, asz, rsz), nontrivial=True)
                if got is None:
                    rec.violation("%s[%s] N=%d k=%d a_size=%d res_size=%d: %s" % (variant, mk, nbig, k, asz, rsz, why), {"variant": variant, "k": k})
                else:
                    cols = sorted(set([0, 1, 2047, 2048, 2049, nbig // 2 - 1, nbig // 2, nbig - 1] + [rng.randrange(nbig) for _ in range(40)]))
                    if volume:
                        cols = sorted(set([0, 1023, 1024, nbig - 1025, nbig - 1] + [rng.randrange(nbig) for _ in range(11)]))
                    for c in cols:
                        ev = {"e": "Norm", "k": k, "rs": rsz, "res": [to_words(int(got[j, c])) for j in range(rsz)],
                              "_what": "%s[%s] N=%d col=%d (large dimension)" % (variant, mk, nbig, c)}
                        if variant == "range":
                            b, e, st, Lb = rs
                            big = [[0x5A5A] * 4 for _ in range(Lb)]
                            for j in range(asz):
                                big[b + j * st] = to_words(int(A[j, c]))
                            ev["big"], ev["range"] = big, [b, e, st]
                        else:
                            ev["a"] = [to_words(int(A[j, c])) for j in range(asz)]
                        events.append(ev)
            for m_ in modsb.values():
                L.delete_module(m_)
        # the one-limb primitive in its six argument shapes
        m = 8
        x = patterns(k, 1, m, rng)[0]
        cin = np.array([rng.choice([0, 1, -1, (1 << 61) >> min(k, 61), -((1 << 61) >> min(k, 61)),
                                    rng.randrange(-(1 << 40), 1 << 40)]) for _ in range(m)], dtype=np.int64)
        # corners of the (in, carry_in) square: both at the inclusive bound 2^62 (the 64-bit sum would overflow), same and
        # opposite signs, and digit-boundary values against maximal carries
        M, half = 1 << 62, 1 << (k - 1)
        cx = [M, M, -M, -M, M - 1, -M + 1, M, -M, half - 1, -half, M - half, -M + half - 1, M, -M, rng.randrange(-M, M + 1), rng.randrange(-M, M + 1)]
        cc = [M, -M, M, -M, M, -M, M - 1, -M + 1, M, -M, M, -M, half, -half - 1, rng.randrange(-M, M + 1), rng.choice([M, -M])]
        x = np.concatenate([x, np.array(cx, dtype=np.int64)])
        cin = np.concatenate([cin, np.array(cc, dtype=np.int64)])
        cut = rng.choice([0, 1, 2, 3, 5, 6, 7, 9, 11, 13, 17, 21])      # the primitive takes any length: not only multiples of 4 or 8
        x, cin = x[cut:], cin[cut:]                                      # (from the front: the corner pairs at the end stay)
        m = len(x)
        for has_out, has_cin, has_cout in [(1, 1, 1), (1, 1, 0), (1, 0, 1), (1, 0, 0), (0, 1, 1), (0, 0, 1)]:
            xb, cb, ob, co = Buf(8 * m), Buf(8 * m), Buf(8 * m, fill=0xEE), Buf(8 * m, fill=0xEE)
            xb.i64[:] = x
            cb.i64[:] = cin
            if not rec.progress("znx_normalize k=%d shape out=%d cin=%d cout=%d" % (k, has_out, has_cin, has_cout)):
                continue
            L.call("znx_normalize", m, k, ob if has_out else None, co if has_cout else None, xb,
                   cb if has_cin else None)
            rec.case(("prim", k, has_out, has_cin, has_cout))
            ok = all(bf.canaries_ok() for bf in (xb, cb, ob, co)) and np.array_equal(xb.i64, x) and np.array_equal(cb.i64, cin)
            if not has_out:
                ok = ok and (ob.u8 == 0xEE).all()
            if not has_cout:
                ok = ok and (co.u8 == 0xEE).all()
            if not ok:
                rec.violation("znx_normalize k=%d shape (out=%d,cin=%d,cout=%d): argument contract broken" % (
                    k, has_out, has_cin, has_cout), {"k": k})
                continue
            for c in range(m):
                ev = {"e": "Prim", "k": k, "x": to_words(int(x[c])), "_what": "znx_normalize shape %d%d%d" % (
                    has_out, has_cin, has_cout)}
                if has_cin:
                    ev["cin"] = to_words(int(cin[c]))
                if has_out:
                    ev["out"] = to_words(int(ob.i64[c]))
                if has_cout:
                    ev["cout"] = to_words(int(co.i64[c]))
                events.append(ev)
    rec.data["events"] = events


def apalache_obligations(chk, ks):
    """Unbounded (all 62-bit x and carry) single-limb identity, one Apalache run per k. A timeout is recorded as
    'not discharged' and is never a violation; a counterexample is a model failure."""
    import os
    import subprocess
    from concurrent.futures import ThreadPoolExecutor
    from common import VERIF, workdir
    wd = workdir("c05-apalache")
    spec = os.path.join(VERIF, "spec", "apalache", "NormalizePrimitive.tla")

    def one(k):
        cfg = os.path.join(wd, "k%d.cfg" % k)
        open(cfg, "w").write("CONSTANT K = %d\nINIT Init\nNEXT Next\nINVARIANT Inv\n" % k)
        try:
            r = subprocess.run(["apalache-mc", "check", "--config=" + cfg, "--length=0", "--inv=Inv", "--out-dir=" + os.path.join(wd, "o%d" % k),
                                spec], capture_output=True, text=True, timeout=240, cwd=wd)
        except (subprocess.TimeoutExpired, FileNotFoundError):
            return k, "timeout"
        out = r.stdout + r.stderr
        if "EXITCODE: OK" in out and "no error" in out:
            return k, "ok"
        if "violat" in out.lower() or "EXITCODE: ERROR (12)" in out:
            return k, "refuted"
        return k, "error"
    with ThreadPoolExecutor(max_workers=6) as ex:
        res = dict(ex.map(one, ks))
    if any(v == "refuted" for v in res.values()):
        raise Infra("Apalache refutes the single-limb identity of the specification for k in %s" % [k for k, v in res.items() if v == "refuted"])
    chk.cov["apalache"] = {"obligations": len(ks), "discharged": sum(1 for v in res.values() if v == "ok"),
                           "not_discharged": {str(k): v for k, v in res.items() if v != "ok"},
                           "what": "for all x, carry in +-2^62: in + carry_in = out + carry_out*2^k and out balanced (k fixed per run)"}


def run(chk, replay=None):
    quick = chk.tier == "quick"
    Lib.get()
    apalache_obligations(chk, [1, 19, 62] if quick else list(range(1, 63)))
    chk.assumptions += ["coefficients of a limb are processed independently (one event per coefficient column)",
                        "|limb| <= 2^62 as documented; larger values are outside the domain and not generated"]
    # 1. exhaustive
    r = run_tlc("Normalize", "Normalize_small.cfg" if quick else "Normalize_thorough.cfg", workers=16, coverage=True,
                xmx="24g", timeout=3000, name="c05-mc")
    tlc_must_pass(r, "Normalize exhaustive")
    chk.add_tlc(r, "exhaustive (+liveness in quick box)")
    if not quick:
        r2 = run_tlc("Normalize", "Normalize_small.cfg", workers=16, name="c05-live")
        tlc_must_pass(r2, "Normalize liveness")
        chk.add_tlc(r2, "liveness")
    never = [a for a, (t, g) in r.coverage.items() if t == 0 and a != "Done"]
    if never:
        chk.notes.append("actions never taken: %s" % never)
    # 2. direction A
    r = run_tlc("Normalize", "Normalize_gen.cfg", workers=1, name="c05-gen", timeout=900)
    tlc_must_pass(r, "Normalize gen")
    chk.add_tlc(r, "behaviour generation")
    cases = printed_json(r, "CASE")
    if not cases:
        raise Infra("Normalize_gen produced no behaviours")
    d = isolated(chk, "replay of TLC-generated normalisation cases", drive_a, (cases,), timeout=600)
    chk.traces += d["replayed"] if d else 0
    chk.cov["behaviours_replayed"] = d["replayed"] if d else 0
    chk.sample({"direction": "A", "case": cases[len(cases) // 3]})
    # 3. direction B
    allk = list(range(1, 63))
    jobs = [("62-bit normalisation, k in %s" % allk[i::8], drive_b, (allk[i::8], quick)) for i in range(8)]
    events = []
    for d in isolated_many(chk, jobs, timeout=900, nproc=8):
        if d:
            events += d["events"]
    clean = [{k: v for k, v in ev.items() if not k.startswith("_")} for ev in events]
    bad, results = validate_events("NormalizeTrace", "NormalizeTrace.cfg", clean, "c05", nproc=12, timeout=2400)
    for res in results:
        chk.add_tlc(res, "trace validation")
    chk.traces += len(events) - len(bad)
    chk.cov["events_validated"] = len(events)
    chk.cov["exhaustive"] = True
    chk.cov["box"] = "model+replay: k<=2 (thorough model: k<=3), a_size 0..3, res_size 0..4, limbs in +-2^(k+1), alias; " \
                     "traces: every k in 1..62, a_size 1..5, res_size 0..6, |limb| <= 2^62"
    chk.cov["rule"] = "one case = (direction, entry point, module, k, a_size, res_size, alias); non-trivial when a limb is produced"
    for b in bad[:20]:
        chk.violation("%s k=%d: recorded result is not the balanced base-2^k expansion" % (
            events[b]["_what"], events[b]["k"]), clean[b])
    if events:
        chk.sample({"direction": "B", "event": clean[len(clean) // 2]})
