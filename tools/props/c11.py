"""C11 - memory contract: declared extents and *_tmp_bytes scratch are never exceeded.

 1. TLC: the code-shaped machines carry a ghost `oob` and a scratch high-water mark; their exhaustive boxes (sizes 0
    included) show touched cells within the declared extents and scratch within *_tmp_bytes (Vmp, Normalize,
    LimbLoops, RingMaps). Extents.tla holds the *_tmp_bytes / bytes_of_* formulas and the write sets.
 2. declared sizes: the values the library's *_tmp_bytes and bytes_of_* functions report for every shape of a box, both
    module types, are validated by TLC against Extents.tla; allocation scopes (new_* ... delete_* of every object
    kind) must hold memory while alive and return all of it (FrameTrace: Sizes / Scope events).
 3. exact-size execution: TLC-generated cases and programs replayed with heap buffers of exactly the documented size
    between canaries, scratch of exactly *_tmp_bytes() bytes, objects of exactly bytes_of_*() bytes, misaligned by
    8/16/24 bytes, with different pre-fills of outputs and scratch (results must not depend on them).
 4. AddressSanitizer observer: the same replays in a process where the library is instrumented and every
    buffer is an exact-size malloc block: a read or write outside a declared extent aborts the call and is reported.
"""
import ctypes
import json
import os
import subprocess

from common import (run_tlc, tlc_must_pass, printed_json, validate_events, Infra, isolated, isolated_many, build, workdir, VERIF,
                    log)
from lib import Lib, FFT64, NTT120, MASK_NONE
from props import c02, c05, c08, c13, c15, c16, c17

LEVEL = "exploration"


def drive_sizes(rec, quick):
    L = Lib.get()
    events = []
    for n in ([2, 4, 8, 64, 4096] if quick else [2, 4, 8, 16, 64, 256, 4096, 65536]):
        for mt, name in ((FFT64, "FFT64"), (NTT120, "NTT120")):
            mod = L.module(n, mt, MASK_NONE)
            tmp, byt = [], []
            for op in ("vec_znx_normalize_base2k",) + (("vec_znx_big_normalize_base2k", "vec_znx_big_range_normalize_base2k",
                                                         "znx_small_single_product") if mt == FFT64 else ()):
                tmp.append([op, 0, 0, 0, 0, L.call(op + "_tmp_bytes", mod)])
            tmp.append(["vec_znx_idft", 0, 0, 0, 0, L.call("vec_znx_idft_tmp_bytes", mod)])
            if mt == FFT64:
                for nr in (1, 2, 5):
                    for nc in (1, 3):
                        tmp.append(["vmp_prepare_contiguous", nr, nc, 0, 0, L.call("vmp_prepare_contiguous_tmp_bytes", mod, nr, nc)])
                        for a_size in (0, 1, 3, 7):
                            for r_size in (0, 2, 4):
                                tmp.append(["vmp_apply_dft", nr, nc, a_size, r_size, L.call("vmp_apply_dft_tmp_bytes", mod, r_size, a_size, nr, nc)])
                                tmp.append(["vmp_apply_dft_to_dft", nr, nc, a_size, r_size,
                                            L.call("vmp_apply_dft_to_dft_tmp_bytes", mod, r_size, a_size, nr, nc)])
                        byt.append(["pmat", 0, nr, nc, L.call("bytes_of_vmp_pmat", mod, nr, nc)])
                for size in (0, 1, 3, 10):
                    byt.append(["dft", size, 0, 0, L.call("bytes_of_vec_znx_dft", mod, size)])
                    byt.append(["big", size, 0, 0, L.call("bytes_of_vec_znx_big", mod, size)])
                byt.append(["ppol", 0, 0, 0, L.call("bytes_of_svp_ppol", mod)])
            rec.case(("sizes", n, name))
            events.append({"e": "Sizes", "N": n, "mod": name, "tmp": tmp, "bytes": byt, "_what": "*_tmp_bytes / bytes_of_* at N=%d %s" % (n, name)})
            L.delete_module(mod)
    rec.data["events"] = events


def drive_layout(rec, tablen, quick):
    """table objects with library-owned work buffers: where the table and the buffers lie inside the heap block"""
    import ctypes
    L = Lib.get()
    events = []
    for kind in ("reim_fft", "reim_ifft", "cplx_fft", "cplx_ifft"):
        layout = kind.split("_")[0]
        for m in sorted(set(int(k.split(":")[1]) for k in tablen if k.startswith(layout + ":"))):
            for nb in (0, 1, 3):
                if not rec.progress("new_%s_precomp(m=%d, num_buffers=%d)" % (kind, m, nb)):
                    continue
                t = L.fn("new_%s_precomp" % kind, "p ww")(m, nb)
                base, size = L.block(t)
                fld = ctypes.cast(t, ctypes.POINTER(ctypes.c_uint64))
                tab, bufsize = int(fld[3]), int(fld[2])
                getb = L.fn("%s_precomp_get_buffer" % kind, "p pw")
                bufs = [int(getb(t, i)) for i in range(nb)]
                rec.case(("layout", kind, m, nb))
                # the inverse tables have the length of the forward ones (same schedule read backwards)
                events.append({"e": "Layout", "kind": kind, "m": m, "nb": nb, "size": size, "tab": tab - base, "tabal": tab % 32,
                               "need": 8 * tablen["%s:%d" % (layout, m)], "bufs": [b - base for b in bufs], "bufal": [b % 32 for b in bufs],
                               "bufsize": bufsize, "data": 16 * m,
                               "_what": "new_%s_precomp(m=%d, num_buffers=%d): table at +%d, buffers at %s of a block of %d bytes" % (
                                   kind, m, nb, tab - base, [b - base for b in bufs], size)})
                L.fn("free", "v p")(t) if False else None
    rec.data["events"] = events


def run(chk, replay=None):
    quick = chk.tier == "quick"
    Lib.get()
    chk.assumptions += ["a non-influential out-of-extent read inside the four hand-written assembly kernels is invisible (not instrumented); "
                        "everywhere else the sanitizer observer sees it",
                        "strides >= N and buffers of (size-1)*stride + N cells are the declared extent of a limb vector"]
    # 1. models with the oob ghost
    for mod, cfg, role in (("Vmp", ("Vmp_quick.cfg" if quick else "Vmp_thorough.cfg"), "no address outside the prepared matrix, scratch <= *_tmp_bytes"),
                           ("Normalize", "Normalize_small.cfg", "no limb outside res/a for sizes 0.."),
                           ("LimbLoops", ("LimbLoops_quick.cfg" if quick else "LimbLoops_thorough.cfg"), "writes exactly the res limbs"),
                           ("RingMaps", "RingMaps_small.cfg", "no index outside 0..N-1")):
        r = run_tlc(mod, cfg, workers=16, coverage=True, name="c11-" + mod, timeout=1800)
        tlc_must_pass(r, mod)
        chk.add_tlc(r, "exhaustive: " + role)
    # 2. sizes and scopes
    d = isolated(chk, "declared sizes and allocation scopes", drive_sizes, (quick,), timeout=600)
    events = d["events"] if d else []
    tablen = {}
    for cfg in ("FftSchedule_gen.cfg", "FftSchedule_cplx_gen.cfg"):
        r = run_tlc("FftSchedule", cfg, workers=1, xmx="8g", name="c11-" + cfg, timeout=900)
        tlc_must_pass(r, cfg)
        for tb in printed_json(r, "TABLE"):
            tablen["%s:%d" % (tb["layout"], tb["m"])] = len(tb["table"])
    d = isolated(chk, "layout of table objects with work buffers", drive_layout, (tablen, quick), timeout=600)
    events += d["events"] if d else []
    clean = [{k: v for k, v in ev.items() if not k.startswith("_")} for ev in events]
    bad, results = validate_events("FrameTrace", "FrameTrace.cfg", clean, "c11", nproc=2, timeout=600)
    for rr in results:
        chk.add_tlc(rr, "trace validation of sizes and allocation scopes")
    chk.traces += len(events) - len(bad)
    chk.cov["size_and_scope_events"] = len(events)
    for b in bad[:10]:
        if events[b]["e"] == "Sizes":
            # the formulas of Extents.tla transcribe what the code needs today: a reported size that differs (a refactoring may ask for
            # more scratch, or need less) is model drift, not a violation. What convicts a size that is too small is the replay below:
            # scratch of exactly *_tmp_bytes() bytes and objects of exactly bytes_of_*() bytes between canaries and under the sanitizer
            chk.notes.append("model_drift: " + events[b]["_what"] + ": reported sizes differ from the formulas of Extents.tla (advisory)")
            chk.cov.setdefault("model_drift", []).append(events[b]["_what"])
        else:
            chk.violation(events[b]["_what"] + ": the object does not have the layout Extents.tla requires (table and work buffers disjoint, "
                          "aligned, inside the heap block)", clean[b])
    # allocation ledger: allocator calls of the statically linked library diverted at link time, one scope per object family
    bdir = build("rel")
    ns = ["2", "4", "8", "64", "1024"] + ([] if quick else ["16", "256", "4096", "65536"])
    try:
        p = subprocess.run([os.path.join(bdir, "alloc_ledger")] + ns, capture_output=True, text=True, timeout=600)
    except subprocess.TimeoutExpired:
        p = None
    if p is None or p.returncode != 0:
        chk.violation("new_* / delete_* scopes: the ledger driver %s" % ("timed out" if p is None else "crashed (rc %s)" % p.returncode),
                      {"stderr": "" if p is None else p.stderr[-2000:]}, finding_key="crash:alloc_ledger")
    else:
        lev = [json.loads(x) for x in p.stdout.splitlines() if x.startswith("{")]
        bad2, results2 = validate_events("AllocLedgerTrace", "AllocLedgerTrace.cfg", lev, "c11-ledger", nproc=1, timeout=600)
        for rr in results2:
            chk.add_tlc(rr, "trace validation of the allocation ledger")
        chk.traces += sum(1 for e in lev if e["e"] == "ScopeEnd") - len([b for b in bad2 if lev[b]["e"] == "ScopeEnd"])
        chk.cov["ledger_events"] = len(lev)
        chk.cov["ledger_scopes"] = sum(1 for e in lev if e["e"] == "ScopeEnd")
        for e in lev:
            if e["e"] == "ScopeBegin":
                chk.case(("scope", e["what"], e["N"]))
        for b in bad2[:10]:
            scope = next((e for e in reversed(lev[:b + 1]) if e["e"] == "ScopeBegin"), None)
            chk.violation("allocation scope %s: event %d %s breaks the ledger (block not released, released twice, or not owned)" % (
                scope, b, lev[b]), {"scope": scope, "event": lev[b], "slice": lev[max(0, b - 8):b + 2]})
        chk.sample({"ledger_slice": lev[:6]})
    # 3. exact-size execution (canaries, exact scratch, misalignment, two pre-fills)
    limb = c08.gen_cases(chk, "c11")
    r = run_tlc("Normalize", "Normalize_gen.cfg", workers=1, name="c11-normgen", timeout=900)
    tlc_must_pass(r, "Normalize gen")
    norm = printed_json(r, "CASE")
    r = run_tlc("Vmp", "Vmp_gen.cfg", workers=1, name="c11-vmpgen")
    tlc_must_pass(r, "Vmp gen")
    vmp = printed_json(r, "CASE")
    r = run_tlc("Pointwise", "Pointwise_gen.cfg", workers=1, name="c11-pwgen")
    pw = printed_json(r, "CASE")
    r = run_tlc("Reim4Gen", "Reim4Gen.cfg", workers=1, name="c11-r4gen")
    r4 = printed_json(r, "CASE")
    programs = c16.generate(chk, ["Spqlios_sim.cfg", "Spqlios_sim_ntt.cfg"], 12 if quick else 120, 16, "c11")
    sub = [c for i, c in enumerate(limb) if i % (4 if quick else 1) == chk.seed % (4 if quick else 1)]
    jobs = [("exact-size limb-loop cases part %d" % i, c08.drive_a, (sub, i, 4, True, "exact")) for i in range(4)]
    jobs += [("exact-size normalisation cases", c05.drive_a, (norm,))]
    jobs += [("exact-size VMP shapes part %d" % i, c02.drive_a, (vmp[i::2], 0, 1, [1, 2, 4, 16], [256])) for i in range(2)]
    jobs += [("programs under two pre-fills / offsets, part %d" % i, c15.drive_programs, (programs, i, 4)) for i in range(4)]
    res = isolated_many(chk, jobs, timeout=2400, nproc=11)
    chk.traces += sum((x.get("ok", 0) or x.get("replayed", 0)) for x in res if x)
    # 4. sanitizer observer
    try:
        build("asan", targets=["libspqlios", "vhelp", "refmodel"])
        wd = workdir("c11-asan")
        cf = os.path.join(wd, "cases.json")
        json.dump({"limb": limb, "norm": norm, "vmp": vmp, "programs": programs[:(60 if quick else 600)], "pointwise": pw, "reim4": r4}, open(cf, "w"))
        libasan = subprocess.run(["gcc", "-print-file-name=libasan.so"], capture_output=True, text=True).stdout.strip()
        env = dict(os.environ, LD_PRELOAD=libasan, VERIF_ASAN="1", VERIF_LIBKIND="asan",
                   ASAN_OPTIONS="detect_leaks=0:abort_on_error=1:log_path=%s/asan:allocator_may_return_null=1" % wd,
                   UBSAN_OPTIONS="halt_on_error=1:abort_on_error=1:print_stacktrace=1:log_path=%s/ubsan" % wd)
        p = subprocess.run(["python3-vt", os.path.join(VERIF, "tools", "asan_phase.py"), chk.tier, cf], capture_output=True, text=True,
                           env=env, timeout=3000, cwd=VERIF)
        last = p.stdout.strip().splitlines()[-1] if p.stdout.strip() else ""
        try:
            out = json.loads(last)
        except ValueError:
            raise Infra("the sanitizer phase did not report: rc=%s\n%s" % (p.returncode, (p.stdout + p.stderr)[-3000:]))
        reports = []
        for f in sorted(os.listdir(wd)):
            if f.startswith("asan") or f.startswith("ubsan"):
                reports.append(open(os.path.join(wd, f), errors="replace").read()[:4000])
        chk.cov["sanitizer_observer"] = {"ran": True, "evaluations": out["evaluations"], "distinct": out["distinct"], "reports": len(reports)}
        chk.evals += out["evaluations"]
        for i, (desc, payload) in enumerate(out["violations"][:10]):
            if isinstance(payload, dict) and reports:
                payload["sanitizer_report"] = reports[min(i, len(reports) - 1)]
            chk.violation("under AddressSanitizer: " + desc, payload)
    except subprocess.TimeoutExpired:
        chk.notes.append("sanitizer observer timed out (not a verdict)")
        chk.cov["sanitizer_observer"] = {"ran": False, "why": "timeout"}
    chk.cov["rule"] = ("one case = (entry point, module kind, shape, stride kinds, alias, N class) replayed exact-size, or (size function, "
                       "N, module type), or (allocation scope, N)")
