"""C03 - NTT120 is an exact, invertible negacyclic transform on all 64-bit data.

 1. TLC: NttSchedule.tla - the butterfly schedule of the q120 NTT/iNTT over Z[w]/(w^n+1), n = 1..32: the forward
    transform is the evaluation map at w^(1+2 bitrev j) (hence linear, convolution theorem), inverse o forward = n*id.
 2. binding of the schedule to the code: the real twiddle tables (every entry for n <= 64, samples above) must hold
    the exponents, in the order, the schedule consumes them (NttTable); impulse probes with arbitrary 64-bit lane
    content for every n = 2..65536 (NttImpulse); products of transforms against the negacyclic product computed by
    TLC (NttConv, n <= 16).
 3. extremal lanes (all ones, alternating 0 / 2^64-1, just below multiples of the primes, random), every n: round
    trip and linearity modulo each prime on all lanes (harness reduces with %, TLC takes the summary); NTT120 module
    vec_znx_dft -> vec_znx_idft / _tmp_a on INT64_MIN/MAX and random data for all size/stride combinations.
"""
import random

import numpy as np

from common import run_tlc, tlc_must_pass, validate_events, to_words, Infra, isolated_many
from lib import Lib, Buf, NTT120, MASK_NONE
import q120

LEVEL = "model_checking"
U64 = (1 << 64) - 1


def bitrev(k, j):
    r = 0
    for _ in range(k):
        r = (r << 1) | (j & 1)
        j >>= 1
    return r


def pattern(n, kind, rng, qc):
    if kind == "ones":
        return np.full((n, 4), U64, dtype=np.uint64)
    if kind == "alt":
        a = np.zeros((n, 4), dtype=np.uint64)
        a[::2] = U64
        return a
    if kind.startswith("per"):
        # "per<k>:<bits>": k blocks (halves, quarters), block j near zero or near all-ones according to bit j, every coefficient with its
        # own low bits: each butterfly of the first passes sees the same extreme combination, each with other low bits
        k, bits = int(kind[3:kind.index(":")]), int(kind[kind.index(":") + 1:])
        g = np.random.default_rng(rng.randrange(1 << 30))
        jitter = g.integers(0, 1 << rng.choice([17, 20, 24]), (n, 4), dtype=np.uint64)
        sel = np.repeat(np.array([(bits >> j) & 1 for j in range(k)]), n // k).reshape(n, 1) * np.ones((1, 4), dtype=np.int64)
        return np.where(sel == 1, np.uint64(U64) - jitter, jitter).astype(np.uint64)
    if kind in ("blocks", "mix", "mixlane"):
        # 0 and all-ones (and their close neighbours) side by side: in blocks of a power-of-two length, per coefficient, per lane. The lazy
        # subtractions of a butterfly are closest to wrapping when one input is maximal and the other one reduces to nothing
        g = np.random.default_rng(rng.randrange(1 << 30))
        if kind == "blocks":
            blk = max(1, n >> rng.randrange(1, 5))
            sel = np.repeat(g.integers(0, 2, (n + blk - 1) // blk), blk)[:n].reshape(n, 1) * np.ones((1, 4), dtype=np.int64)
        elif kind == "mix":
            sel = g.integers(0, 2, (n, 1)) * np.ones((1, 4), dtype=np.int64)
        else:
            sel = g.integers(0, 2, (n, 4))
        jitter = g.integers(0, 1 << 20, (n, 4), dtype=np.uint64) * np.uint64(rng.choice([0, 0, 1]))
        return np.where(sel == 1, np.uint64(U64) - jitter, jitter).astype(np.uint64)
    if kind == "near":
        return np.array([[min(U64, (qc.q[k] << rng.randrange(0, 34)) * rng.randrange(1, 3) - 1) for k in range(4)] for _ in range(n)],
                        dtype=np.uint64)
    return np.array([[rng.randrange(0, 1 << 64) for _ in range(4)] for _ in range(n)], dtype=np.uint64) if n <= 4096 else \
        np.random.default_rng(rng.randrange(1 << 30)).integers(0, 1 << 64, (n, 4), dtype=np.uint64)


def mod_rows(a, qc):
    """(n x 4) uint64 -> (n x 4) residues (object-free, exact: uint64 % small)"""
    return np.stack([a[:, k] % np.uint64(qc.q[k]) for k in range(4)], axis=1).astype(np.int64)


def drive(rec, ns, quick):
    rng = random.Random(rec.seed * 19 + ns[0])
    L = Lib.get()
    qc = q120.Q(L)
    events = []
    for n in ns:
        lg = n.bit_length() - 1
        # --- tables
        for inverse in ((False, True) if n > 1 else ()):     # n = 1: the constructors return before building any table
            meta = qc.ntt_meta(n, inverse)
            count = n + sum(nn // 2 - 1 for nn in [1 << s for s in range(2, lg + 1)])
            tab = qc.powomega(n, inverse, count)
            pos = list(range(count)) if count <= 200 else sorted(set([0, 1, n - 1, n, n + 1, count - 1, count - n, count - n - 1] +
                                                                  [rng.randrange(count) for _ in range(60)]))
            pos = [p for p in pos if 0 <= p < count]
            events.append({"e": "NttTable", "n": n, "dir": 1 if inverse else 0, "halfbs": [lv["half_bs"] for lv in meta["levels"]],
                           "entries": [[p, k + 1, int(tab[p, k]) & 0xFFFFFFFF, int(tab[p, k]) >> 32] for p in pos for k in range(4)],
                           "_what": "twiddle table n=%d %s" % (n, "inverse" if inverse else "forward")})
            rec.case(("table", n, inverse))
        # --- impulses
        for i in sorted(set(t for t in [0, 1, n - 1, n // 2, rng.randrange(n), rng.randrange(n)] if t < n)):
            v = [rng.choice([U64, 1, rng.randrange(1 << 64), qc.q[k] * 3 - 1]) for k in range(4)]
            x = np.zeros((n, 4), dtype=np.uint64)
            x[i] = v
            if not rec.progress("q120_ntt_bb_avx2 n=%d impulse at %d" % (n, i)):
                continue
            y = qc.run_ntt(n, False, x)
            rec.case(("impulse", n, min(i, 2), i == n - 1))
            if y is None:
                rec.violation("q120_ntt_bb_avx2 n=%d wrote outside its data" % n, {"n": n})
                continue
            js = sorted(set(t for t in [0, 1, n - 1, n // 2] + [rng.randrange(n) for _ in range(12)] if t < n))
            events.append({"e": "NttImpulse", "n": n, "i": i, "v": qc.residues(v), "js": js,
                           "out": [qc.residues(y[j]) for j in js], "_what": "impulse n=%d i=%d" % (n, i)})
        # --- convolution theorem at small n (TLC computes the negacyclic product)
        if n <= 16:
            x, y = pattern(n, "random", rng, qc), pattern(n, "near", rng, qc)
            fx, fy = qc.run_ntt(n, False, x), qc.run_ntt(n, False, y)
            pw = np.array([[(int(fx[j, k]) % qc.q[k]) * (int(fy[j, k]) % qc.q[k]) % qc.q[k] for k in range(4)] for j in range(n)],
                          dtype=np.uint64)
            z = qc.run_ntt(n, True, pw)
            events.append({"e": "NttConv", "n": n, "x": mod_rows(x, qc).tolist(), "y": mod_rows(y, qc).tolist(),
                           "res": mod_rows(z, qc).tolist(), "_what": "convolution theorem n=%d" % n})
            rec.case(("conv", n))
        # --- round trip and linearity on extremal lanes, all positions
        bulk, bulk_mism = {}, {}
        mixes = (["blocks"] * 4 + ["mix"] * (10 if quick else 60) + ["mixlane"] * (6 if quick else 30)) if n >= 4 else []
        if n >= 8:                   # halves and quarters in every 0 / all-ones combination, three draws of the low bits each
            mixes += ["per2:%d" % b for b in range(1, 4)] * 3 + ["per4:%d" % b for b in range(1, 16)] * 3
        if n in (2048, 4096):        # the smallest dimensions with a reducing pass: many more of them (a wrap needs the right four inputs AND luck in the low bits)
            mixes += ["mix"] * (500 if quick else 3000) + ["mixlane"] * (300 if quick else 2000)
        for kind in ["ones", "alt", "near", "random"][:(2 if (quick and n > 4096) else 4)] + mixes:
            x = pattern(n, kind, rng, qc)
            if not rec.progress("q120 ntt+intt n=%d pattern=%s" % (n, kind)):
                continue
            fx = qc.run_ntt(n, False, x)
            rt = qc.run_ntt(n, True, fx) if fx is not None else None
            rec.case(("roundtrip", n, kind))
            if rt is None:
                rec.violation("q120 ntt/intt n=%d wrote outside its data" % n, {"n": n})
                continue
            mism = int((mod_rows(rt, qc) != mod_rows(x, qc)).sum())
            bulk[kind] = bulk.get(kind, 0) + 1
            if bulk[kind] > 70 or (kind.startswith("per") and bulk[kind] > 1):          # the bulk repetitions: round trip only, one summary at the end
                bulk_mism[kind] = bulk_mism.get(kind, 0) + mism
                continue
            # linearity: NTT(x) + NTT(y) = NTT(x + y) modulo each prime (lanes halved so that sums do not wrap)
            y = pattern(n, "random" if kind not in ("blocks", "mix", "mixlane") and not kind.startswith("per") else kind, rng, qc)
            xh, yh = x >> np.uint64(1), y >> np.uint64(1)
            lhs = (mod_rows(qc.run_ntt(n, False, xh), qc) + mod_rows(qc.run_ntt(n, False, yh), qc)) % np.array(qc.q, dtype=np.int64)
            rhs = mod_rows(qc.run_ntt(n, False, xh + yh), qc)
            mism += int((lhs != rhs).sum())
            events.append({"e": "NttSummary", "n": n, "pattern": kind, "mismatches": mism,
                           "_what": "round trip + linearity n=%d pattern=%s" % (n, kind)})
        for kind, mm in bulk_mism.items():
            events.append({"e": "NttSummary", "n": n, "pattern": kind, "mismatches": mm,
                           "_what": "round trips n=%d pattern=%s (further repetitions)" % (n, kind)})
    rec.data["events"] = events


def drive_inverse_first(rec, order):
    """A fresh process in which an inverse transform is the very first transform (order 0: kernel level, order 1: module level): the
    inverse of a vector, followed by the forward transform, is the vector again modulo each prime; the inverse DFT of the constant
    evaluation vector (c, c, ..., c) is the constant polynomial c."""
    rng = random.Random(rec.seed * 7 + order)
    L = Lib.get()
    qc = q120.Q(L)
    events = []
    if order == 0:
        for n in (64, 2, 1024, 16):
            x = np.array([[rng.randrange(0, 1 << 64) for _ in range(4)] for _ in range(n)], dtype=np.uint64)
            B = Buf(32 * n, fill=0x11)
            B.u64[:] = x.reshape(-1)
            label = "q120 inverse then forward transform n=%d, the first transforms of the process" % n
            if not rec.progress(label):
                continue
            L.fn("q120_intt_bb_avx2", "v pp")(L.fn("q120_new_intt_bb_precomp", "p u")(n), B.addr)
            L.fn("q120_ntt_bb_avx2", "v pp")(L.fn("q120_new_ntt_bb_precomp", "p u")(n), B.addr)
            rec.case(("inverse-first", "kernel", n))
            mism = int((mod_rows(B.u64.reshape(n, 4), qc) != mod_rows(x, qc)).sum()) + (0 if B.canaries_ok() else 1)
            events.append({"e": "NttSummary", "n": n, "pattern": "inverse-first", "mismatches": mism, "_what": label})
    else:
        for n in (64, 2, 1024):
            mod = L.module(n, NTT120, MASK_NONE)
            c = rng.randrange(1, 1 << 29)
            D = Buf(32 * n, fill=0)
            D.u64[:] = c
            G = Buf(16 * n, fill=0xEE)
            label = "vec_znx_idft_tmp_a on an NTT120 module N=%d, the first transform of the process" % n
            if not rec.progress(label):
                continue
            L.call("vec_znx_idft_tmp_a", mod, G, 1, D, 1)
            rec.case(("inverse-first", "module", n))
            g = G.u64.reshape(-1, 2)
            exp = np.zeros(n, dtype=np.int64)
            exp[0] = c
            mism = int((g[:, 0].view(np.int64) != exp).sum()) + int((g[:, 1] != 0).sum()) + (0 if G.canaries_ok() else 1)
            events.append({"e": "NttSummary", "n": n, "pattern": "inverse-first", "mismatches": mism, "_what": label})
            L.delete_module(mod)
    rec.data["events"] = events


def drive_module(rec, quick):
    """vec_znx_dft -> vec_znx_idft / idft_tmp_a on an NTT120 module: identity on all int64, zero-extended / truncated"""
    rng = random.Random(rec.seed + 5)
    L = Lib.get()
    events = []
    for n in ([1, 2, 8, 64, 1024] if quick else [1, 2, 4, 8, 16, 64, 256, 1024, 8192, 65536]):
        mod = L.module(n, NTT120, MASK_NONE)
        for (a_size, d_size, r_size) in [(s, d, r) for s in (0, 1, 3) for d in (0, 1, 2, 4) for r in (0, 1, 3, 5)]:
            for tmp_a in (False, True):
                a_sl = n + rng.choice([0, 1, 8]) if a_size != 1 else rng.choice([0, 0, n, n + 8])     # one limb: the stride is not used
                A = Buf(8 * ((a_size - 1) * a_sl + n) if a_size else 0, fill=0x3C)
                vals = [np.array([rng.choice([-(1 << 63), (1 << 63) - 1, 0, 1, -1, rng.randrange(-(1 << 63), 1 << 63)]) for _ in range(n)],
                                 dtype=np.int64) for _ in range(a_size)]
                for i, v in enumerate(vals):
                    A.i64[i * a_sl:i * a_sl + n] = v
                D = Buf(32 * n * d_size, fill=0xEE)
                G = Buf(16 * n * r_size, fill=0xEE)
                T = Buf(L.call("vec_znx_idft_tmp_bytes", mod), fill=0xEE)
                a0 = A.snapshot()
                label = "NTT120 dft->idft%s N=%d sizes a=%d dft=%d res=%d" % ("_tmp_a" if tmp_a else "", n, a_size, d_size, r_size)
                if not rec.progress(label):
                    continue
                L.call("vec_znx_dft", mod, D, d_size, A, a_size, a_sl)
                d0 = D.snapshot()
                if tmp_a:
                    L.call("vec_znx_idft_tmp_a", mod, G, r_size, D, d_size)
                else:
                    L.call("vec_znx_idft", mod, G, r_size, D, d_size, T)
                rec.case(("module", n >= 1024, a_size, d_size, r_size, tmp_a), nontrivial=r_size > 0)
                ok = all(b.canaries_ok() for b in (A, D, G, T)) and np.array_equal(A.u8, a0) and (tmp_a or np.array_equal(D.u8, d0))
                mism = 0
                g = G.u64.reshape(-1, 2) if r_size else np.zeros((0, 2), dtype=np.uint64)
                for i in range(r_size):
                    exp = vals[i] if i < min(a_size, d_size) else np.zeros(n, dtype=np.int64)
                    lo = g[i * n:(i + 1) * n, 0].view(np.int64)
                    hi = g[i * n:(i + 1) * n, 1].view(np.int64)
                    mism += int((lo != exp).sum()) + int((hi != (exp >> 63)).sum())
                if not ok:
                    rec.violation(label + ": write outside an object, or a source was modified", {"N": n})
                events.append({"e": "NttSummary", "n": n, "pattern": "module", "mismatches": mism, "_what": label})
        L.delete_module(mod)
    # lifetimes: several live modules of the same dimension are independent objects - deleting one (or creating another, of the same
    # or of another dimension) leaves the others usable and correct
    def round_trip(mod, n, what):
        v = np.array([rng.choice([-(1 << 63), (1 << 63) - 1, 1, -1, rng.randrange(-(1 << 63), 1 << 63)]) for _ in range(n)], dtype=np.int64)
        A, D, G = Buf(8 * n, fill=0x3C), Buf(32 * n, fill=0xEE), Buf(16 * n, fill=0xEE)
        A.i64[:] = v
        label = "NTT120 dft->idft_tmp_a N=%d %s" % (n, what)
        if not rec.progress(label):
            return
        L.call("vec_znx_dft", mod, D, 1, A, 1, n)
        L.call("vec_znx_idft_tmp_a", mod, G, 1, D, 1)
        rec.case(("lifetime", n, what))
        g = G.u64.reshape(-1, 2)
        mism = int((g[:, 0].view(np.int64) != v).sum()) + int((g[:, 1].view(np.int64) != (v >> 63)).sum())
        if not all(b.canaries_ok() for b in (A, D, G)):
            rec.violation(label + ": write outside an object", {"N": n})
        events.append({"e": "NttSummary", "n": n, "pattern": "lifetime", "mismatches": mism, "_what": label})

    for n in ([8, 64, 2048] if quick else [2, 8, 64, 256, 1024, 2048, 4096, 8192]):
        m1 = L.module(n, NTT120, MASK_NONE)
        m2 = L.module(n, NTT120, MASK_NONE)
        round_trip(m1, n, "first of two live modules of this dimension")
        round_trip(m2, n, "second of two live modules of this dimension")
        L.delete_module(m1)
        round_trip(m2, n, "after the other module of this dimension was deleted")
        m3 = L.module(n, NTT120, MASK_NONE)
        m4 = L.module(2 * n, NTT120, MASK_NONE)
        round_trip(m2, n, "after two more modules were created")
        round_trip(m3, n, "third module of this dimension")
        L.delete_module(m2)
        round_trip(m4, 2 * n, "module of the double dimension, after a delete")
        round_trip(m3, n, "after the second module was deleted")
        L.delete_module(m4)
        round_trip(m3, n, "after the module of the double dimension was deleted")
        L.delete_module(m3)
    rec.data["events"] = events


def run(chk, replay=None):
    quick = chk.tier == "quick"
    Lib.get()
    chk.assumptions += ["lane residues are computed by the harness with %; TLC performs the modular algebra of the expectation",
                        "only the AVX2 NTT exists in the library: there is no second implementation to cross-check"]
    r = run_tlc("NttSchedule", "NttSchedule.cfg", workers=6, coverage=True, name="c03-sched")
    tlc_must_pass(r, "NttSchedule")
    chk.add_tlc(r, "symbolic schedule n=1..32: evaluation map and inverse")
    ns = [1 << s for s in range(0, 17)]
    parts = [ns[i::6] for i in range(6)]
    jobs = [("q120 NTT probes n in %s" % p, drive, (p, quick)) for p in parts] + [("NTT120 module round trips", drive_module, (quick,))] + \
           [("inverse transform first in a fresh process (%s level)" % w, drive_inverse_first, (o,)) for o, w in ((0, "kernel"), (1, "module"))]
    if not quick:       # (4.3 GB of memory)
        from props import c08
        jobs += [("NTT120 vec_znx_dft: zero extension of more than 4 GiB", c08.drive_giant_tail, ())]
    res = isolated_many(chk, jobs, timeout=2400, nproc=7)
    events = [ev for d in res if d for ev in d["events"]]
    clean = [{k: v for k, v in ev.items() if not k.startswith("_")} for ev in events]
    bad, results = validate_events("Q120Trace", "Q120Trace.cfg", clean, "c03", nproc=12, timeout=3000)
    for rr in results:
        chk.add_tlc(rr, "trace validation")
    chk.traces += len(events) - len(bad)
    chk.cov["events_validated"] = len(events)
    chk.cov["by_kind"] = {k: sum(1 for e in events if e["e"] == k) for k in ("NttTable", "NttImpulse", "NttConv", "NttSummary")}
    chk.cov["exhaustive"] = True
    chk.cov["box"] = "schedule model n = 1..32; probes for every n = 1..65536"
    chk.cov["rule"] = "one case = (probe kind, n, position or pattern class) / (module call shape)"
    for b in bad[:20]:
        chk.violation(events[b]["_what"] + ": differs from the exact transform of the specification", clean[b] if len(str(clean[b])) < 20000 else {"what": events[b]["_what"]})
    imp = [e for e in clean if e["e"] == "NttImpulse"]
    if imp:
        chk.sample({"event": imp[0]})
