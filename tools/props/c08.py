"""C08 - vec_znx size/stride semantics: zero-extend, truncate, write only res limbs.

 1. TLC exhaustive: LimbLoops.tla (three-phase loops of the 7 generic operations and the 9 big wrappers) for every
    (res,a,b) size triple in 0..3, every stride kind, every aliasing pattern: final memory = definition, exactly the
    res limbs written, no other limb ever modified (step-wise frame), termination.
 2. direction A: every enumerated case replayed on the real API (FFT64 AVX/generic dispatch, NTT120) at several N,
    60-bit operands, exact-size canary buffers, complete memory image compared (padding, limbs past res_size, sources).
 3. direction B: random sizes up to 40 and large strides recorded and re-computed by TLC from the definition.
"""
import random

import numpy as np

from common import (run_tlc, tlc_must_pass, printed_json, validate_events, Infra, isolated, isolated_many)
from lib import Lib, Buf
import vecops

LEVEL = "model_checking"
N_SMALL = [2, 4, 8, 16, 32, 64]
N_BIG = [256, 1024, 4096, 16384, 65536]


def gen_cases(chk, tag):
    r = run_tlc("LimbLoops", "LimbLoops_gen.cfg" if chk.tier == "quick" else "LimbLoops_gen_thorough.cfg", workers=1, name=tag + "-gen", timeout=1800)
    tlc_must_pass(r, "LimbLoops gen")
    chk.add_tlc(r, "behaviour generation")
    cases = printed_json(r, "CASE")
    if not cases:
        raise Infra("LimbLoops_gen produced no behaviours")
    return cases


def drive_a(rec, cases, part, nparts, quick, tag):
    rng = random.Random(rec.seed * 31 + part)
    L = Lib.get()
    mods = vecops.Modules(L)
    n_ok = 0
    for idx, c in enumerate(cases):
        if idx % nparts != part:
            continue
        kinds = ["fft64", "fft64-generic"] + (["ntt120"] if c["op"] in vecops.GENERIC else [])
        ns = [rng.choice(N_SMALL)]
        if not quick:
            ns.append(rng.choice(N_SMALL))
        if idx % (29 if quick else 7) == 0:
            ns.append(rng.choice(N_BIG))
        for n in ns:
            for mk in (kinds if n <= 64 else [rng.choice(kinds)]):
                if not rec.progress("%s[%s] N=%d sizes=(%d,%d,%d) alias=%s" % (c["op"], mk, n, c["rs"], c["as"], c["bs"], c["alias"])):
                    continue
                why, desc = vecops.run_case(L, mods, c, n, mk, rng, fill=rng.choice([0xC3, 0x00, 0xFF]),
                                            off=rng.choice([0, 8, 16, 24]))
                rec.case((tag, c["op"], mk, c["rs"], c["as"], c["bs"], c["rsl"], c["asl"], c["bsl"], c["alias"],
                          "small" if n <= 64 else "big"), nontrivial=c["rs"] > 0)
                if why:
                    rec.violation(desc + ": " + why, {"case": c, "N": n, "module": mk, "what": why})
                else:
                    n_ok += 1
    rec.data["ok"] = n_ok


def drive_b(rec, part, count):
    rng = random.Random(rec.seed * 977 + part)
    L = Lib.get()
    mods = vecops.Modules(L)
    events = []
    ops = sorted(vecops.ARITY)
    for it in range(count):
        op = rng.choice(ops)
        n = rng.choice([2, 4, 8, 8, 16, 32])
        ar = vecops.ARITY[op]
        top = rng.choice([41, 41, 41, 100])          # now and then well beyond 40 limbs
        rs, as_, bs = rng.randrange(0, top), (rng.randrange(0, top) if ar >= 1 else 0), (rng.randrange(0, top) if ar == 2 else 0)
        if rng.random() < 0.15 and ar >= 1:          # arithmetic relations between the sizes
            as_ = rng.randrange(0, 30)
            rs = rng.choice([2 * as_ + 1, 2 * as_, as_ + 1, max(0, as_ - 1), as_ // 2])
            bs = rng.choice([as_, as_ + 1, 2 * as_ + 1, rs]) if ar == 2 else 0
        big = op.startswith("big_")
        big_a = op in ("big_add", "big_add_small", "big_sub", "big_sub_small_b", "big_rotate", "big_automorphism")
        big_b = op in ("big_add", "big_sub", "big_sub_small_a")
        rsl = n if big else n + rng.choice([0, 1, 5, 17, 1000])
        asl = n if big_a else n + rng.choice([0, 1, 5, 17, 1000])
        bsl = n if big_b else n + rng.choice([0, 2, 7, 33])
        mk = rng.choice(["fft64", "fft64-generic"] + ([] if big else ["ntt120"]))
        if it % 9 == 4:                      # one-limb operands: their stride is never used to reach a second limb, any value will do (0 included)
            rs, as_, bs = min(rs, 1), min(as_, 1), min(bs, 1)
            rsl = rsl if big else rng.choice([0, 0, n, 7])
            asl = asl if big_a else rng.choice([0, 0, n, 3])
            bsl = bsl if big_b else rng.choice([0, 0, n, 5])
        R = Buf(8 * ((rs - 1) * rsl + n) if rs else 0, fill=0x6B, off=rng.choice([0, 8, 24]))
        A = Buf(8 * ((as_ - 1) * asl + n) if as_ else 0, fill=rng.choice([0x11, 0x00]))      # between the limbs: a pattern, or zeros
        B = Buf(8 * ((bs - 1) * bsl + n) if bs else 0, fill=rng.choice([0x22, 0x00]))
        nulls = rng.choice([0.0, 0.0, 0.2, 0.6])                                              # share of limbs that are the zero polynomial
        a = [[0] * n if rng.random() < nulls else [rng.randrange(-(1 << 20), 1 << 20) for _ in range(n)] for _ in range(as_)]
        b = [[0] * n if rng.random() < nulls else [rng.randrange(-(1 << 20), 1 << 20) for _ in range(n)] for _ in range(bs)]
        for i, v in enumerate(a):
            A.i64[i * asl:i * asl + n] = v
        for i, v in enumerate(b):
            B.i64[i * bsl:i * bsl + n] = v
        if ar == 2 and not big and it % 7 == 3 and as_ and bs:
            # the two sources are one and the same pointer, read with two different strides (both are only read: always well defined)
            A = Buf(8 * (max((as_ - 1) * asl, (bs - 1) * bsl) + n), fill=0x11)
            A.i64[:] = np.random.default_rng(rec.seed + it).integers(-(1 << 20), 1 << 20, len(A.i64), dtype=np.int64)
            B = A
            a = [[int(x) for x in A.i64[i * asl:i * asl + n]] for i in range(as_)]
            b = [[int(x) for x in A.i64[i * bsl:i * bsl + n]] for i in range(bs)]
        p = rng.randrange(-(1 << 30), 1 << 30)
        if "automorphism" in op:
            p |= 1
        a0, b0, r0 = A.snapshot(), B.snapshot(), R.snapshot()
        if not rec.progress("%s[%s] N=%d sizes=(%d,%d,%d) strides=(%d,%d,%d)" % (op, mk, n, rs, as_, bs, rsl, asl, bsl)):
            continue
        vecops.call_op(L, mods.get(n, mk), op, p, R, rs, rsl, A, as_, asl, B, bs, bsl)
        frame = R.canaries_ok() and A.canaries_ok() and B.canaries_ok() and bool((A.u8 == a0).all()) and bool((B.u8 == b0).all())
        rv, ru = R.i64, R.u8
        for i in range(rs - 1):
            frame = frame and bool((ru[8 * (i * rsl + n):8 * (i + 1) * rsl] == 0x6B).all())
        res = [[int(x) for x in rv[i * rsl:i * rsl + n]] for i in range(rs)]
        rec.case(("B", op, mk, min(rs, 4), min(as_, 4), min(bs, 4), rs < as_, rs < bs, as_ < bs), nontrivial=rs > 0)
        events.append({"e": "Call", "op": op, "N": n, "p": p % (2 * n), "a": a, "b": b, "rs": rs, "res": res, "frame": frame,
                       "_what": "%s[%s] N=%d sizes=(%d,%d,%d) strides=(%d,%d,%d) p=%d" % (op, mk, n, rs, as_, bs, rsl, asl, bsl, p)})
    # directed: add / sub whose two sources are one pointer read with two different strides, every module kind, equal and unequal sizes
    if part == 0:
        for op in ("add", "sub"):
            for mk in ("fft64", "fft64-generic", "ntt120"):
                for (as_, bs, rs) in ((2, 2, 2), (3, 3, 4), (3, 2, 3), (1, 1, 1)):
                    n = rng.choice([4, 8, 16])
                    asl, bsl, rsl = n + rng.choice([0, 3]), 2 * n + rng.choice([0, 1]), n + rng.choice([0, 5])
                    A = Buf(8 * (max((as_ - 1) * asl, (bs - 1) * bsl) + n), fill=0x11)
                    A.i64[:] = np.random.default_rng(rec.seed + n + as_).integers(-(1 << 20), 1 << 20, len(A.i64), dtype=np.int64)
                    a = [[int(x) for x in A.i64[i * asl:i * asl + n]] for i in range(as_)]
                    b = [[int(x) for x in A.i64[i * bsl:i * bsl + n]] for i in range(bs)]
                    R = Buf(8 * ((rs - 1) * rsl + n), fill=0x6B)
                    a0 = A.snapshot()
                    label = "%s[%s] N=%d sizes=(%d,%d,%d) strides=(%d,%d,%d), both sources one pointer" % (op, mk, n, rs, as_, bs, rsl, asl, bsl)
                    if not rec.progress(label):
                        continue
                    vecops.call_op(L, mods.get(n, mk), op, 0, R, rs, rsl, A, as_, asl, A, bs, bsl)
                    frame = R.canaries_ok() and A.canaries_ok() and bool((A.u8 == a0).all())
                    for i in range(rs - 1):
                        frame = frame and bool((R.u8[8 * (i * rsl + n):8 * (i + 1) * rsl] == 0x6B).all())
                    rec.case(("B-same-pointer", op, mk, as_, bs, rs))
                    events.append({"e": "Call", "op": op, "N": n, "p": 0, "a": a, "b": b, "rs": rs,
                                   "res": [[int(x) for x in R.i64[i * rsl:i * rsl + n]] for i in range(rs)], "frame": frame, "_what": label})
    rec.data["events"] = events


class Sparse:
    """a large anonymous mapping whose pages exist only where they are touched (MAP_NORESERVE): room for limbs that are gigabytes apart"""

    def __init__(self, nbytes):
        import ctypes
        import numpy as np
        c = ctypes.CDLL(None, use_errno=True)
        c.mmap.restype = ctypes.c_void_p
        c.mmap.argtypes = [ctypes.c_void_p, ctypes.c_size_t, ctypes.c_int, ctypes.c_int, ctypes.c_int, ctypes.c_long]
        c.munmap.argtypes = [ctypes.c_void_p, ctypes.c_size_t]
        self.c, self.nbytes = c, nbytes
        base = c.mmap(None, nbytes, 3, 0x22 | 0x4000, -1, 0)          # PROT_READ|WRITE, MAP_PRIVATE|ANONYMOUS|NORESERVE
        self.addr = None if base in (None, ctypes.c_void_p(-1).value) else base
        self.ctypes, self.np = ctypes, np

    def i64(self, byte_off, count):
        arr = (self.ctypes.c_int64 * count).from_address(self.addr + byte_off)
        return self.np.frombuffer(arr, dtype=self.np.int64)

    def u8(self, byte_off, count):
        arr = (self.ctypes.c_uint8 * count).from_address(self.addr + byte_off)
        return self.np.frombuffer(arr, dtype=self.np.uint8)

    def close(self):
        if self.addr:
            self.c.munmap(self.addr, self.nbytes)
            self.addr = None


def drive_huge_strides(rec, quick):
    """limb strides of 2^29 .. 2^32 coefficients (4 .. 32 GiB between two limbs of one vector), in a sparse mapping: every output limb is
    the operation on the operand limbs, the cells around the limbs keep their bytes, nothing else in reach is touched"""
    import numpy as np
    from lib import FFT64, NTT120, MASK_NONE, MASK_GENERIC
    rng = random.Random(rec.seed * 811 + 5)
    L = Lib.get()
    ok = 0
    sp = Sparse(34 << 30)
    if sp.addr is None:
        rec.notes.append("huge strides: a sparse mapping of 34 GiB was refused by the system (not a verdict)")
        rec.data["ok"] = 0
        return
    n = 64
    mods = {"fft64": L.module(n, FFT64, MASK_NONE), "fft64-generic": L.module(n, FFT64, MASK_GENERIC), "ntt120": L.module(n, NTT120, MASK_NONE)}
    L.set_cpu_mask(MASK_NONE)
    touched = []
    for (stride, limbs) in [((1 << 31), 3), ((1 << 32) + 16, 2), ((1 << 29) + 8, 3), ((1 << 31) + 1, 2)]:
        for op in ("copy", "negate", "add", "sub", "rotate", "automorphism", "zero"):
            for mk, who in [(mk_, w_) for mk_ in ("fft64", "fft64-generic", "ntt120") for w_ in (("all", rng.choice(["r", "a", "b"])) if quick else ("r", "a", "b", "all"))]:
                # which operand gets the huge stride: the result, the first or the second operand, or all of them
                rsl = stride if who in ("r", "all") else n + 33          # (the small strides leave room for the 16-cell margins of every limb)
                asl = stride if who in ("a", "all") else n + 35
                bsl = stride if who in ("b", "all") else n + 32
                base = {"r": 3 << 20, "a": 1 << 20, "b": 2 << 20}                # bases a megabyte apart: limbs of different operands never meet
                data = {}
                g = np.random.default_rng(rec.seed + stride % 1000 + len(op))
                for role, sl in (("a", asl), ("b", bsl), ("r", rsl)):
                    for i in range(limbs):
                        off = base[role] + 8 * i * sl
                        w = sp.i64(off - 8 * 16, n + 32)                           # the limb with 16 cells of margin on both sides
                        w[:] = 0x4D4D4D4D4D4D4D4D
                        v = g.integers(-(1 << 50), 1 << 50, n, dtype=np.int64)
                        w[16:16 + n] = v
                        data[(role, i)] = v
                        touched.append(off)
                p = rng.choice([1, 3, n + 1, -5]) | (1 if op == "automorphism" else 0)
                label = "vec_znx_%s[%s] N=%d %d limbs, stride of %s = %d coefficients" % (op, mk, n, limbs, who, stride)
                if not rec.progress(label):
                    continue
                import ctypes
                R, A, B = (ctypes.c_void_p(sp.addr + base[k]) for k in ("r", "a", "b"))
                vecops.call_op(L, mods[mk], op, p, R, limbs, rsl, A, limbs, asl, B, limbs, bsl)
                rec.case(("huge-stride", op, mk, who, stride))
                bad = None
                for i in range(limbs):
                    a, b = data[("a", i)], data[("b", i)]
                    e = {"copy": a, "negate": -a, "add": a + b, "sub": a - b, "zero": np.zeros(n, dtype=np.int64)}.get(op)
                    if e is None:
                        e = vecops.ring_map("rot" if op == "rotate" else "aut", n, p, a)
                    w = sp.i64(base["r"] + 8 * i * rsl - 8 * 16, n + 32)
                    if not np.array_equal(w[16:16 + n], e):
                        bad = "output limb %d is not the operation on the operand limbs %d" % (i, i)
                    elif not ((w[:16] == 0x4D4D4D4D4D4D4D4D).all() and (w[16 + n:] == 0x4D4D4D4D4D4D4D4D).all()):
                        bad = "cells next to output limb %d were modified" % i
                    for role, sl in (("a", asl), ("b", bsl)):
                        ws = sp.i64(base[role] + 8 * i * sl - 8 * 16, n + 32)
                        if not (np.array_equal(ws[16:16 + n], data[(role, i)]) and (ws[:16] == 0x4D4D4D4D4D4D4D4D).all()):
                            bad = bad or "operand %s limb %d modified" % (role, i)
                    if bad:
                        break
                if bad:
                    rec.violation(label + ": " + bad, {"op": op, "stride": stride, "who": who})
                else:
                    ok += 1
    for m_ in mods.values():
        L.delete_module(m_)
    sp.close()
    rec.data["ok"] = ok


def drive_giant(rec):
    """objects of more than 4 GiB (thorough tier only; about 9 GB of memory): byte counts and limb offsets beyond 32 bits.  N = 65536:
    zero extension of 8200 rows by vec_znx_dft and svp_apply_dft, vec_znx_idft of 8201 rows, NTT120 vec_znx_dft of 2049 rows - sampled rows
    against the same call on that row alone."""
    import numpy as np
    from lib import Buf, FFT64, NTT120, MASK_NONE
    rng = random.Random(rec.seed + 4)
    L = Lib.get()
    n = 65536
    ok = 0
    try:
        avail = int([l for l in open("/proc/meminfo") if l.startswith("MemAvailable")][0].split()[1]) // 1024      # MiB
    except (OSError, IndexError, ValueError):
        avail = 0
    if avail < 20000:
        rec.notes.append("giant objects: only %d MiB of memory available, 20000 needed - skipped (not a verdict)" % avail)
        rec.data["ok"] = 0
        return
    mod = L.module(n, FFT64, MASK_NONE)
    rows = 8201
    sp = Sparse(2 * (rows + 2) * 8 * n)
    if sp.addr is None:
        rec.notes.append("giant objects: the mapping was refused by the system (not a verdict)")
        rec.data["ok"] = 0
        return
    import ctypes
    nb = 8 * n
    D = ctypes.c_void_p(sp.addr)                                 # rows x N doubles
    G = ctypes.c_void_p(sp.addr + (rows + 1) * nb)                # rows x N int64
    a = Buf(nb, fill=0)
    a.i64[:] = np.random.default_rng(rec.seed).integers(-(1 << 30), 1 << 30, n, dtype=np.int64)
    pp = Buf(L.call("bytes_of_svp_ppol", mod), fill=0)
    L.call("svp_prepare", mod, pp, a)
    sample = sorted(set([0, 1, 2, 8190, 8191, 8192, 8193, rows - 1] + [rng.randrange(rows) for _ in range(6)]))

    def row(base, i):
        return sp.u8(base + i * nb, nb)
    for label, call in (("vec_znx_dft", lambda: L.call("vec_znx_dft", mod, D, rows, a, 1, n)),
                        ("svp_apply_dft", lambda: L.call("svp_apply_dft", mod, D, rows, pp, a, 1, n))):
        sp.u8(0, rows * nb)[:] = 0x5A                           # stale content everywhere
        if not rec.progress("%s N=%d res_size=%d a_size=1 (more than 4 GiB of zero extension)" % (label, n, rows)):
            continue
        call()
        rec.case(("giant", label))
        d1 = Buf(nb, fill=0x5A)
        if label == "vec_znx_dft":
            L.call("vec_znx_dft", mod, d1, 1, a, 1, n)
        else:
            L.call("svp_apply_dft", mod, d1, 1, pp, a, 1, n)
        bad = [i for i in sample if not np.array_equal(row(0, i), d1.u8 if i == 0 else np.zeros(nb, dtype=np.uint8))]
        if bad:
            rec.violation("%s N=%d res_size=%d a_size=1: rows %s are not what the call on one row gives (row 0) / zero (the others)" % (label, n, rows, bad[:5]), {})
        else:
            ok += 1
    # inverse DFT of 8201 rows: every row the same DFT row (so that one reference row is enough), result rows compared
    if rec.progress("vec_znx_idft N=%d, %d rows (more than 4 GiB copied / transformed)" % (n, rows)):
        d1 = Buf(nb, fill=0)
        L.call("vec_znx_dft", mod, d1, 1, a, 1, n)
        blk = sp.u8(0, rows * nb).reshape(rows, nb)
        blk[:] = d1.u8
        for i in sample:                                        # distinguishable rows at the sampled places
            r = sp.u8(i * nb, nb).view(np.float64)
            r *= float(1 + (i % 7))
        tmp = Buf(L.call("vec_znx_idft_tmp_bytes", mod), fill=0x55)
        L.call("vec_znx_idft", mod, G, rows, D, rows, tmp)
        rec.case(("giant", "vec_znx_idft"))
        bad = []
        for i in sample:
            g1, dd = Buf(nb, fill=0x66), Buf(nb)
            dd.u8[:] = row(0, i)
            L.call("vec_znx_idft", mod, g1, 1, dd, 1, tmp)
            if not np.array_equal(row((rows + 1) * nb, i), g1.u8):
                bad.append(i)
        if bad:
            rec.violation("vec_znx_idft N=%d %d rows: rows %s differ from the same call on that row alone" % (n, rows, bad[:5]), {})
        else:
            ok += 1
    L.delete_module(mod)
    sp.close()
    # NTT120: 2049 rows of 32 N bytes
    modn = L.module(n, NTT120, MASK_NONE)
    rows = 2049
    sp = Sparse((rows + 1) * 32 * n + (rows + 1) * nb)
    if sp.addr is not None and rec.progress("vec_znx_dft on an NTT120 module N=%d, %d rows (more than 4 GiB written)" % (n, rows)):
        src_off = (rows + 1) * 32 * n
        src = sp.i64(src_off, rows * n)
        src[:] = np.random.default_rng(rec.seed + 1).integers(-(1 << 62), 1 << 62, rows * n, dtype=np.int64)
        L.call("vec_znx_dft", modn, ctypes.c_void_p(sp.addr), rows, ctypes.c_void_p(sp.addr + src_off), rows, n)
        rec.case(("giant", "ntt120 vec_znx_dft"))
        bad = []
        for i in sorted(set([0, 1, 2047, 2048, rows - 1] + [rng.randrange(rows) for _ in range(5)])):
            d1, a1 = Buf(32 * n, fill=0x33), Buf(nb)
            a1.i64[:] = src[i * n:(i + 1) * n]
            L.call("vec_znx_dft", modn, d1, 1, a1, 1, n)
            if not np.array_equal(sp.u8(i * 32 * n, 32 * n), d1.u8):
                bad.append(i)
        if bad:
            rec.violation("vec_znx_dft (NTT120) N=%d %d rows: rows %s differ from the same call on that row alone" % (n, rows, bad[:5]), {})
        else:
            ok += 1
    sp.close()
    # NTT120 inverse DFT: 4100 result rows of 16 N bytes from one input row (more than 4 GiB of zero extension)
    rows = 4100
    sp = Sparse((rows + 1) * 16 * n)
    if sp.addr is not None:
        for form in ("vec_znx_idft", "vec_znx_idft_tmp_a"):
            if not rec.progress("%s on an NTT120 module N=%d res_size=%d a_size=1 (more than 4 GiB of zero extension)" % (form, n, rows)):
                continue
            sp.u8(0, rows * 16 * n)[:] = 0x5A
            a1, d1, g1 = Buf(nb), Buf(32 * n, fill=0x33), Buf(16 * n, fill=0x66)
            a1.i64[:] = np.random.default_rng(rec.seed + 2).integers(-(1 << 62), 1 << 62, n, dtype=np.int64)
            L.call("vec_znx_dft", modn, d1, 1, a1, 1, n)
            d2 = Buf(32 * n)
            d2.u8[:] = d1.u8
            tmpn = Buf(L.call("vec_znx_idft_tmp_bytes", modn), fill=0x55)
            if form == "vec_znx_idft":
                L.call(form, modn, ctypes.c_void_p(sp.addr), rows, d2, 1, tmpn)
                L.call(form, modn, g1, 1, d1, 1, tmpn)
            else:
                L.call(form, modn, ctypes.c_void_p(sp.addr), rows, d2, 1)
                L.call(form, modn, g1, 1, d1, 1)
            rec.case(("giant", "ntt120 " + form))
            samp = sorted(set([0, 1, 2, 4094, 4095, 4096, 4097, rows - 1] + [rng.randrange(rows) for _ in range(6)]))
            bad = [i for i in samp if not np.array_equal(sp.u8(i * 16 * n, 16 * n), g1.u8 if i == 0 else np.zeros(16 * n, dtype=np.uint8))]
            if bad:
                rec.violation("%s (NTT120) N=%d res_size=%d a_size=1: rows %s are not the inverse transform (row 0) / zero (the others)" % (form, n, rows, bad[:5]), {})
            else:
                ok += 1
        sp.close()
    L.delete_module(modn)
    rec.data["ok"] = ok


def drive_giant_tail(rec):
    """NTT120 vec_znx_dft N = 65536 of one limb into 2050 rows (thorough tier only; 4.3 GB): more than 4 GiB of zero extension in one call"""
    import ctypes
    import numpy as np
    from lib import Buf, NTT120, MASK_NONE
    rng = random.Random(rec.seed + 44)
    L = Lib.get()
    n, rows = 65536, 2050
    rec.data["ok"] = 0
    rec.data["events"] = []
    try:
        avail = int([l for l in open("/proc/meminfo") if l.startswith("MemAvailable")][0].split()[1]) // 1024      # MiB
    except (OSError, IndexError, ValueError):
        avail = 0
    if avail < 12000:
        rec.notes.append("giant zero extension: only %d MiB of memory available, 12000 needed - skipped (not a verdict)" % avail)
        return
    sp = Sparse(rows * 32 * n + (1 << 16))
    if sp.addr is None:
        rec.notes.append("giant zero extension: the mapping was refused by the system (not a verdict)")
        return
    modn = L.module(n, NTT120, MASK_NONE)
    if rec.progress("vec_znx_dft on an NTT120 module N=%d res_size=%d a_size=1 (more than 4 GiB of zero extension)" % (n, rows)):
        sp.u8(0, rows * 32 * n)[:] = 0x5A
        a1, d1 = Buf(8 * n), Buf(32 * n, fill=0x33)
        a1.i64[:] = np.random.default_rng(rec.seed + 3).integers(-(1 << 62), 1 << 62, n, dtype=np.int64)
        L.call("vec_znx_dft", modn, ctypes.c_void_p(sp.addr), rows, a1, 1, n)
        L.call("vec_znx_dft", modn, d1, 1, a1, 1, n)
        rec.case(("giant", "ntt120 vec_znx_dft zero extension"))
        samp = sorted(set([0, 1, 2, 3, 2046, 2047, 2048, rows - 1] + [rng.randrange(rows) for _ in range(8)]))
        bad = [i for i in samp if not np.array_equal(sp.u8(i * 32 * n, 32 * n), d1.u8 if i == 0 else np.zeros(32 * n, dtype=np.uint8))]
        if bad:
            rec.violation("vec_znx_dft (NTT120) N=%d res_size=%d a_size=1: rows %s are not the transform (row 0) / zero (the others)" % (n, rows, bad[:5]), {})
        else:
            rec.data["ok"] = 1
    L.delete_module(modn)
    sp.close()


def drive_volume(rec, quick):
    """Large objects (2^22 coefficients and more: 32 MiB per operand), contiguous limbs, every operand at its own alignment class
    (0, 8, 16, 24 bytes past a 32-byte boundary).  The limb-wise entry points - coefficient and big-coefficient arithmetic, DFT, inverse DFT,
    scalar product - must give, limb by limb, the bytes that the same call gives on that limb alone in a small buffer."""
    import numpy as np
    from lib import Buf, FFT64, NTT120, MASK_NONE, MASK_GENERIC
    rng = random.Random(rec.seed * 4099 + 17)
    L = Lib.get()
    shapes = [(65536, 70), (4096, 1100), (256, 17000)] if not quick else [rng.choice([(65536, 70), (4096, 1100)])]
    ok = 0
    for (n, limbs) in shapes:
        for mk, mt, mask in (("fft64", FFT64, MASK_NONE), ("fft64-generic", FFT64, MASK_GENERIC)):
            mod = L.module(n, mt, mask)
            L.set_cpu_mask(MASK_NONE)
            offs = [0, 8, 16, 24, 32, 40]
            A = Buf(8 * n * limbs, off=rng.choice(offs), fill=0x11)
            B = Buf(8 * n * limbs, off=rng.choice(offs), fill=0x22)
            g = np.random.default_rng(rec.seed + n)
            A.i64[:] = g.integers(-(1 << 40), 1 << 40, n * limbs, dtype=np.int64)
            B.i64[:] = g.integers(-(1 << 40), 1 << 40, n * limbs, dtype=np.int64)
            sample = sorted(set([0, 1, limbs // 2, limbs - 2, limbs - 1] + [rng.randrange(limbs) for _ in range(6)] +
                                [(1 << 22) // n - 1, (1 << 22) // n, (1 << 22) // n + 1]))
            sample = [i for i in sample if 0 <= i < limbs]

            def limb_of(buf, i, nbytes):
                return buf.u8[i * nbytes:(i + 1) * nbytes]

            def check(label, big_out, nbytes, one):
                """big_out: Buf holding `limbs` results of nbytes each; one(i) -> bytes of the single-limb call"""
                nonlocal ok
                for i in sample:
                    exp = one(i)
                    if exp is None or not np.array_equal(limb_of(big_out, i, nbytes), exp):
                        rec.violation("%s[%s] N=%d, %d limbs at once: limb %d differs from the same call on that limb alone" % (label, mk, n, limbs, i),
                                      {"op": label, "N": n, "limbs": limbs, "limb": i})
                        return
                if not (big_out.canaries_ok() and A.canaries_ok() and B.canaries_ok()):
                    rec.violation("%s[%s] N=%d, %d limbs at once: write outside a buffer" % (label, mk, n, limbs), {"op": label})
                    return
                ok += 1

            # coefficient arithmetic
            A_al = Buf(8 * n * limbs, off=0, fill=0x11)          # the same first operand, on a 64-byte boundary
            A_al.u8[:] = A.u8
            A_any = A
            for op, roff, aligned_a in [(o, r, al) for o in ("copy", "negate", "add", "sub", "rotate", "automorphism")
                                        for (r, al) in ((rng.choice([8, 16, 24, 40]), True), (rng.choice([0, 32]), False), (rng.choice(offs), None))]:
                label = "vec_znx_" + op
                if not rec.progress("%s[%s] N=%d limbs=%d (volume, result at +%d, first operand %s)" % (
                        label, mk, n, limbs, roff, "aligned" if aligned_a else "as allocated")):
                    continue
                A = A_al if aligned_a else A_any
                if aligned_a is False and A_any.addr % 32 == 0:
                    continue
                R = Buf(8 * n * limbs, off=roff, fill=0x6B)
                p = rng.choice([1, 3, n + 1, -5]) | (1 if op == "automorphism" else 0)
                vecops.call_op(L, mod, op, p, R, limbs, n, A, limbs, n, B, limbs, n)
                rec.case(("volume", op, mk, n, aligned_a))

                def one(i, op=op, p=p):
                    r1, a1, b1 = Buf(8 * n, fill=0x6B), Buf(8 * n), Buf(8 * n)
                    a1.u8[:] = limb_of(A, i, 8 * n)
                    b1.u8[:] = limb_of(B, i, 8 * n)
                    vecops.call_op(L, mod, op, p, r1, 1, n, a1, 1, n, b1, 1, n)
                    return r1.u8.copy()
                check(label, R, 8 * n, one)
            A = A_any
            # DFT, scalar product, inverse DFT (both forms)
            nb = L.call("bytes_of_vec_znx_dft", mod, 1)
            D = Buf(nb * limbs, off=rng.choice(offs), fill=0x33)
            small = Buf(8 * n * limbs, off=rng.choice(offs), fill=0)
            small.i64[:] = g.integers(-(1 << 20), 1 << 20, n * limbs, dtype=np.int64)
            if rec.progress("vec_znx_dft[%s] N=%d limbs=%d (volume)" % (mk, n, limbs)):
                L.call("vec_znx_dft", mod, D, limbs, small, limbs, n)
                rec.case(("volume", "dft", mk, n))

                def one_dft(i):
                    d1, a1 = Buf(nb, fill=0x33), Buf(8 * n)
                    a1.u8[:] = limb_of(small, i, 8 * n)
                    L.call("vec_znx_dft", mod, d1, 1, a1, 1, n)
                    return d1.u8.copy()
                check("vec_znx_dft", D, nb, one_dft)
            pp = Buf(L.call("bytes_of_svp_ppol", mod), fill=0x44)
            s1 = Buf(8 * n)
            s1.i64[:] = g.integers(-8, 9, n, dtype=np.int64)
            L.call("svp_prepare", mod, pp, s1)
            D2 = Buf(nb * limbs, off=rng.choice(offs), fill=0x33)
            if rec.progress("svp_apply_dft[%s] N=%d limbs=%d (volume)" % (mk, n, limbs)):
                L.call("svp_apply_dft", mod, D2, limbs, pp, small, limbs, n)
                rec.case(("volume", "svp", mk, n))

                def one_svp(i):
                    d1, a1 = Buf(nb, fill=0x33), Buf(8 * n)
                    a1.u8[:] = limb_of(small, i, 8 * n)
                    L.call("svp_apply_dft", mod, d1, 1, pp, a1, 1, n)
                    return d1.u8.copy()
                check("svp_apply_dft", D2, nb, one_svp)
            ng = L.call("bytes_of_vec_znx_big", mod, 1)
            tmp = Buf(L.call("vec_znx_idft_tmp_bytes", mod), fill=0x55)
            for form in ("vec_znx_idft", "vec_znx_idft_tmp_a"):
                if not rec.progress("%s[%s] N=%d limbs=%d (volume)" % (form, mk, n, limbs)):
                    continue
                G = Buf(ng * limbs, off=rng.choice(offs), fill=0x66)
                d0 = D.snapshot()

                def one_idft(i, form=form):
                    g1, d1 = Buf(ng, fill=0x66), Buf(nb)
                    d1.u8[:] = d0[i * nb:(i + 1) * nb]
                    if form == "vec_znx_idft":
                        L.call(form, mod, g1, 1, d1, 1, tmp)
                    else:
                        L.call(form, mod, g1, 1, d1, 1)
                    return g1.u8.copy()
                if form == "vec_znx_idft":
                    L.call(form, mod, G, limbs, D, limbs, tmp)
                else:
                    L.call(form, mod, G, limbs, D, limbs)
                rec.case(("volume", form, mk, n))
                check(form, G, ng, one_idft)
            L.delete_module(mod)
    rec.data["ok"] = ok


def model_check(chk, tag):
    quick = chk.tier == "quick"
    r = run_tlc("LimbLoops", ("LimbLoops_quick.cfg" if quick else "LimbLoops_thorough.cfg"), workers=16, coverage=True, name=tag + "-mc", timeout=1800)
    tlc_must_pass(r, "LimbLoops exhaustive")
    chk.add_tlc(r, "exhaustive + liveness")
    never = [a for a, (t, g) in r.coverage.items() if t == 0 and a != "Done"]
    if never:
        chk.notes.append("actions never taken: %s" % never)


def run(chk, replay=None):
    quick = chk.tier == "quick"
    Lib.get()
    chk.assumptions += ["per-limb kernels are validated separately (C07, C09); here limb contents are symbolic",
                        "operands below 2^60 so that sums stay inside int64 (documented 62-bit domain)"]
    model_check(chk, "c08")
    cases = gen_cases(chk, "c08")
    nparts = 12
    res = isolated_many(chk, [("replay of LimbLoops cases, part %d" % i, drive_a, (cases, i, nparts, quick, "A"))
                              for i in range(nparts)], timeout=1500, nproc=12)
    ok = sum(d["ok"] for d in res if d)
    chk.traces += ok
    chk.cov["behaviours_replayed"] = ok
    chk.sample({"direction": "A", "case": cases[len(cases) // 2]})
    # direction B
    res = isolated_many(chk, [("random shapes, part %d" % i, drive_b, (i, 150 if quick else 1200)) for i in range(8)],
                        timeout=900, nproc=8)
    events = [ev for d in res if d for ev in d["events"]]
    clean = [{k: v for k, v in ev.items() if not k.startswith("_")} for ev in events]
    bad, results = validate_events("LimbLoopsTrace", "LimbLoopsTrace.cfg", clean, "c08", nproc=8, timeout=1800)
    for r in results:
        chk.add_tlc(r, "trace validation")
    chk.traces += len(events) - len(bad)
    chk.cov["events_validated"] = len(events)
    dv = isolated(chk, "large volumes: every limb as on its own", drive_volume, (quick,), timeout=1800)
    chk.traces += dv["ok"] if dv else 0
    chk.cov["volume_calls_matching_limbwise"] = dv["ok"] if dv else 0
    dh = isolated(chk, "limb strides of gigabytes (sparse mapping)", drive_huge_strides, (quick,), timeout=900)
    chk.traces += dh["ok"] if dh else 0
    chk.cov["huge_stride_calls"] = dh["ok"] if dh else 0
    if not quick:
        dg = isolated(chk, "objects of more than 4 GiB", drive_giant, (), timeout=1800)
        chk.traces += dg["ok"] if dg else 0
        dt = isolated(chk, "NTT120 zero extension of more than 4 GiB", drive_giant_tail, (), timeout=1800)
        chk.traces += dt["ok"] if dt else 0
        chk.cov["giant_object_calls"] = (dg["ok"] if dg else 0) + (dt["ok"] if dt else 0)
    chk.cov["exhaustive"] = True
    chk.cov["box"] = "sizes 0..3 x strides {N, N+delta, 2N} x aliasing {none, res=a, res=b, a=b, all} x 16 operations"
    chk.cov["rule"] = "one case = (direction, op, module kind, sizes, stride kinds, alias, N class); non-trivial when res_size > 0"
    for b in bad[:20]:
        chk.violation(events[b]["_what"] + ": result or frame differs from the definition", clean[b])
    if events:
        chk.sample({"direction": "B", "event": clean[0]})
