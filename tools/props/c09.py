"""C09 - rotation, automorphism and (X^p-1) product are the ring maps for every p.

 1. TLC, exhaustive: the code-shaped machines of RingMaps.tla equal their definitions for every
    (fn, N, p) of a box, no out-of-range index, cycle walks bounded, termination (small config).
 2. direction A: the final states TLC enumerated (formal sums of signed input indices, N <= GenMaxN)
    are replayed on the real kernels with arbitrary (62-bit / random double) inputs.
 3. direction B: observations of the real kernels and wrappers for every residue p (N <= Nfull),
    structured and far-out p for larger N, validated by TLC against NegaRing's definitions.
"""
import random

import numpy as np

from common import (run_tlc, tlc_must_pass, printed_json, validate_events, to_words, Infra, isolated,
                    isolated_many)
from lib import Lib, Buf, FFT64, NTT120, MASK_NONE, MASK_GENERIC, ro

LEVEL = "model_checking"

KERNELS = [
    # name, kind, in-place?, dtype
    ("znx_rotate_i64", "rot", False, "i"), ("rnx_rotate_f64", "rot", False, "d"),
    ("znx_rotate_inplace_i64", "rot", True, "i"), ("rnx_rotate_inplace_f64", "rot", True, "d"),
    ("znx_automorphism_i64", "aut", False, "i"), ("rnx_automorphism_f64", "aut", False, "d"),
    ("znx_automorphism_inplace_i64", "aut", True, "i"), ("rnx_automorphism_inplace_f64", "aut", True, "d"),
    ("znx_mul_xp_minus_one", "mxp", False, "i"), ("rnx_mul_xp_minus_one", "mxp", False, "d"),
    ("rnx_mul_xp_minus_one_inplace", "mxp", True, "d"),
]
MODEL_FN = {("rot", False): "rotate", ("rot", True): "rotate_inplace", ("aut", False): "automorphism",
            ("aut", True): "automorphism_inplace", ("mxp", False): "mulxp", ("mxp", True): "mulxp_inplace"}


def run_kernel(L, name, inplace, dt, n, p, x):
    """x: numpy int64 vector (exact small integers) -> output as int64 vector, or None when the
    buffers were damaged (canary)."""
    src = Buf(8 * n, fill=0x11)
    (src.i64 if dt == "i" else src.f64)[:] = x
    if inplace:
        L.call(name, n, p, src)
        out = src
        ok = src.canaries_ok()
    else:
        dst = Buf(8 * n, fill=0xEE)
        before = src.snapshot()
        with ro(src):
            L.call(name, n, p, dst, src)
        ok = src.canaries_ok() and dst.canaries_ok() and bool((before == src.u8).all())
        out = dst
    if not ok:
        return None
    if dt == "i":
        return out.i64.copy()
    f = out.f64
    r = np.rint(f)
    if not np.array_equal(r, f):
        return None
    return r.astype(np.int64)


class Wrappers:
    """vec_znx_rotate / vec_znx_automorphism / big variants on modules, 2 limbs with padded stride."""
    L_rng = random.Random(12345)

    def __init__(self, L, n):
        self.L, self.n = L, n
        self.mods = {}
        if n >= 2:
            self.mods["fft64"] = L.module(n, FFT64, MASK_NONE)
            self.mods["fft64-generic"] = L.module(n, FFT64, MASK_GENERIC)
            self.mods["ntt120"] = L.module(n, NTT120, MASK_NONE)
            L.set_cpu_mask(MASK_NONE)

    def close(self):
        for m in self.mods.values():
            self.L.delete_module(m)

    def names(self, kind):
        out = []
        if kind == "mxp":
            return out
        f = "vec_znx_rotate" if kind == "rot" else "vec_znx_automorphism"
        for mk in self.mods:
            out += [(f, mk, False), (f, mk, True), (f, mk, "one"), (f, mk, "compact"), (f, mk, "compact-clear"), (f, mk, "grow"), (f, mk, "shrink")]
        g = "vec_znx_big_rotate" if kind == "rot" else "vec_znx_big_automorphism"
        for mk in ("fft64", "fft64-generic"):
            if mk in self.mods:
                out += [(g, mk, False), (g, mk, True), (g, mk, "grow"), (g, mk, "shrink")]
        return out

    def run(self, f, mk, inplace, p, x):
        L, n = self.L, self.n
        big = "big" in f
        sl = n if big else n + 3
        mod = self.mods[mk]
        if inplace == "one":    # one limb in place: the strides are nominal (never used to address a second limb) and differ
            a = Buf(8 * n, fill=0x33)
            a.i64[:] = x
            L.call(f, mod, p, a, 1, self.L_rng.choice([n, 0, 7]), a, 1, self.L_rng.choice([2 * n, 0, n]))
            return a.i64.copy() if a.canaries_ok() else None
        if inplace == "compact":    # two limbs compacted in place: res == a, a_sl = 2n + 1, res_sl = n (limb 0 is its own source, limb 1 of res
            asl = 2 * n + 1         # overlaps no source limb partly and nothing that is still to be read)
            a = Buf(8 * (asl + n), fill=0x33)
            a.i64[0:n] = x
            a.i64[asl:asl + n] = 2 * x
            L.call(f, mod, p, a, 2, n, a, 2, asl)
            ok = a.canaries_ok() and np.array_equal(a.i64[n:2 * n], 2 * a.i64[0:n]) and bool((a.u8[8 * 2 * n:8 * asl] == 0x33).all())
            return a.i64[0:n].copy() if ok else None
        if inplace == "compact-clear":    # two limbs compacted in place and the rest of the vector cleared: res_size = 4 > a_size = 2
            asl = 2 * n + 1
            a = Buf(8 * 4 * n, fill=0x33)
            a.i64[0:n] = x
            a.i64[asl:asl + n] = 2 * x
            L.call(f, mod, p, a, 4, n, a, 2, asl)
            ok = a.canaries_ok() and np.array_equal(a.i64[n:2 * n], 2 * a.i64[0:n]) and not a.i64[2 * n:4 * n].any()
            return a.i64[0:n].copy() if ok else None
        if inplace in ("grow", "shrink"):    # in place with unequal sizes: res_size = a_size + 1 (the extra limb, stale before the
            a = Buf(8 * 3 * sl, fill=0x33)   # call, must come out zero) or res_size = a_size - 1 (the last source limb is not output)
            a.i64[0:n] = x
            a.i64[sl:sl + n] = 2 * x
            a.i64[2 * sl:2 * sl + n] = 3 * x + 1
            rsz, asz = (3, 2) if inplace == "grow" else (1, 2)
            if big:
                L.call(f, mod, p, a, rsz, a, asz)
            else:
                L.call(f, mod, p, a, rsz, sl, a, asz, sl)
            rv = a.i64
            ok = a.canaries_ok() and (big or (bool((a.u8[8 * n:8 * sl] == 0x33).all()) and bool((a.u8[8 * (sl + n):8 * 2 * sl] == 0x33).all())))
            if inplace == "grow":
                ok = ok and np.array_equal(rv[sl:sl + n], 2 * rv[0:n]) and not rv[2 * sl:2 * sl + n].any()
            else:
                ok = ok and np.array_equal(rv[sl:sl + n], 2 * x) and np.array_equal(rv[2 * sl:2 * sl + n], 3 * x + 1)
            return rv[0:n].copy() if ok else None
        a = Buf(8 * 2 * sl, fill=0x33)
        av = a.i64
        av[0:n] = x
        av[sl:sl + n] = 2 * x
        res = a if inplace else Buf(8 * 2 * sl, fill=0x77)
        a0 = a.snapshot()
        if big:
            L.call(f, mod, p, res, 2, a, 2)
        else:
            L.call(f, mod, p, res, 2, sl, a, 2, sl)
        rv = res.i64
        ok = a.canaries_ok() and res.canaries_ok()
        if not inplace:
            ok = ok and bool((a0 == a.u8).all())
        if not big:  # stride padding untouched
            fill = 0x33 if inplace else 0x77
            ok = ok and bool((res.u8[8 * n:8 * sl] == fill).all()) and bool((res.u8[8 * (sl + n):] == fill).all())
        ok = ok and np.array_equal(rv[sl:sl + n], 2 * rv[0:n])
        return rv[0:n].copy() if ok else None


def ref_map(kind, n, p, x):
    """refmodel (push style, independent of the TLA+ pull-style definitions), exact on Python ints."""
    out = [0] * n
    xs = [int(v) for v in x]
    for i in range(n):
        t = (i + p) % (2 * n) if kind != "aut" else (i * p) % (2 * n)
        if t < n:
            out[t] += xs[i]
        else:
            out[t - n] -= xs[i]
    if kind == "mxp":
        out = [o - v for o, v in zip(out, xs)]
    return out


def ref_map_np(kind, n, p, x):
    i = np.arange(n, dtype=np.int64)
    pm = p % (2 * n)
    t = (i + pm) % (2 * n) if kind != "aut" else (i * pm) % (2 * n)
    out = np.zeros(n, dtype=np.int64)
    pos = t < n
    out[t[pos]] = x[pos]
    out[t[~pos] - n] = -x[~pos]
    if kind == "mxp":
        out = out - x
    return out


def structured_ps(n, rng, count):
    two_n = 2 * n
    ps = {0, 1, two_n - 1, n, n + 1, n - 1, 3, 5, n // 2, n // 2 + 1, two_n + 1, -1, -n, -3,
          (1 << 62) + 1, -(1 << 62) - 5, (1 << 63) - 1, -(1 << 63) + 1, 5 ** 7, -(5 ** 9)}
    j = 1
    while (1 << j) < two_n:
        ps |= {1 << j, (1 << j) + 1, (1 << j) - 1, n + (1 << j) + 1}
        j += 1
    ps = sorted(ps)
    rng.shuffle(ps)
    ps = ps[:count]
    ps += [rng.randrange(-(1 << 63) + 1, 1 << 63) for _ in range(max(2, count // 4))]
    return ps


def drive_a(rec, cases):
    rng = random.Random(rec.seed)
    L = Lib.get()
    n_replayed = 0
    for c in cases:
        n, p, fnm = c["N"], c["p"], c["fn"]
        for (name, kind, inplace, dt) in KERNELS:
            if MODEL_FN[(kind, inplace)] != fnm:
                continue
            # arbitrary inputs: 61-bit integers for the int64 kernels, 50-bit integer-valued doubles
            bits = 61 if dt == "i" else 50
            x = np.array([rng.randrange(-(1 << bits), 1 << bits) for _ in range(n)], dtype=np.int64)
            exp = [sum((1 if s > 0 else -1) * int(x[abs(s) - 1]) for s in cell) for cell in c["res"]]
            pp = p + 2 * n * rng.choice([0, 1, -1, 7, -(1 << 40)])
            if not rec.progress("%s(N=%d,p=%d)" % (name, n, pp)):
                continue
            got = run_kernel(L, name, inplace, dt, n, pp, x)
            n_replayed += 1
            rec.case(("A", name, n, p % (2 * n)), nontrivial=n > 1)
            if got is None or [int(v) for v in got] != exp:
                rec.violation("%s(N=%d,p=%d) differs from the model's final state" % (name, n, pp),
                              {"fn": name, "N": n, "p": pp, "in": [int(v) for v in x], "expected": exp,
                               "got": None if got is None else [int(v) for v in got]})
    rec.data["replayed"] = n_replayed


def drive_b(rec, n, full, quick):
    rng = random.Random(rec.seed * 1000003 + n)
    L = Lib.get()
    events = []
    scaled = 0
    W = Wrappers(L, n) if n <= 65536 else None      # modules exist up to N = 65536; the kernels take any power of two
    probe = np.arange(1, n + 1, dtype=np.int64)
    for kind in ("rot", "aut", "mxp"):
        if full:
            ps = [q for q in range(2 * n) if kind != "aut" or q % 2 == 1]
            # a few far-out representatives as well
            ps += [q + 2 * n * rng.choice([-1, 1 << 20, -(1 << 45)]) for q in rng.sample(ps, min(4, len(ps)))]
        else:
            ps = structured_ps(n, rng, 6 if quick else 24)
            if kind == "aut":
                ps = [q | 1 for q in ps]
        fns = [(nm, ip, dt) for (nm, k, ip, dt) in KERNELS if k == kind]
        wfs = W.names(kind) if W else []
        for p in ps:
            groups = {}
            rnd = np.array([rng.randrange(-(1 << 20), 1 << 20) for _ in range(n)], dtype=np.int64) \
                if (full and n <= 64) else None
            for (nm, ip, dt) in fns:
                if not rec.progress("%s(N=%d,p=%d)" % (nm, n, p)):
                    continue
                got = run_kernel(L, nm, ip, dt, n, p, probe)
                groups.setdefault(None if got is None else got.tobytes(), []).append(nm)
                rec.case((nm, n, p % (2 * n) if full else p), nontrivial=n > 1)
                # data independence / large operands (refmodel-mediated)
                bits = 61 if dt == "i" else 50
                big = np.array([rng.randrange(-(1 << bits), 1 << bits) for _ in range(n)], dtype=np.int64) \
                    if n <= 64 else (probe * rng.randrange(1, 1 << (40 if dt == "i" else 30)) + 0)
                if dt == "i" and n >= 2:
                    # the maps are signed permutations on the 64-bit words themselves: the most negative and the most positive values
                    # travel like any other (negation wraps), wherever they sit
                    big = big.copy()
                    big[0], big[n - 1] = -(1 << 63), (1 << 63) - 1
                    big[rng.randrange(n)] = -(1 << 63)
                g2 = run_kernel(L, nm, ip, dt, n, p, big)
                scaled += 1
                if g2 is None or not np.array_equal(g2, ref_map_np(kind, n, p, big)):
                    rec.violation("%s(N=%d,p=%d) on large operands differs from the reference map" % (nm, n, p),
                                  {"fn": nm, "N": n, "p": p})
                if rnd is not None:
                    g3 = run_kernel(L, nm, ip, dt, n, p, rnd)
                    if g3 is None:
                        rec.violation("%s(N=%d,p=%d): buffer contract broken" % (nm, n, p), {"fn": nm, "N": n, "p": p})
                    else:
                        events.append({"e": "Map", "kind": kind, "N": n, "pw": to_words(p), "fns": [nm],
                                       "in": [int(v) for v in rnd], "obs": [int(v) for v in g3], "_p": p})
            for (f, mk, ip) in wfs:
                if not rec.progress("%s[%s,%s](N=%d,p=%d)" % (f, mk, ip, n, p)):
                    continue
                got = W.run(f, mk, ip, p, probe)
                groups.setdefault(None if got is None else got.tobytes(), []).append(
                    "%s[%s%s]" % (f, mk, (",inplace, one limb, res_sl != a_sl" if ip == "one" else ",compacted in place" if ip == "compact" else ",compacted in place and the rest cleared" if ip == "compact-clear" else ",inplace, res_size = a_size + 1" if ip == "grow" else ",inplace, res_size = a_size - 1" if ip == "shrink" else ",inplace") if ip else ""))
                rec.case((f, mk, ip, n, p % (2 * n) if full else p))
            for key, names in groups.items():
                if key is None:
                    rec.violation("%s(N=%d,p=%d): buffer contract broken (canary, source or padding modified, "
                                  "non-integer output)" % (names, n, p), {"fns": names, "N": n, "p": p})
                    continue
                obs = np.frombuffer(key, dtype=np.int64)
                ev = {"e": "Map", "kind": kind, "N": n, "pw": to_words(p), "fns": names}
                if full or (n <= 2048 and not quick):
                    ev["obs"] = [int(v) for v in obs]
                else:
                    idx = sorted(set([0, 1, n // 2 - 1, n // 2, n // 2 + 1, n - 2, n - 1] +
                                     [rng.randrange(n) for _ in range(120)]))
                    ev["idx"] = idx
                    ev["obs"] = [int(obs[i]) for i in idx]
                    scaled += 1
                    if not np.array_equal(obs, ref_map_np(kind, n, p, probe)):
                        rec.violation("%s(N=%d,p=%d) differs from the reference map" % (names, n, p),
                                      {"fns": names, "N": n, "p": p})
                ev["_p"] = p
                events.append(ev)
    # a large dimension, every exponent close to 0, N and 2N (a kernel may treat short shifts, or shifts just past the sign change, on a
    # path of its own): the kernels against the reference map
    if n in ((16384,) if quick else (4096, 16384, 65536)):
        near = sorted(set(list(range(0, 161)) + list(range(n - 160, n + 161)) + list(range(2 * n - 160, 2 * n))))
        for kind in ("rot", "aut", "mxp"):
            for (nm, k, ip, dt) in KERNELS:
                if k != kind:
                    continue
                if not rec.progress("%s(N=%d) for every exponent close to 0, N and 2N" % (nm, n)):
                    continue
                for p in near:
                    pp = p | 1 if kind == "aut" else p
                    got = run_kernel(L, nm, ip, dt, n, pp, probe)
                    scaled += 1
                    if got is None or not np.array_equal(got, ref_map_np(kind, n, pp, probe)):
                        rec.violation("%s(N=%d,p=%d) differs from the reference map" % (nm, n, pp), {"fn": nm, "N": n, "p": pp})
                        break
                rec.case((nm, n, "near-boundary exponents"))
    if W:
        W.close()
    rec.data["events"] = events
    rec.data["scaled"] = scaled


def drive_c(rec, quick):
    """the same exponent p across dimensions inside ONE process (up, then down): a result may not depend on which (N, p) were used before"""
    rng = random.Random(rec.seed * 77 + 5)
    L = Lib.get()
    events = []
    dims = [2, 4, 8, 16, 64, 256, 1024] if quick else [1, 2, 4, 8, 16, 32, 64, 128, 256, 512, 1024, 2048, 4096]
    # modules are created and deleted along the way: an address handed out again to a module of another dimension may not bring back
    # anything remembered about the module that lived there before
    Ws = {}
    seq = [(p, n) for p in ([-1, 3, 5, 9, 12345] if quick else [-1, 1, 3, 5, 7, 9, 17, 31, 12345, -77, (1 << 40) + 1]) for n in dims + dims[::-1]]
    # one dimension, exponents that differ by N and 2N back to back (p, p+N, p, p+2N, p-N ...): whatever is remembered about the last
    # exponent must tell them apart
    for n in ([256, 4096] if quick else [128, 256, 1024, 2048, 4096]):
        for p0 in (5, 3, -7):
            seq += [(q, n) for q in (p0, p0 + n, p0, p0 + 2 * n, p0 - n, p0 + n, p0 + 3 * n, p0)]
    for (p, n) in seq:
        if True:
            for old_n in list(Ws):
                if old_n != n:
                    Ws.pop(old_n).close()
            if n not in Ws:
                Ws[n] = Wrappers(L, n)
            probe = np.arange(1, n + 1, dtype=np.int64)
            for kind in ("aut", "rot", "mxp"):
                groups = {}
                for (nm, k, ip, dt) in KERNELS:
                    if k != kind:
                        continue
                    if not rec.progress("%s(N=%d,p=%d) in a cross-dimension sequence" % (nm, n, p)):
                        continue
                    got = run_kernel(L, nm, ip, dt, n, p, probe)
                    groups.setdefault(None if got is None else got.tobytes(), []).append(nm)
                    rec.case(("seq", nm, n, p))
                for (f, mk, ip) in Ws[n].names(kind):
                    if mk != "fft64" or not rec.progress("%s[%s,%s](N=%d,p=%d) in a cross-dimension sequence" % (f, mk, ip, n, p)):
                        continue
                    got = Ws[n].run(f, mk, ip, p, probe)
                    groups.setdefault(None if got is None else got.tobytes(), []).append("%s[%s,%s]" % (f, mk, ip))
                for key, names in groups.items():
                    if key is None:
                        rec.violation("%s(N=%d,p=%d) in a cross-dimension sequence: buffer contract broken" % (names, n, p), {"fns": names, "N": n, "p": p})
                        continue
                    obs = np.frombuffer(key, dtype=np.int64)
                    ev = {"e": "Map", "kind": kind, "N": n, "pw": to_words(p), "fns": names, "_p": p}
                    if n <= 256:
                        ev["obs"] = [int(v) for v in obs]
                    else:
                        idx = sorted(set([0, 1, n // 2 - 1, n // 2, n - 1] + [rng.randrange(n) for _ in range(60)]))
                        ev["idx"], ev["obs"] = idx, [int(obs[i]) for i in idx]
                        if not np.array_equal(obs, ref_map_np(kind, n, p, probe)):
                            rec.violation("%s(N=%d,p=%d) in a cross-dimension sequence differs from the reference map" % (names, n, p),
                                          {"fns": names, "N": n, "p": p})
                    events.append(ev)
    for w in Ws.values():
        w.close()
    rec.data["events"] = events
    rec.data["scaled"] = 0


def run(chk, replay=None):
    quick = chk.tier == "quick"
    Lib.get()  # build once, before forking
    chk.assumptions += [
        "the kernels do not branch on coefficient values (read in coeffs_arithmetic.c; re-checked on every "
        "case with a second, random probe), so an injective probe determines the map on all inputs",
        "double variants are driven with integer-valued doubles (exact)"]

    # ---------------------------------------------------------------- 1. exhaustive model checking
    r = run_tlc("RingMaps", "RingMaps_small.cfg", workers=8, coverage=True, name="c09-small")
    tlc_must_pass(r, "RingMaps small (liveness)")
    chk.add_tlc(r, "exhaustive+liveness N<=16")
    never = [a for a, (t, g) in r.coverage.items() if t == 0 and a != "Done"]
    if never:
        chk.notes.append("actions never taken in RingMaps_small: %s" % never)
    cfg = "RingMaps_quick.cfg" if quick else "RingMaps_thorough.cfg"
    r = run_tlc("RingMaps", cfg, workers=16, xmx="24g", timeout=3000, name="c09-mc")
    tlc_must_pass(r, "RingMaps " + cfg)
    chk.add_tlc(r, "exhaustive " + cfg)

    # ---------------------------------------------------------------- 2. direction A
    r = run_tlc("RingMaps", "RingMaps_gen.cfg", workers=1, name="c09-gen")
    tlc_must_pass(r, "RingMaps gen")
    chk.add_tlc(r, "behaviour generation")
    cases = printed_json(r, "CASE")
    if not cases:
        raise Infra("RingMaps_gen produced no behaviours")
    d = isolated(chk, "replay of TLC-generated behaviours", drive_a, (cases,), timeout=300)
    replayed = d["replayed"] if d else 0
    chk.traces += replayed
    chk.cov["behaviours_replayed"] = replayed
    chk.sample({"direction": "A", "case": cases[len(cases) // 2]})

    # ---------------------------------------------------------------- 3. direction B
    nfull = 256 if quick else 1024
    jobs = []
    n = 1
    while n <= (1 << 21):
        jobs.append(("observation of the ring maps at N=%d" % n, drive_b, (n, n <= nfull, quick)))
        n *= 2
    jobs.append(("the same exponents across dimensions in one process", drive_c, (quick,)))
    events, scaled = [], 0
    for d in isolated_many(chk, jobs, timeout=1500, nproc=12):
        if d:
            events += d["events"]
            scaled += d["scaled"]
    clean = [{k: v for k, v in ev.items() if not k.startswith("_")} for ev in events]
    bad, results = validate_events("RingMapsTrace", "RingMapsTrace.cfg", clean, "c09", nproc=12, timeout=2400)
    for res in results:
        chk.add_tlc(res, "trace validation")
    chk.traces += len(events) - len(bad)
    chk.cov["events_validated"] = len(events)
    chk.cov["scaled_via_refmodel"] = scaled
    chk.cov["exhaustive"] = True
    chk.cov["box"] = "model: every (fn,N,p), N<=%s; code: every residue p for N<=%d, structured p up to N=65536" % (
        "256" if quick else "1024", nfull)
    chk.cov["rule"] = ("one case = (entry point, N, p mod 2N [exact p when sampled]); non-trivial when N>1; "
                       "entry points: 11 kernels, vec_znx_{rotate,automorphism} on FFT64/FFT64-generic/NTT120 modules "
                       "in and out of place, big variants")
    for b in bad[:20]:
        ev = events[b]
        chk.violation("%s N=%d p=%d: observed map is not the ring map of the specification" % (
            ev["fns"], ev["N"], ev.get("_p", 0)), clean[b])
    if events:
        chk.sample({"direction": "B", "event": {k: (v if not isinstance(v, list) or len(v) < 40 else v[:40] + ["..."])
                                                 for k, v in clean[min(len(clean) - 1, 300)].items()}})
