"""C07 - accelerated kernels compute the same function as their reference kernels.

 1. TLC: Dispatch.tla - for every kind of table / module entry, every dimension 2^0..2^16, every relevant parameter
    and every subset of {avx2, fma}, the kernel the code's selection rule picks is applicable (loop stride and
    minimum length read off the kernel) and of the right kind.
 2. dispatch observed on the real library: tables and modules created under the four CPU masks; the installed
    function pointer is resolved to a kernel name and TLC checks it is legal (equality with the transcribed rule is
    advisory: reported as model drift).
 3. kernel pairs, each variant validated against the same definition (never against each other only): znx add / sub /
    negate and rnx divide (ref / AVX; nn = 1, 2, 4, ...; misaligned; extremal; in place), pointwise kernels
    (ref / FMA / SSE / AVX-512), reim4 layouts and dot products, numeric conversions, q120 products (ref / AVX2),
    through the trace specifications of C08, C13, C17, C14, C10.
 4. public API: TLC-generated programs replayed under the AVX and the generic dispatch: identical integers.
"""
import ctypes
import random

import numpy as np

from common import run_tlc, tlc_must_pass, printed_json, validate_events, Infra, isolated, isolated_many
from lib import Lib, Buf, FFT64, NTT120, MASK_NONE, MASK_GENERIC
import kernels
import progs
from props import c01, c02, c10, c13, c14, c16, c17

LEVEL = "exploration"

TABLE_KINDS = {
    # kind: (constructor, signature, params)
    "reim_fft": ("new_reim_fft_precomp", "p ww", [0]), "reim_ifft": ("new_reim_ifft_precomp", "p ww", [0]),
    "reim_fftvec_mul": ("new_reim_fftvec_mul_precomp", "p w", [None]), "reim_fftvec_addmul": ("new_reim_fftvec_addmul_precomp", "p w", [None]),
    "reim_from_znx64": ("new_reim_from_znx64_precomp", "p ww", [50]),
    "reim_to_znx64": ("new_reim_to_znx64_precomp", "p wdw", [40, 50, 51, 63]),
    "reim_to_tnx": ("new_reim_to_tnx_precomp", "p wdw", [3]),
    "cplx_fft": ("new_cplx_fft_precomp", "p ww", [0]), "cplx_ifft": ("new_cplx_ifft_precomp", "p ww", [0]),
    "cplx_fftvec_mul": ("new_cplx_fftvec_mul_precomp", "p w", [None]), "cplx_fftvec_addmul": ("new_cplx_fftvec_addmul_precomp", "p w", [None]),
    "cplx_from_znx32": ("new_cplx_from_znx32_precomp", "p w", [None]), "cplx_from_tnx32": ("new_cplx_from_tnx32_precomp", "p w", [None]),
    "cplx_to_tnx32": ("new_cplx_to_tnx32_precomp", "p wdw", [0, 18, 19, 40]),
    "reim4_fftvec_mul": ("new_reim4_fftvec_mul_precomp", "p w", [None]), "reim4_fftvec_addmul": ("new_reim4_fftvec_addmul_precomp", "p w", [None]),
    "reim4_from_cplx": ("new_reim4_from_cplx_precomp", "p w", [None]), "reim4_to_cplx": ("new_reim4_to_cplx_precomp", "p w", [None]),
}
MODULE_KINDS = ["vec_znx_negate", "vec_znx_add", "vec_znx_sub", "vmp_prepare_contiguous", "vmp_apply_dft", "vmp_apply_dft_to_dft"]


def drive_dispatch(rec, names):
    L = Lib.get()
    addr2name = {}
    for nm in names:
        if L.has(nm):
            addr2name[ctypes.cast(getattr(L.sp, nm), ctypes.c_void_p).value] = nm
    events = []
    fn_of = L.fn("vh_table_fn", "p p", L.vh)
    mod_fn = L.fn("vh_module_fn", "p pp", L.vh)
    for mask in (0, 1, 2, 15):
        flags = [f for f, bit in (("avx2", 1), ("fma", 2)) if not (mask & bit)]
        L.set_cpu_mask(mask)
        for kind, (ctor, sig, params) in TABLE_KINDS.items():
            for m in (1, 2, 4, 8, 16, 64, 4096, 65536):
                if kind.startswith("reim4") and m < 4:
                    continue
                for par in params:
                    args = [m] + ([] if par is None else ([1.0, par] if sig == "p wdw" else [par]))
                    if not rec.progress("%s(m=%d, %s) under mask %d" % (ctor, m, par, mask)):
                        continue
                    t = L.fn(ctor, sig)(*args)
                    k = addr2name.get(fn_of(t), "unknown@%x" % (fn_of(t) or 0))
                    rec.case((kind, m, par, mask))
                    events.append({"e": "Sel", "kind": kind, "m": m, "par": par or 0, "flags": flags, "kernel": k,
                                   "_what": "%s m=%d par=%s mask=%d -> %s" % (kind, m, par, mask, k)})
        for n in (2, 4, 8, 64, 1024):
            mod = L.call("new_module_info", n, FFT64)
            for kind in MODULE_KINDS:
                k = addr2name.get(mod_fn(mod, kind.encode()), "unknown")
                rec.case((kind, n, mask))
                events.append({"e": "Sel", "kind": kind, "m": n // 2, "par": 0, "flags": flags, "kernel": k,
                               "_what": "module N=%d entry %s mask=%d -> %s" % (n, kind, mask, k)})
            L.delete_module(mod)
    L.set_cpu_mask(0)
    rec.data["events"] = events


def drive_leaves(rec, quick):
    """the leaf kernels of the reim transforms (16, 8, 4 points, forward and inverse), portable against accelerated, with the real and the
    imaginary half next to each other, in two separate arrays, and with the imaginary half BEFORE the real one: the same values up to
    rounding, nothing written outside the 2 x K numbers"""
    import numpy as np
    from lib import Buf
    rng = random.Random(rec.seed + 91)
    L = Lib.get()
    ok = 0
    for K in (16, 8, 4):
        for tr in ("fft", "ifft"):
            omg = Buf(8 * 128, fill=0)
            cur = ctypes.c_void_p(omg.addr)
            L.fn("fill_reim_%s%d_omegas" % (tr, K), "v dp")(0.25, ctypes.addressof(cur))
            for layout in ("adjacent", "separate", "imaginary first", "gap of 3"):
                for rep in range(3 if quick else 20):
                    re = np.array([float(rng.randrange(-1000, 1001)) for _ in range(K)])
                    im = np.array([float(rng.randrange(-1000, 1001)) for _ in range(K)])
                    outs = {}
                    for variant in ("ref", "avx_fma"):
                        if layout == "separate":
                            A, B = Buf(8 * K, fill=0x4D), Buf(8 * K, fill=0x4D)
                            pre, pim, whole = A.addr, B.addr, None
                        else:
                            gap = {"adjacent": 0, "imaginary first": 0, "gap of 3": 3}[layout]
                            whole = Buf(8 * (2 * K + gap), fill=0x4D)
                            pre, pim = (whole.addr, whole.addr + 8 * (K + gap)) if layout != "imaginary first" else (whole.addr + 8 * K, whole.addr)
                        np.ctypeslib.as_array(ctypes.cast(pre, ctypes.POINTER(ctypes.c_double)), shape=(K,))[:] = re
                        np.ctypeslib.as_array(ctypes.cast(pim, ctypes.POINTER(ctypes.c_double)), shape=(K,))[:] = im
                        label = "reim_%s%d_%s, %s halves" % (tr, K, variant, layout)
                        if not rec.progress(label):
                            continue
                        L.fn("reim_%s%d_%s" % (tr, K, variant), "v ppp")(pre, pim, omg.addr)
                        o_re = np.ctypeslib.as_array(ctypes.cast(pre, ctypes.POINTER(ctypes.c_double)), shape=(K,)).copy()
                        o_im = np.ctypeslib.as_array(ctypes.cast(pim, ctypes.POINTER(ctypes.c_double)), shape=(K,)).copy()
                        fine = (A.canaries_ok() and B.canaries_ok()) if whole is None else whole.canaries_ok()
                        if whole is not None and layout == "gap of 3":
                            fine = fine and bool((whole.u8[8 * K:8 * (K + 3)] == 0x4D).all())
                        rec.case(("leaf", tr, K, variant, layout))
                        if not fine:
                            rec.violation(label + ": wrote outside the 2 x %d numbers" % K, {})
                            continue
                        outs[variant] = np.concatenate([o_re, o_im])
                    if len(outs) == 2:
                        scale = float(np.max(np.abs(outs["ref"]))) or 1.0
                        if not np.all(np.isfinite(outs["avx_fma"])) or float(np.max(np.abs(outs["ref"] - outs["avx_fma"]))) > scale * 1e-12:
                            rec.violation("reim_%s%d: the accelerated leaf differs from the portable one (%s halves)" % (tr, K, layout), {"K": K, "tr": tr})
                        else:
                            ok += 1
    rec.data["ok"] = ok


def drive_big_prepare(rec, quick):
    """a prepared matrix of 16 MiB and more (N x rows x columns >= 2^21), at an address that is and is not 32-byte aligned: each
    dispatch writes the same bytes at both addresses, and the two dispatches agree up to the rounding of the transform"""
    import numpy as np
    from lib import Buf
    rng = random.Random(rec.seed + 77)
    L = Lib.get()
    ok = 0
    for (n, nrows, ncols) in ([(4096, 32, 16)] if quick else [(4096, 32, 16), (65536, 8, 5), (1024, 64, 33)]):
        g = np.random.default_rng(rec.seed + n)
        M = Buf(8 * n * nrows * ncols, fill=0x3C)
        M.i64[:] = g.integers(-(1 << 20), 1 << 20, n * nrows * ncols, dtype=np.int64)
        out = {}
        for mask in (MASK_NONE, MASK_GENERIC):
            mod = L.module(n, FFT64, mask)
            L.set_cpu_mask(MASK_NONE)
            for off in (16, 0):
                label = "vmp_prepare_contiguous N=%d %dx%d mask=%d prepared matrix at +%d" % (n, nrows, ncols, mask, off)
                if not rec.progress(label):
                    continue
                pm = Buf(L.call("bytes_of_vmp_pmat", mod, nrows, ncols), off=off, fill=0xEE)
                t1 = Buf(L.call("vmp_prepare_contiguous_tmp_bytes", mod, nrows, ncols), off=rng.choice([0, 8]), fill=0xEE)
                L.call("vmp_prepare_contiguous", mod, pm, M, nrows, ncols, t1)
                rec.case(("big-prepare", n, mask, off))
                if not (pm.canaries_ok() and t1.canaries_ok() and M.canaries_ok()):
                    rec.violation(label + ": write outside the prepared matrix or the scratch", {})
                    continue
                out[(mask, off)] = pm.u8.copy()
            L.delete_module(mod)
        # the same dispatch at the two addresses: the same bytes; the two dispatches: the same numbers up to the rounding of the transform
        for mask in (MASK_NONE, MASK_GENERIC):
            u, v = out.get((mask, 16)), out.get((mask, 0))
            if u is None or v is None:
                continue
            if not np.array_equal(u, v):
                rec.violation("vmp_prepare_contiguous N=%d %dx%d mask=%d: the prepared bytes depend on the address of the prepared matrix" % (
                    n, nrows, ncols, mask), {"N": n, "nrows": nrows, "ncols": ncols, "mask": mask})
            else:
                ok += 1
        u, v = out.get((MASK_NONE, 16)), out.get((MASK_GENERIC, 0))
        if u is not None and v is not None:
            du, dv = u.view(np.float64), v.view(np.float64)
            scale = float(np.max(np.abs(dv))) or 1.0
            if not np.all(np.isfinite(du)) or float(np.max(np.abs(du - dv))) > scale * 2.0 ** -40:
                rec.violation("vmp_prepare_contiguous N=%d %dx%d: the accelerated prepared matrix differs from the portable one by more than "
                              "rounding" % (n, nrows, ncols), {"N": n, "nrows": nrows, "ncols": ncols})
            else:
                ok += 1
    rec.data["ok"] = ok


def drive_znx(rec, quick):
    """znx add / sub / negate and rnx divide: ref and AVX, every nn down to 1, misaligned, extremal, in place"""
    rng = random.Random(rec.seed + 13)
    L = Lib.get()
    events = []
    for nn in [1, 2, 4, 8, 16, 64, 256] + ([] if quick else [1024, 4096, 65536]):
        for variant in ("ref", "avx"):
            for op in ("add", "sub", "negate"):
                for vals in ("small", "extreme"):
                    for alias in ("none", "ra", "rb"):
                        if op == "negate" and alias == "rb":
                            continue
                        off = rng.choice([0, 8, 16, 24])
                        A, B = Buf(8 * nn, off=off, fill=0x11), Buf(8 * nn, off=rng.choice([0, 8, 24]), fill=0x22)
                        R = A if alias == "ra" else (B if alias == "rb" else Buf(8 * nn, off=rng.choice([0, 8, 16]), fill=0xEE))
                        lim = 1 << 19 if vals == "small" else 1 << 61
                        a = np.array([rng.choice([lim - 1, -lim, 0, rng.randrange(-lim, lim)]) for _ in range(nn)], dtype=np.int64)
                        b = np.array([rng.choice([lim - 1, -lim, 1, rng.randrange(-lim, lim)]) for _ in range(nn)], dtype=np.int64)
                        A.i64[:] = a
                        B.i64[:] = b
                        fn = "znx_%s_i64_%s" % (op, variant)
                        if not rec.progress("%s nn=%d alias=%s %s" % (fn, nn, alias, vals)):
                            continue
                        if op == "negate":
                            L.call(fn, nn, R, A)
                        else:
                            L.call(fn, nn, R, A, B)
                        rec.case((fn, nn, alias, vals))
                        exp = {"add": a + b, "sub": a - b, "negate": -a}[op]
                        ok = A.canaries_ok() and B.canaries_ok() and R.canaries_ok()
                        if alias != "ra":
                            ok = ok and np.array_equal(A.i64, a)
                        if alias != "rb" and op != "negate":
                            ok = ok and np.array_equal(B.i64, b)
                        if not ok:
                            rec.violation("%s nn=%d alias=%s: source modified or write outside the output" % (fn, nn, alias), {})
                            continue
                        if vals == "small" and nn <= 64:
                            events.append({"e": "Call", "op": op, "N": nn, "p": 0, "a": [a.tolist()], "b": [b.tolist()] if op != "negate" else [],
                                           "rs": 1, "res": [R.i64.tolist()], "frame": True, "_what": "%s nn=%d alias=%s" % (fn, nn, alias)})
                        elif not np.array_equal(R.i64, exp):
                            rec.violation("%s nn=%d alias=%s on 61-bit operands differs from the exact result" % (fn, nn, alias), {})
        # rnx_divide_by_m
        for variant in ("ref", "avx"):
            if variant == "avx" and nn not in (1, 2, 4) and nn % 8:
                continue
            for mdiv in (1.0, 2.0, 1024.0, 65536.0 * 65536.0, 3.0):
                A, R = Buf(8 * nn, off=rng.choice([0, 8, 24])), Buf(8 * nn, fill=0xEE)
                # ordinary magnitudes, signed zero, and operands whose quotient is subnormal or whose exponent is near the top (the
                # division by a power of two is exact there too, by IEEE-754 gradual underflow, as long as no bit is shifted out)
                a = np.array([rng.choice([0.0, -0.0, 1.0, -1.0, float(rng.randrange(-(1 << 52), 1 << 52)), rng.random() * 1e6,
                                          float(np.ldexp(1.0 + rng.randrange(1 << 20) / (1 << 20), rng.randrange(-1022, -990))) * rng.choice([1, -1]),
                                          float(np.ldexp(1.5, rng.randrange(990, 1023)))]) for _ in range(nn)])
                A.f64[:] = a
                fn = "rnx_divide_by_m_" + variant
                if not rec.progress("%s n=%d m=%g" % (fn, nn, mdiv)):
                    continue
                L.call(fn, nn, mdiv, R, A)
                rec.case((fn, nn, mdiv))
                exact = a / mdiv                      # exact for powers of two; within 1 ulp otherwise
                if not (A.canaries_ok() and R.canaries_ok() and np.array_equal(A.f64, a)):
                    rec.violation("%s n=%d: source modified or write outside the output" % (fn, nn), {})
                elif (mdiv != 3.0 and not np.array_equal(R.f64.view(np.uint64), exact.view(np.uint64))) or \
                        (mdiv == 3.0 and not np.allclose(R.f64, exact, rtol=4e-16, atol=5e-324)):
                    rec.violation("%s n=%d m=%g: not the quotient (exact for a power of two, a few ulp otherwise)" % (fn, nn, mdiv), {})
    rec.data["events"] = events


def drive_both_masks(rec, programs, part, nparts):
    rng = random.Random(rec.seed * 3 + part)
    L = Lib.get()
    ok = 0
    for idx, prog in enumerate(programs):
        if idx % nparts != part or prog["mod"] != "FFT64":
            continue
        t = rng.choice([1, 2, 4, 16, 64])
        res = []
        for mask in (MASK_NONE, MASK_GENERIC):
            bad, nsteps = progs.run_program(L, prog, t, mask, random.Random(idx), progress=rec.progress)
            for st in prog["steps"][:nsteps]:
                rec.case((st["op"], mask, "N<8" if prog["N0"] * t < 8 else "N>=8"))
            if bad:
                i, why = bad
                rec.violation("program step %d (%s) N=%d under mask %d: %s" % (i, progs.describe(prog["steps"][i]), prog["N0"] * t, mask, why),
                              {"program": prog, "t": t, "mask": mask, "step": i})
            res.append(bad is None)
        ok += all(res)
    rec.data["ok"] = ok


def run(chk, replay=None):
    quick = chk.tier == "quick"
    L = Lib.get()
    chk.assumptions += ["every variant is validated against the definition of its kind, not only against its sibling",
                        "NEON kernels cannot run on this host; AVX-512 kernels run because the host has avx512f/dq/vl"]
    r = run_tlc("Dispatch", "Dispatch.cfg", workers=1, name="c07-dispatch")
    tlc_must_pass(r, "Dispatch")
    chk.add_tlc(r, "selection legal for all kinds x 17 dimensions x parameters x 4 flag sets (ASSUME)")
    # kernel names known to the specification
    rr = run_tlc("DispatchNames", "DispatchNames.cfg", workers=1, name="c07-names")
    names = printed_json(rr, "NAMES")
    names = names[0] if names else []
    jobs = [("dispatch observation", drive_dispatch, (names,)), ("znx / rnx kernel pairs", drive_znx, (quick,)),
            ("pointwise kernels", c13.drive_pw_b, (7, 200 if quick else 1500)),
            ("reim4 dot products and convolution", c17.drive_arith, (True,)),
            ("numeric conversions", c14.drive, (3, [8, 16] if quick else [1, 4, 8, 16, 64], True)),
            ("q120 products", c10.drive_products, (5, [1, 7, 64] if quick else [1, 7, 64, 1000], 2)),
            ("dense vector-matrix products under both dispatch configurations, misaligned operands", c02.drive_b, (11, 60 if quick else 600)),
            ("polynomial products at the edge of the budget under both dispatch configurations", c01.drive_b,
             (13, [16, 32] if quick else [16, 64, 256], 60 if quick else 400, False))]
    res = isolated_many(chk, jobs, timeout=1800, nproc=8)
    specs = ["DispatchTrace", "LimbLoopsTrace", "PointwiseTrace", "PointwiseTrace", "ConvTrace", "Q120Trace", "VmpTrace", "ProductTrace"]
    for d, spec, job in zip(res, specs, jobs):
        if not d:
            continue
        evs = d["events"]
        clean = [{k: v for k, v in ev.items() if not k.startswith("_")} for ev in evs]
        bad, results = validate_events(spec, spec + ".cfg", clean, "c07-" + spec + str(jobs.index(job)), nproc=4, timeout=1800)
        for x in results:
            chk.add_tlc(x, "trace validation: " + job[0])
            if spec == "DispatchTrace":
                out = printed_json(x, "RESULT")
                drift = out[-1].get("drift", []) if out else []
                if drift:
                    chk.cov["model_drift"] = [evs[i - 1]["_what"] for i in drift[:20]]
                    chk.notes.append("model_drift: %d selections differ from the transcribed rule of Dispatch.tla while being legal" % len(drift))
        chk.traces += len(evs) - len(bad)
        chk.cov["events_" + job[0].replace(" ", "_")] = len(evs)
        for b in bad[:10]:
            chk.violation(evs[b]["_what"] + ": " + ("the selected kernel is not applicable to this dimension or is of another kind"
                                                    if spec == "DispatchTrace" else "differs from the definition of its kind"), clean[b])
        if evs and spec in ("DispatchTrace", "LimbLoopsTrace"):
            chk.sample({job[0]: clean[len(clean) // 2]})
    programs = c16.generate(chk, ["Spqlios_sim.cfg", "Spqlios_sim8.cfg"], 15 if quick else 150, 16, "c07")
    pr = isolated_many(chk, [("programs under both dispatch configurations, part %d" % i, drive_both_masks, (programs, i, 6)) for i in range(6)],
                       timeout=2400, nproc=6)
    chk.traces += sum(d["ok"] for d in pr if d)
    chk.cov["programs_identical_under_both_dispatches"] = sum(d["ok"] for d in pr if d)
    from common import isolated
    dlf = isolated(chk, "leaf kernels of the reim transforms, portable against accelerated", drive_leaves, (quick,), timeout=600)
    chk.traces += dlf["ok"] if dlf else 0
    chk.cov["leaf_kernel_pairs_agreeing"] = dlf["ok"] if dlf else 0
    db = isolated(chk, "large prepared matrices under both dispatch configurations", drive_big_prepare, (quick,), timeout=1200)
    chk.traces += db["ok"] if db else 0
    chk.cov["rule"] = "one case = (kind, m, parameter, mask) / (kernel, variant, n, aliasing, value class) / (API call, mask, layout class)"
