"""C04 - q120 lazy modular arithmetic never wraps 64 bits on any in-range operand.

 1. exact envelope certificate (Q120.tla / Q120Trace.tla, Wide integers): for the metadata the REAL tables contain
    (half_bs, bs, reduce flags, q*2^k offsets, reduction split and constants, read from the freshly built tables),
    every n = 2..65536, forward and inverse, TLC propagates the exact per-prime maximum through every step and
    checks: no sum reaches 2^64, every operand of a 32x32 multiplication is below 2^32, the lazy subtraction offset
    is a multiple of q and at least the subtrahend, the bit size the code claims is sound. Same for the accumulators
    of the a*a, b*b, b*c products (ref and AVX2 step lists) at ell = 10000 on maximal operands.
 2. stage hook: NTT / iNTT executed on worst-case lane patterns with the per-stage callback; TLC checks that the
    recorded stages form a legal schedule (every level of every chunk once, after its predecessor) and that the
    observed per-prime lane maxima stay below the certificate.
 3. witnesses: worst-case operands (all-maximal, alternating, single-maximal, just below q*2^k) through NTT round
    trips and through the six product kernels at ell up to 10000: results congruent to the exact value modulo each
    prime (TLC recomputes the products), reference and AVX2 agree.
"""
import random

import numpy as np

from common import validate_events, to_words, Infra, isolated_many
from lib import Lib
import q120
from props import c03, c10

LEVEL = "model_checking"
U64 = (1 << 64) - 1


def drive_meta(rec, ns):
    L = Lib.get()
    qc = q120.Q(L)
    events = []
    for n in ns:
        for inverse in (False, True):
            m = qc.ntt_meta(n, inverse)
            m["e"] = "NttMeta"
            m["_what"] = "envelope certificate n=%d %s" % (n, "inverse" if inverse else "forward")
            events.append(m)
            rec.case(("meta", n, inverse))
    if ns[0] == 2:
        for kind in ("baa", "bbb", "bbc"):
            for impl in ("ref", "avx2"):
                m = qc.prod_meta(kind)
                m.update(e="ProdMeta", kind=kind, impl=impl, _what="accumulator certificate %s_%s ell=10000" % (kind, impl))
                events.append(m)
                rec.case(("prodmeta", kind, impl))
    rec.data["events"] = events


def drive_stages(rec, ns, quick):
    rng = random.Random(rec.seed * 23 + ns[0])
    L = Lib.get()
    qc = q120.Q(L)
    L.events_enable(1 << 18)
    events = []
    for n in ns:
        for kind in (["ones", "near"] if quick else ["ones", "alt", "near", "random", "single"]):
            if kind == "single":
                x = np.zeros((n, 4), dtype=np.uint64)
                x[rng.randrange(n)] = U64
            else:
                x = c03.pattern(n, kind, rng, qc)
            cur = x
            for inverse in (False, True):
                if not rec.progress("q120 %s n=%d pattern=%s with stage hook" % ("intt" if inverse else "ntt", n, kind)):
                    continue
                L.events(clear=True)
                y = qc.run_ntt(n, inverse, cur)
                raw = L.events(clear=True)
                rec.case(("stages", n, kind, inverse))
                if y is None:
                    rec.violation("q120 ntt n=%d wrote outside its data" % n, {"n": n})
                    break
                st = [r for r in raw if r[0] in (30, 31)]
                meta = qc.ntt_meta(n, inverse)
                lens = [int(st[i][7]) for i in range(0, len(st), 2)]
                meta.update(e="NttMeta", g=min(lens) if lens else n, _what="envelope for the staged run n=%d" % n)
                events.append(meta)
                for i in range(0, len(st) - 1, 2):
                    a, b = st[i], st[i + 1]
                    events.append({"e": "NttStage", "n": n, "dir": int(a[3]) // 16, "kind": int(a[3]) % 16, "nn": int(a[4]), "off": int(a[5]),
                                   "level": int(a[6]), "len": int(a[7]), "mx": [to_words(int(b[3 + k]), 4) for k in range(4)],
                                   "_what": "stage n=%d %s level %d block at %d (pattern %s)" % (n, "inverse" if inverse else "forward",
                                                                                                int(a[6]), int(a[5]), kind)})
                cur = y
            # witness: the round trip on this worst-case pattern is the identity modulo each prime
            if cur is not None:
                mism = int((c03.mod_rows(cur, qc) != c03.mod_rows(x, qc)).sum())
                events.append({"e": "NttSummary", "n": n, "pattern": kind, "mismatches": mism, "_what": "worst-case round trip n=%d %s" % (n, kind)})
    rec.data["events"] = events


def lowmax_pair(qc, kind, rng):
    """one term (x, y) whose half-word products are all congruent to -1 modulo the half-word size: every low half the kernels add up
    is at its maximum (the 'max' pattern maximises the high halves instead)"""
    q = qc.q
    xs, ys = [], []
    for k in range(4):
        if kind == "bbc" or kind.startswith("x2"):
            v = rng.randrange(0, q[k])
            r0, r1 = v, (v << 32) % q[k]
            r0 += q[k] * (1 - r0 % 2)       # odd representatives (q is odd, and 2q < 2^32)
            r1 += q[k] * (1 - r1 % 2)
            xs.append(((-pow(r0, -1, 1 << 32)) % (1 << 32)) | (((-pow(r1, -1, 1 << 32)) % (1 << 32)) << 32))
            ys += [r0, r1]
        else:
            w = 16 if kind == "baa" else 32
            b = rng.randrange(0, 1 << w) | 1
            a = (-pow(b, -1, 1 << w)) % (1 << w)
            xs.append(a | (a << w))
            ys.append(b | (b << w))
    return xs, ys


def drive_products(rec, ells, pats=("max", "alt", "single", "lane", "lowmax")):
    rng = random.Random(rec.seed + 77 + (ells[0] if ells else 0))
    L = Lib.get()
    qc = q120.Q(L)
    events = []
    for ell in ells:
        for (kind, lx, ly) in [("baa", "a", "a"), ("bbb", "b", "b"), ("bbc", "b", "c"), ("x2c1", "b", "c"), ("x2c2", "b", "c")]:
            for pat in pats:
                if (pat == "lane" and ell >= 1000) or (pat == "single" and ell == 10000):
                    continue        # (value-pattern probes at the short lengths and at 9999; the accumulator bounds at 10000)
                xe = 2 if kind.startswith("x2") else 1
                ye = {"x2c1": 2, "x2c2": 4}.get(kind, 1)
                if pat == "single":     # one maximal term (the last one) among zeros: each term must be counted exactly once
                    xs = [c10.lanes(qc, lx, "max", rng, i) if i >= (ell - 1) * xe else [0] * (8 if lx == "c" else 4) for i in range(ell * xe)]
                    ys = [c10.lanes(qc, ly, "max", rng, i) for i in range(ell * ye)]
                elif pat == "lane":     # one maximal lane per term, the others exactly zero, against maximal second operands
                    xs = [c10.lanes(qc, lx, "lane", rng, i) for i in range(ell * xe)]
                    ys = [c10.lanes(qc, ly, "max", rng, i) for i in range(ell * ye)]
                elif pat == "lowmax":   # every low half-word product at its maximum: the low partial sums reach their bound
                    prs = [lowmax_pair(qc, kind, rng) for i in range(ell * xe)]
                    xs, ys = [p[0] for p in prs], [p[1] for p in prs]
                    if kind == "x2c2":   # two columns against the same x: the same second operands in both
                        ys = [ys[2 * (i // 4) + i % 2] for i in range(ell * ye)]
                else:
                    xs = [c10.lanes(qc, lx, pat, rng, i) for i in range(ell * xe)]
                    ys = [c10.lanes(qc, ly, "max" if pat == "max" else "noncanon", rng, i) for i in range(ell * ye)]
                got = {}
                for impl in ("ref", "avx2"):
                    label = "worst-case q120 product %s_%s ell=%d pattern=%s" % (kind, impl, ell, pat)
                    if not rec.progress(label):
                        continue
                    res = q120.product(qc, kind, impl, xs, ys)
                    rec.case(("worst", kind, impl, ell, pat))
                    if res is None:
                        rec.violation(label + ": memory contract broken", {})
                        continue
                    got[impl] = [qc.residues(r) for r in res]
                    events.append({"e": "QProd", "kind": kind, "impl": impl, "ell": ell, "x": [c10.elem_residues(qc, lx, e) for e in xs],
                                   "y": [c10.elem_residues(qc, ly, e) for e in ys], "res": got[impl], "_what": label})
                if len(got) == 2 and got["ref"] != got["avx2"]:
                    rec.violation("worst-case q120 product %s ell=%d pattern=%s: reference and AVX2 disagree modulo a prime" % (kind, ell, pat),
                                  {"ref": got["ref"], "avx2": got["avx2"]})
    # tables built afresh in the reverse order (b*c, b*b, a*a): the split point of a table may not depend on the tables built before it
    if ells and max(ells) < 1000 and len(pats) > 1:
        fresh = {}
        for kd in ("bbc", "bbb", "baa"):
            fresh[kd] = L.fn("q120_new_vec_mat1col_product_%s_precomp" % kd, "p ")()
        for (kind, lx, ly) in [("baa", "a", "a"), ("bbb", "b", "b"), ("bbc", "b", "c")]:
            ell = 102
            xs = [c10.lanes(qc, lx, "max", rng, i) for i in range(ell)]
            ys = [c10.lanes(qc, ly, "max", rng, i) for i in range(ell)]
            for impl in ("ref", "avx2"):
                label = "worst-case q120 product %s_%s ell=%d pattern=max, tables built in the order bbc/bbb/baa" % (kind, impl, ell)
                if not rec.progress(label):
                    continue
                res = q120.product(qc, kind, impl, xs, ys, pre=fresh[kind])
                rec.case(("worst-order", kind, impl))
                if res is None:
                    rec.violation(label + ": memory contract broken", {})
                    continue
                events.append({"e": "QProd", "kind": kind, "impl": impl, "ell": ell, "x": [c10.elem_residues(qc, lx, e) for e in xs],
                               "y": [c10.elem_residues(qc, ly, e) for e in ys], "res": [qc.residues(r) for r in res], "_what": label})
    rec.data["events"] = events


def run(chk, replay=None):
    quick = chk.tier == "quick"
    Lib.get()
    chk.assumptions += ["default 30-bit prime set (the 29/31-bit sets need a rebuild of the library and are not explored)",
                        "the certificate is exact interval propagation of monotone steps; beyond the first NTT level maxima of different "
                        "lanes need not be jointly attainable, so it is conservative there"]
    ns = [1 << s for s in range(1, 17)]
    jobs = [("q120 table metadata", drive_meta, (ns,))]
    stage_ns = [2, 4, 16, 64, 512, 2048, 4096] if quick else [2, 4, 8, 16, 32, 64, 128, 256, 512, 1024, 2048, 4096, 8192, 32768]
    jobs += [("staged NTT runs n in %s" % stage_ns[i::4], drive_stages, (stage_ns[i::4], quick)) for i in range(4)]
    ells = [0, 1, 3, 102, 9999, 10000] if quick else [0, 1, 2, 3, 5, 6, 7, 100, 101, 4999, 5000, 8193, 9998, 9999, 10000]
    jobs += [("worst-case products ell in %s" % [e for e in ells if e < 1000], drive_products, ([e for e in ells if e < 1000],))]
    jobs += [("worst-case products ell=%d" % e, drive_products, ([e],)) for e in ells if e >= 1000]      # one job per long length
    # every length up to 130 and around 256 on maximal operands (a kernel or a table may switch its strategy at some length)
    sweep = list(range(0, 131)) + [255, 256, 257] + ([] if quick else [511, 512, 513, 1023, 1024, 1025, 2047, 2048, 2049, 4095, 4096, 4097, 8191, 8192, 8193])
    jobs += [("worst-case products, every length in %d..%d" % (sweep[i], sweep[min(i + 33, len(sweep)) - 1]), drive_products,
              (sweep[i:i + 33], ("max",))) for i in range(0, len(sweep), 33)]
    # short products whose half-words sit at boundary values (a carry between partial sums taken, dropped or doubled)
    jobs += [("products on half-word boundary operands part %d" % i, c10.drive_halves, (10 + i, 100 if quick else 1000)) for i in range(3)]
    jobs += [("all three-term products of half-word extremes (%s)" % ["bbb", "baa"][i], c10.drive_enum3, (i,)) for i in range(2)]
    res = isolated_many(chk, jobs, timeout=2400, nproc=10)
    # stateful events (NttMeta followed by its stages) must stay together: one TLC process per job
    total, allbad = 0, 0
    from concurrent.futures import ThreadPoolExecutor

    def validate(args):
        idx, d = args
        if not d:
            return None
        clean_ = [{k: v for k, v in ev.items() if not k.startswith("_")} for ev in d["events"]]
        return clean_, validate_events("Q120Trace", "Q120Trace.cfg", clean_, "c04-j%d" % idx, nproc=1, timeout=3000, xmx="8g")
    with ThreadPoolExecutor(max_workers=8) as ex:
        validated = list(ex.map(validate, enumerate(res)))
    for d, v in zip(res, validated):
        if not d:
            continue
        events = d["events"]
        clean, (bad, results) = v
        for rr in results:
            chk.add_tlc(rr, "certificate evaluation / trace validation")
        total += len(events)
        allbad += len(bad)
        for b in bad[:8]:
            ev = events[b]
            if ev["e"] in ("NttMeta", "ProdMeta"):
                # a failed certificate is a prediction; it convicts only together with a failing execution (witnesses above)
                chk.notes.append("certificate_gap: %s does not hold for the metadata of the built tables" % ev["_what"])
                chk.cov.setdefault("certificate_gap", []).append(ev["_what"])
            else:
                chk.violation(ev["_what"] + ": outside the envelope / illegal schedule / not congruent to the exact value",
                              clean[b] if len(str(clean[b])) < 20000 else {"what": ev["_what"]})
        if d is res[0]:
            chk.sample({"certificate_input": {k: (v if k != "levels" else v[:2]) for k, v in clean[2].items()}})
        st = [e for e in clean if e["e"] == "NttStage"]
        if st and len(chk.cov["samples"]) < 3:
            chk.sample({"stage_event": st[len(st) // 2]})
    chk.traces += total - allbad
    chk.cov["events_validated"] = total
    chk.cov["exhaustive"] = True
    chk.cov["box"] = "certificates: every n = 2..65536 x {forward, inverse}; 3 product kinds x {ref, avx2} at ell = 10000"
    chk.cov["rule"] = "one case = (certificate, n, direction) / (staged run, n, pattern, direction) / (worst-case product, kind, impl, ell, pattern)"
