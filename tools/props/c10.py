"""C10 - q120 products and layout conversions are exact modulo the 120-bit modulus.

The definitions live in Q120.tla (residue arithmetic modulo the four primes, c-layout pairs, centered CRT lift, block
index maps; the constants of q120_common.h are checked as ASSUMEs). Recorded calls of every product kind
(a*a, b*b, b*c, the two-coefficient block forms with one and two columns) x {ref, avx2} x lengths 0..10000 with random,
structured, extremal and deliberately non-canonical operands, of every conversion on extreme and random int64 values
(with the lift probed on both sides of +-Q/2), and of the block extract/save maps (injective probes) are validated by
TLC (Q120Trace.tla)."""
import random

import numpy as np

from common import run_tlc, validate_events, to_words, Infra, isolated_many
from lib import Lib, Buf
import q120

LEVEL = "exploration"
U64 = (1 << 64) - 1
U32 = (1 << 32) - 1


def lanes(qc, layout, pattern, rng, i=0):
    """one element of the given layout"""
    q = qc.q
    if pattern == "lane" and layout in ("a", "b"):      # one lane at its maximum, the three others exactly zero (the lane moves with i)
        top = U32 if layout == "a" else U64
        return [top if k == i % 4 else 0 for k in range(4)]
    if pattern == "halves" and layout in ("a", "b"):
        # every half-word (the unit the multipliers and the final reductions work on) at a boundary value: the partial sums of a
        # short product then carry into each other in every possible way
        w = 16 if layout == "a" else 32
        top = (1 << w) - 1
        H = [0, 1, 2, top, top - 1, 1 << (w - 1), (1 << (w - 1)) - 1, (1 << (w - 1)) + 1, top // 3, top - top // 3, rng.randrange(0, top + 1)]
        if rng.random() < 0.5:      # the same element in the four lanes, or four independent ones
            v = rng.choice(H) | (rng.choice(H) << w)
            return [v] * 4
        return [rng.choice(H) | (rng.choice(H) << w) for _ in range(4)]
    if layout == "a":
        if pattern == "max":
            return [U32] * 4
        if pattern == "alt":
            return [U32 if (i + k) % 2 else 0 for k in range(4)]
        if pattern == "near":
            return [min(U32, q[k] * rng.randrange(1, 4) - rng.randrange(0, 2)) for k in range(4)]
        return [rng.randrange(0, 1 << 32) for _ in range(4)]
    if layout == "b":
        if pattern == "max":
            return [U64] * 4
        if pattern == "alt":
            return [U64 if (i + k) % 2 else 0 for k in range(4)]
        if pattern == "near":      # just below a multiple of q * 2^j
            return [min(U64, (q[k] << rng.randrange(0, 34)) * rng.randrange(1, 3) - 1) for k in range(4)]
        return [rng.randrange(0, 1 << 64) for _ in range(4)]
    # c layout: 4 pairs (value, value * 2^32), reduced or unreduced representatives
    vals = [rng.randrange(0, q[k]) if pattern != "max" else q[k] - 1 for k in range(4)]
    out = []
    for k in range(4):
        r0, r1 = qc.c_pair(vals[k], k, rng if pattern in ("noncanon", "max") else None)
        if pattern == "max":   # largest 32-bit representatives
            r0 += ((U32 - r0) // q[k]) * q[k]
            r1 += ((U32 - r1) // q[k]) * q[k]
        out += [r0, r1]
    return out


def elem_residues(qc, layout, e):
    if layout == "c":
        return [int(e[2 * k]) % qc.q[k] for k in range(4)]
    return qc.residues(e)


def drive_halves(rec, part, reps):
    """short products (1..9 terms, plus a few longer ones) of operands whose half-words sit at boundary values: the place where a
    carry between partial sums of the accumulation or of the final reduction is taken, dropped or taken twice"""
    rng = random.Random(rec.seed * 733 + part)
    L = Lib.get()
    qc = q120.Q(L)
    events = []
    kinds = [("baa", "a", "a"), ("bbb", "b", "b"), ("bbc", "b", "c"), ("x2c1", "b", "c"), ("x2c2", "b", "c")]
    for rep in range(reps):
        ell = rng.choice([1, 2, 2, 3, 3, 3, 4, 4, 5, 6, 7, 8, 9, 17, 33])
        for (kind, lx, ly) in kinds:
            xe = 2 if kind.startswith("x2") else 1
            ye = {"x2c1": 2, "x2c2": 4}.get(kind, 1)
            xs = [lanes(qc, lx, "halves", rng, i) for i in range(ell * xe)]
            ys = [lanes(qc, ly, "halves" if ly != "c" else "noncanon", rng, i) for i in range(ell * ye)]
            got = {}
            same = kind in ("baa", "bbb") and rep % 3 == 2       # both operands are one and the same buffer (a sum of squares)
            if same:
                ys = xs
            for impl in ("ref", "avx2"):
                label = "q120 product %s_%s ell=%d pattern=half-word boundaries%s" % (kind, impl, ell, ", x and y the same buffer" if same else "")
                if not rec.progress(label):
                    continue
                res = q120.product(qc, kind, impl, xs, ys, off=rng.choice([0, 8]), same=same)
                rec.case((kind, impl, "halves", min(ell, 10), same))
                if res is None:
                    rec.violation(label + ": operand modified or write outside the result", {"kind": kind, "ell": ell})
                    continue
                got[impl] = [qc.residues(r) for r in res]
                events.append({"e": "QProd", "kind": kind, "impl": impl, "ell": ell,
                               "x": [elem_residues(qc, lx, e) for e in xs], "y": [elem_residues(qc, ly, e) for e in ys],
                               "res": got[impl], "_what": label})
    rec.data["events"] = events


def drive_enum3(rec, part):
    """every product of three terms whose half-words are 0, 1 or all-ones (and 2^32 for the second operand), the same in the four lanes:
    reference against accelerated kernel on all of them; the reference results of a sample, and both results wherever the two differ,
    are recorded for TLC"""
    import itertools
    rng = random.Random(rec.seed + 41 + part)
    L = Lib.get()
    qc = q120.Q(L)
    events = []
    kind, lx, w = [("bbb", "b", 32), ("baa", "a", 16)][part]
    top = (1 << w) - 1
    xv = [0, 1, top, top << w, top | (top << w)]
    yv = xv + [1 << w]
    X, Y, R1, R2 = Buf(32 * 3, fill=0), Buf(32 * 3, fill=0), Buf(32, fill=0xEE), Buf(32, fill=0xEE)
    pre = qc.prod_pre(kind)
    f_ref = L.fn("q120_vec_mat1col_product_%s_ref" % kind, "v puppp")
    f_avx = L.fn("q120_vec_mat1col_product_%s_avx2" % kind, "v puppp")
    qs = [int(v) for v in qc.q]
    ndiff = 0
    if not rec.progress("q120 product %s: every three-term product of half-word extremes (ref against avx2)" % kind):
        rec.data["events"] = events
        return
    xu, yu = X.u64, Y.u64
    for xs in itertools.product(xv, repeat=3):
        for t in range(3):
            xu[4 * t:4 * t + 4] = xs[t]
        for ys in itertools.product(yv, repeat=3):
            for t in range(3):
                yu[4 * t:4 * t + 4] = ys[t]
            f_ref(pre, 3, R1.addr, X.addr, Y.addr)
            f_avx(pre, 3, R2.addr, X.addr, Y.addr)
            r1 = [int(R1.u64[k]) % qs[k] for k in range(4)]
            r2 = [int(R2.u64[k]) % qs[k] for k in range(4)]
            differ = r1 != r2
            if differ or rng.random() < 0.004:
                xe = [[v % qs[k] for k in range(4)] for v in xs]
                ye = [[v % qs[k] for k in range(4)] for v in ys]
                events.append({"e": "QProd", "kind": kind, "impl": "ref", "ell": 3, "x": xe, "y": ye, "res": [r1],
                               "_what": "q120 product %s_ref on x=%s y=%s" % (kind, [hex(v) for v in xs], [hex(v) for v in ys])})
                if differ:
                    ndiff += 1
                    if ndiff <= 20:
                        events.append({"e": "QProd", "kind": kind, "impl": "avx2", "ell": 3, "x": xe, "y": ye, "res": [r2],
                                       "_what": "q120 product %s_avx2 on x=%s y=%s" % (kind, [hex(v) for v in xs], [hex(v) for v in ys])})
    rec.case((kind, "enum3"))
    if not (X.canaries_ok() and Y.canaries_ok() and R1.canaries_ok() and R2.canaries_ok()):
        rec.violation("q120 product %s: write outside the result" % kind, {})
    rec.data["events"] = events


def drive_products(rec, part, ells, reps):
    rng = random.Random(rec.seed * 131 + part)
    L = Lib.get()
    qc = q120.Q(L)
    events = []
    kinds = [("baa", "a", "a"), ("bbb", "b", "b"), ("bbc", "b", "c"), ("x2c1", "b", "c"), ("x2c2", "b", "c")]
    for ell in ells:
        for (kind, lx, ly) in kinds:
            for rep in range(reps):
                pattern = ["random", "max", "alt", "near", "noncanon", "lane"][(rep + part) % 6]
                xe = 2 if kind.startswith("x2") else 1
                ye = {"x2c1": 2, "x2c2": 4}.get(kind, 1)
                xs = [lanes(qc, lx, pattern if pattern != "noncanon" else "random", rng, i) for i in range(ell * xe)]
                ys = [lanes(qc, ly, (pattern if pattern != "lane" else "random") if ly == "c" or pattern != "noncanon" else "random", rng, i)
                      for i in range(ell * ye)]
                results = {}
                same = kind in ("baa", "bbb") and pattern in ("random", "max") and rep % 2 == 1
                if same:
                    ys = xs
                for impl in ("ref", "avx2"):
                    label = "q120 product %s_%s ell=%d pattern=%s%s" % (kind, impl, ell, pattern, ", x and y the same buffer" if same else "")
                    if not rec.progress(label):
                        continue
                    res = q120.product(qc, kind, impl, xs, ys, off=rng.choice([0, 8, 16, 24]), same=same)
                    rec.case((kind, impl, ell, pattern), nontrivial=ell > 0)
                    if res is None:
                        rec.violation(label + ": operand modified or write outside the result", {"kind": kind, "ell": ell})
                        continue
                    results[impl] = [qc.residues(r) for r in res]
                    events.append({"e": "QProd", "kind": kind, "impl": impl, "ell": ell,
                                   "x": [elem_residues(qc, lx, e) for e in xs], "y": [elem_residues(qc, ly, e) for e in ys],
                                   "res": results[impl], "_what": label})
    # the three product tables built afresh in every order: a table may not depend on which tables were built before it
    if part == 0:
        import itertools
        for order in itertools.permutations(["baa", "bbb", "bbc"]):
            fresh = {}
            for kd in order:
                fresh[kd] = L.fn("q120_new_vec_mat1col_product_%s_precomp" % kd, "p ")()
            for (kind, lx, ly) in kinds[:3]:
                ell = 9
                xs = [lanes(qc, lx, "random", rng, i) for i in range(ell)]
                ys = [lanes(qc, ly, "random", rng, i) for i in range(ell)]
                for impl in ("ref", "avx2"):
                    label = "q120 product %s_%s ell=%d with tables built in the order %s" % (kind, impl, ell, "/".join(order))
                    if not rec.progress(label):
                        continue
                    res = q120.product(qc, kind, impl, xs, ys, pre=fresh[kind])
                    rec.case((kind, impl, "order", order.index(kind)))
                    if res is None:
                        rec.violation(label + ": operand modified or write outside the result", {"kind": kind})
                        continue
                    events.append({"e": "QProd", "kind": kind, "impl": impl, "ell": ell,
                                   "x": [elem_residues(qc, lx, e) for e in xs], "y": [elem_residues(qc, ly, e) for e in ys],
                                   "res": [qc.residues(r) for r in res], "_what": label})
            for kd in order:
                L.fn("q120_delete_vec_mat1col_product_%s_precomp" % kd, "v p")(fresh[kd])
        # the tables this process has been using all along are still alive: deleting other tables of the same kinds must not affect them
        for (kind, lx, ly) in kinds[:3]:
            ell = 5
            xs = [lanes(qc, lx, "random", rng, i) for i in range(ell)]
            ys = [lanes(qc, ly, "random", rng, i) for i in range(ell)]
            for impl in ("ref", "avx2"):
                label = "q120 product %s_%s ell=%d on the long-lived table after other tables of its kind were deleted" % (kind, impl, ell)
                if not rec.progress(label):
                    continue
                res = q120.product(qc, kind, impl, xs, ys)
                rec.case((kind, impl, "after-delete"))
                if res is None:
                    rec.violation(label + ": operand modified or write outside the result", {"kind": kind})
                    continue
                events.append({"e": "QProd", "kind": kind, "impl": impl, "ell": ell,
                               "x": [elem_residues(qc, lx, e) for e in xs], "y": [elem_residues(qc, ly, e) for e in ys],
                               "res": [qc.residues(r) for r in res], "_what": label})
    rec.data["events"] = events


def drive_conversions(rec, count):
    rng = random.Random(rec.seed * 7 + 3)
    L = Lib.get()
    qc = q120.Q(L)
    q, Q = qc.q, qc.Q
    events = []
    xs = [0, 1, -1, (1 << 63) - 1, -(1 << 63), 1 << 62, -(1 << 62), (1 << 32), -(1 << 32) + 1] + \
         [rng.randrange(-(1 << 63), 1 << 63) for _ in range(count)] + [-(q[k] * rng.randrange(1, 1 << 30)) for k in range(4)]
    n = len(xs)
    X = Buf(8 * n)
    X.i64[:] = np.array(xs, dtype=np.int64)
    Bb, Cc, C2, Rr = Buf(32 * n, fill=0xEE), Buf(32 * n, fill=0xEE), Buf(32 * n, fill=0xEE), Buf(16 * n, fill=0xEE)
    if rec.progress("q120_b_from_znx64_simple / c_from_znx64 / c_from_b / b_to_znx128 on %d int64 values" % n):
        L.fn("q120_b_from_znx64_simple", "v upp")(n, Bb.addr, X.addr)
        L.fn("q120_c_from_znx64_simple", "v upp")(n, Cc.addr, X.addr)
        bsnap = Bb.snapshot()
        L.fn("q120_c_from_b_simple", "v upp")(n, C2.addr, Bb.addr)
        L.fn("q120_b_to_znx128_simple", "v upp")(n, Rr.addr, Bb.addr)
        if not all(b.canaries_ok() for b in (X, Bb, Cc, C2, Rr)) or not np.array_equal(X.i64, np.array(xs, dtype=np.int64)) or \
                not np.array_equal(Bb.u8, bsnap):
            rec.violation("q120 conversions: write outside an output or source modified", {})
        bl = Bb.u64.reshape(n, 4)
        cl = Cc.view(np.uint32).reshape(n, 8)
        c2 = C2.view(np.uint32).reshape(n, 8)
        rr = Rr.u64.reshape(n, 2)
        for i, x in enumerate(xs):
            rec.case(("conv", "extreme" if i < 9 else "random"))
            if cl[i].max() >= (1 << 31) or c2[i].max() >= (1 << 31):
                rec.violation("q120 c-layout conversion of %d returned an unreduced 32-bit value" % x, {"x": x})
                continue
            events.append({"e": "QConv", "kind": "b_from_znx64", "x": to_words(x, 4), "res": qc.residues(bl[i]), "_what": "b_from_znx64(%d)" % x})
            events.append({"e": "QConv", "kind": "c_from_znx64", "x": to_words(x, 4),
                           "res": [[int(cl[i][2 * k]), int(cl[i][2 * k + 1])] for k in range(4)], "_what": "c_from_znx64(%d)" % x})
            events.append({"e": "QConv", "kind": "c_from_b", "x": qc.residues(bl[i]),
                           "res": [[int(c2[i][2 * k]), int(c2[i][2 * k + 1])] for k in range(4)], "_what": "c_from_b(b(%d))" % x})
            r128 = int(rr[i][0]) | (int(rr[i][1]) << 64)
            if r128 >> 127:
                r128 -= 1 << 128
            events.append({"e": "QConv", "kind": "b_to_znx128", "x": qc.residues(bl[i]), "res": to_words(r128, 8),
                           "_what": "b_to_znx128(b(%d))" % x})
            if r128 != x:
                rec.violation("int64 -> b -> int128 is not the identity on %d (got %d)" % (x, r128), {"x": x, "got": r128})
    # b -> c on arbitrary representatives: every residue class of interest (0, 1, q-1, q-2, random) times every multiple of interest
    # (none, one, the largest that fits 64 bits and its neighbours, random)
    reps = []
    for _ in range(3 + count // 8):
        lanes = []
        for k in range(4):
            r = rng.choice([0, 1, q[k] - 1, q[k] - 1, q[k] - 2, rng.randrange(0, q[k])])
            kmax = ((1 << 64) - 1 - r) // q[k]
            mul = rng.choice([0, 1, kmax, kmax, kmax - 1, kmax - rng.randrange(0, 2000), rng.randrange(0, kmax + 1), kmax >> 1, (kmax >> 1) + 1])
            lanes.append(r + q[k] * mul)
        reps.append(lanes)
    nb = len(reps)
    Bb2, C3 = Buf(32 * nb), Buf(32 * nb, fill=0xEE)
    Bb2.u64[:] = np.array(reps, dtype=np.uint64).reshape(-1)
    if rec.progress("q120_c_from_b_simple on %d arbitrary representatives" % nb):
        b0 = Bb2.snapshot()
        L.fn("q120_c_from_b_simple", "v upp")(nb, C3.addr, Bb2.addr)
        if not (Bb2.canaries_ok() and C3.canaries_ok()) or not np.array_equal(Bb2.u8, b0):
            rec.violation("q120_c_from_b_simple: write outside the output or source modified", {})
        c3 = C3.view(np.uint32).reshape(nb, 8)
        for i in range(nb):
            rec.case(("conv", "c_from_b representatives"))
            if c3[i].max() >= (1 << 31):
                rec.violation("q120_c_from_b_simple on lanes %s returned an unreduced 32-bit value" % reps[i], {"lanes": [str(v) for v in reps[i]]})
                continue
            events.append({"e": "QConv", "kind": "c_from_b", "x": qc.residues(reps[i]),
                           "res": [[int(c3[i][2 * k]), int(c3[i][2 * k + 1])] for k in range(4)], "_what": "c_from_b(%s)" % reps[i]})
    # lift on both sides of +-Q/2, with non-canonical lanes; additions
    vals = [(Q - 1) // 2, (Q + 1) // 2, -(Q - 1) // 2, -(Q + 1) // 2, 0, 1, -1, Q - 1, (Q - 1) // 2 - 1] + \
           [rng.randrange(-(Q // 2), Q // 2) for _ in range(count)]
    m = len(vals)
    Bx, By, Bs, Rl = Buf(32 * m), Buf(32 * m), Buf(32 * m, fill=0xEE), Buf(16 * m, fill=0xEE)
    bx = np.zeros((m, 4), dtype=np.uint64)
    by = np.zeros((m, 4), dtype=np.uint64)
    for i, v in enumerate(vals):
        for k in range(4):
            r = v % q[k]
            bx[i, k] = r + q[k] * rng.randrange(0, ((1 << 64) - 1 - r) // q[k] + 1)
            by[i, k] = rng.randrange(0, 1 << 64)
    Bx.u64[:] = bx.reshape(-1)
    By.u64[:] = by.reshape(-1)
    if rec.progress("q120_b_to_znx128_simple around +-Q/2, q120_add_bbb_simple, q120_add_ccc_simple"):
        L.fn("q120_b_to_znx128_simple", "v upp")(m, Rl.addr, Bx.addr)
        L.fn("q120_add_bbb_simple", "v uppp")(m, Bs.addr, Bx.addr, By.addr)
        if not (np.array_equal(Bx.u64, bx.reshape(-1)) and np.array_equal(By.u64, by.reshape(-1)) and all(b.canaries_ok() for b in (Bx, By, Bs, Rl))):
            rec.violation("q120_b_to_znx128_simple / q120_add_bbb_simple: a source operand was modified, or a write outside the result", {})
        rl = Rl.u64.reshape(m, 2)
        bs = Bs.u64.reshape(m, 4)
        for i, v in enumerate(vals):
            rec.case(("lift", "edge" if i < 9 else "random"))
            r128 = int(rl[i][0]) | (int(rl[i][1]) << 64)
            if r128 >> 127:
                r128 -= 1 << 128
            events.append({"e": "QConv", "kind": "b_to_znx128", "x": qc.residues(bx[i]), "res": to_words(r128, 8),
                           "_what": "b_to_znx128 of the residues of %d" % v})
            events.append({"e": "QConv", "kind": "add_bbb", "x": qc.residues(bx[i]), "y": qc.residues(by[i]), "res": qc.residues(bs[i]),
                           "_what": "add_bbb"})
        # layout-b addition on structured lanes: every pair of extreme / boundary representatives (both near 2^64 included)
        def structured(k):
            big = q[k] << 33
            return [0, 1, q[k] - 1, q[k], U64, U64 - 1, U64 - q[k], 1 << 63, (1 << 63) - 1, big - 1, big, big + 1, (1 << 64) - big, (1 << 64) - big - 1]
        pairs = [(i, j) for i in range(14) for j in range(14)]
        ms = len(pairs)
        Sx, Sy, Ss = Buf(32 * ms), Buf(32 * ms), Buf(32 * ms, fill=0xEE)
        sx = np.array([[structured(k)[i] for k in range(4)] for (i, j) in pairs], dtype=np.uint64)
        sy = np.array([[structured(k)[j] for k in range(4)] for (i, j) in pairs], dtype=np.uint64)
        Sx.u64[:] = sx.reshape(-1)
        Sy.u64[:] = sy.reshape(-1)
        L.fn("q120_add_bbb_simple", "v uppp")(ms, Ss.addr, Sx.addr, Sy.addr)
        if not (np.array_equal(Sx.u64, sx.reshape(-1)) and np.array_equal(Sy.u64, sy.reshape(-1)) and Sx.canaries_ok() and Sy.canaries_ok() and Ss.canaries_ok()):
            rec.violation("q120_add_bbb_simple on structured lanes: a source operand was modified, or a write outside the result", {})
        ss = Ss.u64.reshape(ms, 4)
        for t in range(ms):
            rec.case(("add_bbb structured", pairs[t][0], pairs[t][1]))
            events.append({"e": "QConv", "kind": "add_bbb", "x": qc.residues(sx[t]), "y": qc.residues(sy[t]), "res": qc.residues(ss[t]),
                           "_what": "add_bbb on structured lanes %s + %s" % ([int(v) for v in sx[t]], [int(v) for v in sy[t]])})
        Cx, Cy, Cs = Buf(32 * m), Buf(32 * m), Buf(32 * m, fill=0xEE)
        cx = np.array([sum(([*qc.c_pair(rng.randrange(0, q[k]), k)] for k in range(4)), []) for _ in range(m)], dtype=np.uint32)
        cy = np.array([sum(([*qc.c_pair(rng.randrange(0, q[k]), k, rng)] for k in range(4)), []) for _ in range(m)], dtype=np.uint32)
        Cx.view(np.uint32)[:] = cx.reshape(-1)
        Cy.view(np.uint32)[:] = cy.reshape(-1)
        L.fn("q120_add_ccc_simple", "v uppp")(m, Cs.addr, Cx.addr, Cy.addr)
        cs = Cs.view(np.uint32).reshape(m, 8)
        for i in range(m):
            rec.case(("add_ccc",))
            if cs[i].max() >= (1 << 31):
                rec.violation("q120_add_ccc_simple returned an unreduced value", {})
                continue
            events.append({"e": "QConv", "kind": "add_ccc",
                           "x": [[int(cx[i][2 * k]) % q[k], int(cx[i][2 * k + 1]) % q[k]] for k in range(4)],
                           "y": [[int(cy[i][2 * k]) % q[k], int(cy[i][2 * k + 1]) % q[k]] for k in range(4)],
                           "res": [[int(cs[i][2 * k]), int(cs[i][2 * k + 1])] for k in range(4)], "_what": "add_ccc"})
    # block maps
    for nn in (2, 4, 8, 16):
        src = Buf(32 * nn * 3)
        src.u64[:] = np.arange(1, 4 * nn * 3 + 1, dtype=np.uint64)
        for blk in range(nn // 2):
            for impl in ("ref", "avx"):
                if not L.has("q120x2_extract_1blk_from_q120b_" + impl):
                    continue        # declared in the header but not defined in this tree: no such entry point
                if not rec.progress("q120x2 block maps nn=%d blk=%d %s" % (nn, blk, impl)):
                    continue
                d = Buf(64, fill=0)
                L.fn("q120x2_extract_1blk_from_q120b_" + impl, "v uupp")(nn, blk, d.addr, src.addr)
                events.append({"e": "QBlk", "kind": "extract", "nn": nn, "blk": blk, "obs": [int(v) for v in d.u64], "_what": "extract " + impl})
                d3 = Buf(64 * 3, fill=0)
                L.fn("q120x2_extract_1blk_from_contiguous_q120b_" + impl, "v uuupp")(nn, 3, blk, d3.addr, src.addr)
                events.append({"e": "QBlk", "kind": "extract_contiguous", "nn": nn, "nrows": 3, "blk": blk,
                               "obs": [int(v) for v in d3.u64], "_what": "extract_contiguous " + impl})
                dst = Buf(32 * nn, fill=0)
                eight = Buf(64)
                eight.u64[:] = np.arange(1, 9, dtype=np.uint64)
                L.fn("q120x2b_save_1blk_to_q120b_" + impl, "v uupp")(nn, blk, dst.addr, eight.addr)
                events.append({"e": "QBlk", "kind": "save", "nn": nn, "blk": blk, "obs": [int(v) for v in dst.u64], "_what": "save " + impl})
                rec.case(("blk", nn, blk, impl))
                if not (d.canaries_ok() and d3.canaries_ok() and dst.canaries_ok()):
                    rec.violation("q120x2 block map nn=%d blk=%d %s wrote outside its output" % (nn, blk, impl), {})
    rec.data["events"] = events


def run(chk, replay=None):
    quick = chk.tier == "quick"
    Lib.get()
    chk.assumptions += ["lanes are reduced modulo each prime by the harness (Python %); TLC performs the modular algebra",
                        "a-layout operands are 32-bit values, c-layout operands are consistent (v, v*2^32) pairs, possibly unreduced"]
    ells = [0, 1, 2, 3, 7, 64, 1000] if quick else [0, 1, 2, 3, 7, 64, 1000, 4000, 10000]
    jobs = [("q120 products part %d" % i, drive_products, (i, ells[i::4], 3 if quick else 6)) for i in range(4)]
    jobs.append(("q120 conversions and block maps", drive_conversions, (40 if quick else 400,)))
    jobs += [("q120 products on half-word boundary operands part %d" % i, drive_halves, (i, 150 if quick else 1500)) for i in range(4)]
    jobs += [("q120 products: all three-term products of half-word extremes (%s)" % k, drive_enum3, (i,)) for i, k in enumerate(("bbb", "baa"))]
    res = isolated_many(chk, jobs, timeout=1800, nproc=11)
    events = [ev for d in res if d for ev in d["events"]]
    clean = [{k: v for k, v in ev.items() if not k.startswith("_")} for ev in events]
    bad, results = validate_events("Q120Trace", "Q120Trace.cfg", clean, "c10", nproc=12, timeout=3000)
    for rr in results:
        chk.add_tlc(rr, "trace validation (constants checked as ASSUME)")
    chk.traces += len(events) - len(bad)
    chk.cov["events_validated"] = len(events)
    chk.cov["product_terms_recomputed_by_tlc"] = sum(ev["ell"] * len(ev["res"]) * 4 for ev in events if ev["e"] == "QProd")
    chk.cov["rule"] = ("one case = (product kind, implementation, ell, operand pattern) / (conversion, value class) / (block map, nn, blk, impl); "
                       "patterns: random, all-maximal, alternating extremes, just below multiples of q*2^j, non-canonical representatives")
    for b in bad[:20]:
        chk.violation(events[b]["_what"] + ": not congruent to the definition modulo a prime", clean[b])
    if events:
        ev = next(e for e in clean if e["e"] == "QProd" and e["ell"] == 3)
        chk.sample({"event": ev})
