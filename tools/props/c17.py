"""C17 - block layouts and complex-vector kernels are faithful and mutually inverse.

 1. TLC: Reim4.tla - the extraction / save / strided extraction / complex<->reim4 address maps as coded, against the
    definition "block b = evaluations 4b..4b+3, real parts then imaginary parts", save o extract = identity,
    to_cplx o from_cplx = identity on all m numbers, the convolution window as coded = its definition (ASSUMEs on a
    small box); Pointwise.tla - pointwise multiply / multiply-accumulate = complex-arithmetic definition.
 2. direction A: the address maps TLC printed (m = 4, 8, 16) replayed on every variant (ref, AVX, FMA, dispatch,
    simple) with injective probes.
 3. direction B: probes for every m up to 65536 and every (or sampled) block index, row counts 0..3, strides, ref and
    AVX (Reim4Trace); dot products with one and two columns, convolution windows for every (k, sizea, sizeb) of a box,
    pointwise kernels of the three layouts, on integer-valued data (exact) for every length including 0
    (PointwiseTrace). Rounding on general data: within a few ulp of the exact result (Fractions), sampled.
"""
import random
from fractions import Fraction

import numpy as np

from common import run_tlc, tlc_must_pass, printed_json, validate_events, Infra, isolated, isolated_many
from lib import Lib, Buf, MASK_NONE, MASK_GENERIC
import kernels
from props import c13

LEVEL = "model_checking"


def probe(n):
    return np.arange(n, dtype=np.float64)


def layout_obs(L, tables, kind, variant, m, blk, nrows, sl, mask=MASK_NONE):
    """Runs one layout kernel on the injective probe (cell i holds i). Returns the destination as int array
    (-1 where untouched), or None if a canary was damaged."""
    if kind == "extract":
        src, dst = Buf(16 * m), Buf(64, fill=0)
        src.f64[:] = probe(2 * m)
        dst.f64[:] = -1
        L.fn("reim4_extract_1blk_from_reim_" + variant, "v uupp")(m, blk, dst.addr, src.addr)
    elif kind == "contig":
        src, dst = Buf(16 * m * nrows), Buf(64 * nrows)
        src.f64[:] = probe(2 * m * nrows)
        dst.f64[:] = -1
        L.fn("reim4_extract_1blk_from_contiguous_reim_" + variant, "v uuupp")(m, nrows, blk, dst.addr, src.addr)
    elif kind == "strided":
        src, dst = Buf(8 * (sl * (nrows - 1) + 2 * m) if nrows else 0), Buf(64 * nrows)
        src.f64[:] = probe(len(src.f64))
        dst.f64[:] = -1
        L.fn("reim4_extract_1blk_from_contiguous_reim_sl_" + variant, "v uuuupp")(m, sl, nrows, blk, dst.addr, src.addr)
    elif kind == "save":
        src, dst = Buf(64), Buf(16 * m)
        src.f64[:] = probe(8)
        dst.f64[:] = -1
        L.fn("reim4_save_1blk_to_reim_" + variant, "v uupp")(m, blk, dst.addr, src.addr)
    else:  # from_cplx / to_cplx
        src, dst = Buf(16 * m), Buf(16 * m)
        src.f64[:] = probe(2 * m)
        dst.f64[:] = -1
        base = "reim4_" + kind
        if variant == "simple":
            L.fn(base + "_simple", "v wpp")(m, dst.addr, src.addr)
        else:
            t = tables.get("new_%s_precomp" % base, m, mask)
            L.fn(base if variant == "dispatch" else base + "_" + variant, "v ppp")(t, dst.addr, src.addr)
    if not (src.canaries_ok() and dst.canaries_ok()) or not np.array_equal(src.f64, probe(len(src.f64))):
        return None
    return dst.f64.astype(np.int64)


def drive_a(rec, cases):
    L = Lib.get()
    tables = kernels.Tables(L)
    ok = 0
    for c in cases:
        m = c["m"]
        for blk in range(m // 4):
            for variant in ("ref", "avx"):
                for kind, exp, nrows, sl in (("extract", c["extract"][blk], 1, 0), ("contig", c["contig"][blk], 3, 0),
                                             ("strided", c["strided"][blk], 3, 2 * m + 6), ("save", c["save"][blk], 1, 0)):
                    if not rec.progress("reim4 %s_%s m=%d blk=%d" % (kind, variant, m, blk)):
                        continue
                    got = layout_obs(L, tables, kind, variant, m, blk, nrows, sl)
                    rec.case(("A", kind, variant, m, blk))
                    if got is None or [int(v) for v in got] != exp:
                        rec.violation("reim4 %s_%s m=%d blk=%d differs from the address map of the specification" % (kind, variant, m, blk),
                                      {"kind": kind, "variant": variant, "m": m, "blk": blk, "expected": exp,
                                       "got": None if got is None else [int(v) for v in got]})
                    else:
                        ok += 1
        for kind in ("from_cplx", "to_cplx"):
            for variant, mask in (("ref", 0), ("fma", 0), ("dispatch", MASK_NONE), ("dispatch", MASK_GENERIC), ("simple", 0)):
                if not rec.progress("reim4_%s %s m=%d" % (kind, variant, m)):
                    continue
                got = layout_obs(L, tables, kind, variant, m, 0, 0, 0, mask)
                rec.case(("A", kind, variant, m, mask))
                if got is None or [int(v) for v in got] != c[kind]:
                    rec.violation("reim4_%s (%s) m=%d differs from the permutation of the specification" % (kind, variant, m),
                                  {"kind": kind, "variant": variant, "m": m, "expected": c[kind], "got": None if got is None else [int(v) for v in got]})
                else:
                    ok += 1
    rec.data["ok"] = ok


def drive_huge(rec):
    """rows that are 16 .. 32 GiB apart (row strides beyond 32 bits) and very many rows (16384 and more, a source of 2 .. 5 GiB), in sparse
    mappings; destinations at 0, 8 and 24 bytes past a 64-byte boundary.  For the strides the rows hold the values an injective probe with
    the small stride 2m+8 would hold, so that the observation is judged by the same address map of the specification."""
    from props.c08 import Sparse
    rng = random.Random(rec.seed + 171)
    L = Lib.get()
    events = []
    for (m, sl, nrows) in [(8, (1 << 31) + 8, 3), (16, (1 << 32) + 40, 2), (4, 1 << 32, 2)]:
        sp = Sparse(8 * sl * (nrows - 1) + (1 << 16))
        if sp.addr is None:
            rec.notes.append("reim4 huge strides: a sparse mapping of %d GiB was refused by the system (not a verdict)" % ((8 * sl * (nrows - 1)) >> 30))
            continue
        S = 2 * m + 8
        for i in range(nrows):
            sp.i64(8 * i * sl, 2 * m).view(np.float64)[:] = i * S + np.arange(2 * m)
        for variant in ("ref", "avx"):
            for blk in sorted({0, m // 4 - 1}):
                label = "reim4 strided_%s m=%d blk=%d nrows=%d with rows %d doubles apart" % (variant, m, blk, nrows, sl)
                if not rec.progress(label):
                    continue
                dst = Buf(64 * nrows, off=rng.choice([0, 8, 24]))
                dst.f64[:] = -1
                L.fn("reim4_extract_1blk_from_contiguous_reim_sl_" + variant, "v uuuupp")(m, sl, nrows, blk, dst.addr, sp.addr)
                rec.case(("huge", "strided", variant, m))
                if not dst.canaries_ok():
                    rec.violation(label + ": write outside the destination", {})
                    continue
                got = dst.f64.astype(np.int64)
                events.append({"e": "Map", "kind": "strided", "m": m, "blk": blk, "nrows": nrows, "sl": S, "idx": list(range(len(got))),
                               "obs": [int(v) for v in got], "_what": label})
        sp.close()
    for (m, nrows) in [(8192, 16384), (16384, 20000)]:
        sp = Sparse(16 * m * nrows + (1 << 16))
        if sp.addr is None:
            rec.notes.append("reim4 many rows: a sparse mapping of %d GiB was refused by the system (not a verdict)" % ((16 * m * nrows) >> 30))
            continue
        src = sp.i64(0, 2 * m * nrows).view(np.float64).reshape(nrows, 2 * m)
        blks = sorted({0, m // 4 - 1})
        for blk in blks:                    # only the cells of the two blocks are written (two pages per row)
            for c0 in (4 * blk, m + 4 * blk):
                src[:, c0:c0 + 4] = np.arange(nrows, dtype=np.float64)[:, None] * (2 * m) + c0 + np.arange(4, dtype=np.float64)[None, :]
        for variant in ("ref", "avx"):
            for blk in blks:
                for off in (0, 8, 24):
                    label = "reim4 contig_%s m=%d blk=%d nrows=%d destination %d bytes past a 64-byte boundary" % (variant, m, blk, nrows, off)
                    if not rec.progress(label):
                        continue
                    dst = Buf(64 * nrows, off=off)
                    dst.f64[:] = -1
                    L.fn("reim4_extract_1blk_from_contiguous_reim_" + variant, "v uuupp")(m, nrows, blk, dst.addr, sp.addr)
                    rec.case(("huge", "contig", variant, m, off))
                    if not dst.canaries_ok():
                        rec.violation(label + ": write outside the destination", {})
                        continue
                    got = dst.f64.astype(np.int64)
                    n = len(got)
                    idx = sorted(set(list(range(16)) + list(range(n - 16, n)) + list(range(8 * 16383 - 8, min(n, 8 * 16385))) +
                                     [rng.randrange(n) for _ in range(40)]))
                    events.append({"e": "Map", "kind": "contig", "m": m, "blk": blk, "nrows": nrows, "sl": 0, "idx": idx,
                                   "obs": [int(got[i]) for i in idx], "_what": label})
        sp.close()
    rec.data["events"] = events


def drive_layout_b(rec, ms, quick):
    rng = random.Random(rec.seed * 41 + ms[0])
    L = Lib.get()
    tables = kernels.Tables(L)
    events = []
    for m in ms:
        blks = list(range(m // 4)) if m <= 64 else sorted(set([0, 1, m // 4 - 1, m // 8] + [rng.randrange(m // 4) for _ in range(4 if quick else 12)]))
        for blk in blks:
            for variant in ("ref", "avx"):
                for kind in ("extract", "contig", "strided", "save"):
                    # row counts around and at the multiples of the unrolling factors an accelerated gather may use
                    nrows = rng.choice([0, 1, 2, 3, 4, 5, 7, 8, 9, 15, 16, 17, 24, 32]) if kind in ("contig", "strided") else 1
                    sl = rng.choice([2 * m, 2 * m + 2, 2 * m + 8, 4 * m]) if kind == "strided" else 0
                    if not rec.progress("reim4 %s_%s m=%d blk=%d nrows=%d sl=%d" % (kind, variant, m, blk, nrows, sl)):
                        continue
                    got = layout_obs(L, tables, kind, variant, m, blk, nrows, sl)
                    rec.case(("B", kind, variant, m.bit_length(), min(blk, 2), nrows))
                    if got is None:
                        rec.violation("reim4 %s_%s m=%d blk=%d: source modified or write outside the destination" % (kind, variant, m, blk), {})
                        continue
                    n = len(got)
                    idx = list(range(n)) if n <= 64 else sorted(set([0, 1, n - 1, 4 * blk, 4 * blk + 3, m + 4 * blk, m + 4 * blk + 3, 4 * blk + 4,
                                                                     max(0, 4 * blk - 1)] + [rng.randrange(n) for _ in range(40)]))
                    if kind == "save" and n > 64:      # everything outside the block must be untouched: checked on the whole vector here
                        touched = np.nonzero(got != -1)[0]
                        if len(touched) != 8:
                            rec.violation("reim4_save_1blk_to_reim_%s m=%d blk=%d wrote %d cells instead of 8" % (variant, m, blk, len(touched)), {})
                    events.append({"e": "Map", "kind": kind, "m": m, "blk": blk, "nrows": nrows, "sl": sl, "idx": [i for i in idx if i < n],
                                   "obs": [int(got[i]) for i in idx if i < n], "_what": "reim4 %s_%s m=%d blk=%d nrows=%d sl=%d" % (kind, variant, m, blk, nrows, sl)})
        for kind in ("from_cplx", "to_cplx"):
            for variant, mask in (("ref", 0), ("fma", 0), ("dispatch", MASK_NONE), ("dispatch", MASK_GENERIC), ("simple", 0)):
                if not rec.progress("reim4_%s %s m=%d" % (kind, variant, m)):
                    continue
                got = layout_obs(L, tables, kind, variant, m, 0, 0, 0, mask)
                rec.case(("B", kind, variant, m.bit_length(), mask))
                if got is None:
                    rec.violation("reim4_%s (%s) m=%d: source modified or write outside the destination" % (kind, variant, m), {})
                    continue
                n = 2 * m
                idx = list(range(n)) if n <= 128 else sorted(set([0, 1, 7, 8, n - 1, n - 8, m, m - 1] + [rng.randrange(n) for _ in range(60)]))
                if (got == -1).any():
                    rec.violation("reim4_%s (%s) m=%d left %d of the %d output cells unwritten" % (kind, variant, m, int((got == -1).sum()), n), {})
                events.append({"e": "Map", "kind": kind, "m": m, "blk": 0, "nrows": 0, "sl": 0, "idx": idx, "obs": [int(got[i]) for i in idx],
                               "_what": "reim4_%s (%s, mask %d) m=%d" % (kind, variant, mask, m)})
    rec.data["events"] = events


def exact_small(arr):
    """outputs on small integer inputs must be finite integers far below 2^31 (what TLC can re-compute)"""
    a = np.asarray(arr, dtype=np.float64)
    return bool(np.isfinite(a).all() and (np.abs(a) < 2.0 ** 30).all() and np.array_equal(a, np.rint(a)))


def grp(rng, lim=50):
    """one reim4 group: 4 complex numbers with integer parts; layout 4 real parts then 4 imaginary parts"""
    return [[rng.randrange(-lim, lim + 1), rng.randrange(-lim, lim + 1)] for _ in range(4)]


def grp_to_doubles(g):
    return [c[0] for c in g] + [c[1] for c in g]


def doubles_to_grp(d):
    return [[int(d[c]), int(d[4 + c])] for c in range(4)]


def drive_arith(rec, quick):
    rng = random.Random(rec.seed + 99)
    L = Lib.get()
    events = []
    # dot products: u (nrows groups) x v (nrows x ncols groups)
    for nrows in (list(range(0, 9)) + [11, 12, 13, 15, 16, 17, 23, 24, 25, 31, 32, 33, 40, 41, 47, 48, 49, 63, 64, 65] if quick
                  else list(range(0, 34)) * 3 + [40, 41, 47, 48, 49, 63, 64, 65, 100, 127, 128, 129]):
        for ncols, base in ((1, "reim4_vec_mat1col_product_"), (2, "reim4_vec_mat2cols_product_")):
            for variant in ("ref", "avx2", "ref", "avx2"):
                u = [grp(rng) for _ in range(nrows)]
                v = [[grp(rng) for _ in range(ncols)] for _ in range(nrows)]
                if nrows >= 2 and rng.random() < 0.5:      # rows that are exactly zero, in u or in v, next to rows that are not
                    zero = [[0, 0] for _ in range(4)]
                    u = [zero if rng.random() < 0.4 else g for g in u]
                    v = [[zero if rng.random() < 0.2 else g for g in row] for row in v]
                U, V, R = Buf(64 * nrows), Buf(64 * nrows * ncols), Buf(64 * ncols, fill=0xEE)
                if nrows:
                    U.f64[:] = sum((grp_to_doubles(g) for g in u), [])
                    V.f64[:] = sum((grp_to_doubles(g) for row in v for g in row), [])
                if not rec.progress("%s%s nrows=%d" % (base, variant, nrows)):
                    continue
                U.readonly(True)
                V.readonly(True)
                L.fn(base + variant, "v uppp")(nrows, R.addr, U.addr, V.addr)
                rec.case(("dot", ncols, variant, nrows), nontrivial=nrows > 0)
                if not (U.canaries_ok() and V.canaries_ok() and R.canaries_ok()) or not exact_small(R.f64):
                    rec.violation("%s%s nrows=%d: write outside the result or non-integer output on integer data" % (base, variant, nrows), {})
                    continue
                events.append({"e": "Dot", "ncols": ncols, "u": u, "v": v, "r": [doubles_to_grp(R.f64[8 * c:8 * c + 8]) for c in range(ncols)],
                               "_what": "%s%s nrows=%d" % (base, variant, nrows)})
    # the two primitives under the dot products: dest = 0, dest += a * b (as a two-row dot product: a * b + dest * 1)
    for rep in range(6 if quick else 60):
        a, b, d0 = grp(rng), grp(rng), grp(rng)
        A, B, D, Z = Buf(64), Buf(64), Buf(64), Buf(64, fill=0xEE)
        A.f64[:], B.f64[:], D.f64[:] = grp_to_doubles(a), grp_to_doubles(b), grp_to_doubles(d0)
        if not rec.progress("reim4_add_mul / reim4_zero rep %d" % rep):
            continue
        L.fn("reim4_add_mul", "v ppp")(D.addr, A.addr, B.addr)
        L.fn("reim4_zero", "v p")(Z.addr)
        rec.case(("add_mul", rep % 3))
        ok = all(x.canaries_ok() for x in (A, B, D, Z)) and exact_small(D.f64) and A.f64.tolist() == grp_to_doubles(a) and B.f64.tolist() == grp_to_doubles(b)
        if not ok or not (Z.f64 == 0).all():
            rec.violation("reim4_add_mul / reim4_zero: write outside the group, source modified, non-integer output or non-zero after reim4_zero", {})
            continue
        one = [[1, 0]] * 4
        events.append({"e": "Dot", "ncols": 1, "u": [a, d0], "v": [[b], [one]], "r": [doubles_to_grp(D.f64)], "_what": "reim4_add_mul (dest + a * b)"})
    # convolution window
    wmax = 5 if quick else 9
    # the box, then long operands (each side alone and both; lengths around the powers of two and well beyond)
    longs = [(129, 3), (3, 129), (130, 131), (300, 100), (100, 300), (64, 65), (17, 33), (1030, 1100)] if quick else \
            [(129, 3), (3, 129), (130, 131), (300, 100), (100, 300), (64, 65), (17, 33), (257, 2), (2, 257), (512, 513), (1000, 40), (40, 1000), (1030, 1100), (2100, 2049)]
    for (sa, sb) in [(x, y) for x in range(0, wmax) for y in range(0, wmax)] + longs:
        if True:
            long_ = sa >= wmax or sb >= wmax
            a = [grp(rng, 20 if not long_ else 3) for _ in range(sa)]
            b = [grp(rng, 20 if not long_ else 3) for _ in range(sb)]
            A, B = Buf(64 * sa), Buf(64 * sb)
            if sa:
                A.f64[:] = sum((grp_to_doubles(g) for g in a), [])
            if sb:
                B.f64[:] = sum((grp_to_doubles(g) for g in b), [])
            for k in (range(0, sa + sb + 2) if not long_ else sorted(set([0, 1, min(sa, sb) - 1, min(sa, sb), max(sa, sb) - 1, max(sa, sb),
                                                                               sa + sb - 2, sa + sb - 1, rng.randrange(0, sa + sb)]))):
                R = Buf(64, fill=0xEE)
                if not rec.progress("reim4_convolution_1coeff_ref k=%d sizea=%d sizeb=%d" % (k, sa, sb)):
                    continue
                L.fn("reim4_convolution_1coeff_ref", "v uppupu")(k, R.addr, A.addr, sa, B.addr, sb)
                rec.case(("conv1", k, sa, sb), nontrivial=sa > 0 and sb > 0)
                if not R.canaries_ok() or not exact_small(R.f64):
                    rec.violation("reim4_convolution_1coeff_ref k=%d sizea=%d sizeb=%d: write outside the output, or a result that is not "
                                  "the small integer the definition gives (an operand outside the vectors was read?)" % (k, sa, sb), {})
                    continue
                events.append({"e": "Conv", "k": k, "a": a, "b": b, "r": doubles_to_grp(R.f64), "_what": "convolution_1coeff k=%d sizes %d,%d" % (k, sa, sb)})
            # the range form and the two-coefficient form must agree with the one-coefficient form
            for size, off in ([(5, rng.randrange(0, sa + sb)), (1, rng.randrange(0, sa + sb)), (4, max(0, min(sa, sb) - 2)), (3, sa + sb - 3)] if long_ else
                              [(sa + sb + 1, rng.randrange(0, 3)), (1, rng.randrange(0, max(1, sa + sb))), (3, 1), (2, rng.randrange(0, 3))] if quick else
                              [(sz, of) for sz in (0, 1, sa + sb, sa + sb + 2) for of in range(0, sa + sb + 2)]):
                R = Buf(64 * size, fill=0xEE)
                L.fn("reim4_convolution_ref", "v puupupu")(R.addr, size, off, A.addr, sa, B.addr, sb)
                R2 = Buf(128, fill=0xEE)
                L.fn("reim4_convolution_2coeff_ref", "v uppupu")(off, R2.addr, A.addr, sa, B.addr, sb)
                rec.case(("convrange", sa, sb, off))
                if not (exact_small(R.f64) and exact_small(R2.f64) and R.canaries_ok() and R2.canaries_ok()):
                    rec.violation("reim4_convolution_ref / _2coeff_ref sizes %d,%d offset %d: write outside the output or non-integer / huge "
                                  "result on small integer data" % (sa, sb, off), {})
                    continue
                for t in range(size):
                    events.append({"e": "Conv", "k": t + off, "a": a, "b": b, "r": doubles_to_grp(R.f64[8 * t:8 * t + 8]),
                                   "_what": "convolution_ref offset %d coefficient %d sizes %d,%d" % (off, t, sa, sb)})
                for t in range(2):
                    events.append({"e": "Conv", "k": t + off, "a": a, "b": b, "r": doubles_to_grp(R2.f64[8 * t:8 * t + 8]),
                                   "_what": "convolution_2coeff k=%d sizes %d,%d" % (off + t, sa, sb)})
    rec.data["events"] = events


def ulp_close(got, exact, ulps):
    """|got - exact| <= ulps * ulp(exact) (exact: Fraction)"""
    if exact == 0:
        return abs(Fraction(got)) <= Fraction(1, 2 ** 1000)
    e = max(-1074, int(np.floor(np.log2(float(abs(exact))))) - 52)
    return abs(Fraction(float(got)) - exact) <= ulps * Fraction(2) ** e


def drive_rounding(rec, count):
    """pointwise kernels on general (non-integer) data: each output within a few ulp of |re|+|im| scale of the exact result"""
    rng = random.Random(rec.seed + 5)
    L = Lib.get()
    tables = kernels.Tables(L)
    n_ok = 0
    for it in range(count):
        kern = rng.choice(kernels.PW_KERNELS)
        m = rng.choice([4, 8, 16, 32])
        if not kernels.applicable(kern, m):
            continue

        def val():
            c = rng.random()
            if c < 0.1:
                return rng.choice([0.0, -0.0, 1.0, -1.0])
            return (rng.random() * 2 - 1) * 2.0 ** rng.randrange(-30, 30)
        a = np.array([[val(), val()] for _ in range(m)])
        b = np.array([[val(), val()] for _ in range(m)])
        r0 = np.array([[val(), val()] for _ in range(m)])
        fam = "general"
        if it % 7 == 3:
            # subnormal operands against large ones: every product is an ordinary number (2^-75 .. 2^-3), but only if subnormal operands are
            # read as what they are (no flush to zero, whatever was called before in this process)
            fam = "subnormal x large"
            a = np.array([[float(np.ldexp(1.0 + rng.random(), rng.randrange(-1074, -1023))) * rng.choice([1, -1]) for _ in range(2)] for _ in range(m)])
            b = np.array([[float(np.ldexp(1.0 + rng.random(), rng.randrange(1000, 1020))) * rng.choice([1, -1]) for _ in range(2)] for _ in range(m)])
            r0 = np.array([[float(np.ldexp(rng.random() - 0.5, rng.randrange(-60, -20))) for _ in range(2)] for _ in range(m)])
            if it % 14 == 10:        # the same with the operands exchanged (the subnormal values in the second operand)
                a, b = b, a
                fam = "large x subnormal"
        label = "%s m=%d %s data" % (kern[0], m, fam)
        if not rec.progress(label):
            continue
        got, why = kernels.run_pointwise(L, tables, kern, m, rng.choice([MASK_NONE, MASK_GENERIC]), a, b, r0, "none")
        rec.case(("round", kern[0], m))
        if got is None:
            rec.violation(label + ": " + why, {})
            continue
        for j in range(m):
            ar, ai, br, bi = (Fraction(float(x)) for x in (a[j, 0], a[j, 1], b[j, 0], b[j, 1]))
            re, im = ar * br - ai * bi, ar * bi + ai * br
            # a few units of rounding relative to the magnitude of the terms of EACH component (cancellation between the terms of a
            # component cannot be resolved better; the terms of the other component have no business in it)
            sre, sim = abs(ar * br) + abs(ai * bi), abs(ar * bi) + abs(ai * br)
            if kern[2] == "addmul":
                re += Fraction(float(r0[j, 0]))
                im += Fraction(float(r0[j, 1]))
                sre += abs(Fraction(float(r0[j, 0])))
                sim += abs(Fraction(float(r0[j, 1])))
            u4 = 4 * Fraction(1, 2 ** 52)
            if abs(Fraction(float(got[j, 0])) - re) > u4 * sre or abs(Fraction(float(got[j, 1])) - im) > u4 * sim:
                rec.violation(label + ": element %d further than a few units of rounding from the exact complex product" % j,
                              {"kernel": kern[0], "m": m, "a": a[j].tolist(), "b": b[j].tolist(), "r0": r0[j].tolist(), "got": got[j].tolist()})
                break
        else:
            n_ok += 1
    # long vectors with the three operands in different alignment classes (integer-valued data: exact results, compared with numpy)
    # (the table forms take any length their kernel's step divides: also lengths that are no powers of two, short and long)
    for m in ([16384, 65536, 12, 36, 100, 32772, 24, 104, 32776] if count < 100 else
              [4096, 8192, 16384, 32768, 65536, 12, 20, 36, 100, 1000, 32772, 40004, 65532, 24, 40, 104, 32776, 65528]):
        for kern in kernels.PW_KERNELS:
            if not kernels.applicable(kern, m) or kern[3] == "simple":
                continue
            if m & (m - 1) and kern[1] != "reim":        # (the cplx and reim4 constructors insist on a power of two; the reim ones take any length)
                continue
            g = np.random.default_rng(rec.seed + m)
            a, b, r0 = (g.integers(-1000, 1001, (m, 2)).astype(np.float64) for _ in range(3))
            for offs in ((8, 0, 0), (0, 16, 0), (0, 0, 24), (40, 8, 32)):
                label = "%s m=%d operands at offsets %s" % (kern[0], m, offs)
                if not rec.progress(label):
                    continue
                got, why = kernels.run_pointwise(L, tables, kern, m, MASK_NONE, a, b, r0, "none", off=offs)
                rec.case(("long", kern[0], m, offs))
                if got is None:
                    rec.violation(label + ": " + why, {})
                    continue
                re = a[:, 0] * b[:, 0] - a[:, 1] * b[:, 1] + (r0[:, 0] if kern[2] == "addmul" else 0)
                im = a[:, 0] * b[:, 1] + a[:, 1] * b[:, 0] + (r0[:, 1] if kern[2] == "addmul" else 0)
                if not (np.array_equal(got[:, 0], re) and np.array_equal(got[:, 1], im)):
                    rec.violation(label + ": result differs from the exact complex products", {"kernel": kern[0], "m": m})
                else:
                    n_ok += 1
    rec.data["ok"] = n_ok


def run(chk, replay=None):
    quick = chk.tier == "quick"
    Lib.get()
    chk.assumptions += ["integer-valued data make every floating-point operation of the arithmetic kernels exact",
                        "'a few units of rounding' is taken as 4 ulp of the sum of the magnitudes of the terms"]
    r = run_tlc("Reim4", "Reim4.cfg" if quick else "Reim4_thorough.cfg", workers=1, name="c17-reim4", timeout=1800)
    tlc_must_pass(r, "Reim4 definitions")
    chk.add_tlc(r, "layout maps vs definitions, round trips, convolution window (ASSUMEs, m in %s)" % ("{4,8,16}" if quick else "{4..256}"))
    r = run_tlc("Pointwise", ("Pointwise_quick.cfg" if quick else "Pointwise_thorough.cfg"), workers=8, coverage=True, name="c17-pw")
    tlc_must_pass(r, "Pointwise")
    chk.add_tlc(r, "pointwise kernels = definition")
    r = run_tlc("Reim4Gen", "Reim4Gen.cfg" if quick else "Reim4Gen_thorough.cfg", workers=1, name="c17-gen", timeout=1800)
    tlc_must_pass(r, "Reim4 gen")
    cases = printed_json(r, "CASE")
    d = isolated(chk, "replay of the reim4 address maps", drive_a, (cases,), timeout=600)
    chk.traces += d["ok"] if d else 0
    chk.sample({"address_maps_m4": {k: cases[0][k] for k in ("extract", "from_cplx", "to_cplx")}})
    ms = [4, 8, 16, 32, 64, 128, 512, 2048, 8192, 65536] if quick else [1 << s for s in range(2, 17)]
    jobs = [("reim4 layout probes m=%s" % ms[i::4], drive_layout_b, (ms[i::4], quick)) for i in range(4)]
    jobs.append(("reim4 arithmetic kernels on integer data", drive_arith, (quick,)))
    jobs.append(("reim4 extraction with rows gigabytes apart, and from 16384 and more rows", drive_huge, ()))
    res = isolated_many(chk, jobs, timeout=1800, nproc=6)
    lay = [ev for d in res[:4] + res[5:6] if d for ev in d["events"]]
    ari = [ev for ev in (res[4]["events"] if res[4] else [])]
    r2 = isolated_many(chk, [("pointwise kernels, integer data part %d" % i, c13.drive_pw_b, (i, 100 if quick else 4000)) for i in range(2)] +
                       [("pointwise kernels, rounding on general data", drive_rounding, (150 if quick else 8000,))], timeout=900, nproc=3)
    ari += [ev for d in r2[:2] if d for ev in d["events"]]
    chk.cov["rounding_cases_within_tolerance"] = r2[2]["ok"] if r2[2] else 0
    for name, spec, evs in (("layout", "Reim4Trace", lay), ("arith", "PointwiseTrace", ari)):
        clean = [{k: v for k, v in ev.items() if not k.startswith("_")} for ev in evs]
        bad, results = validate_events(spec, spec + ".cfg", clean, "c17-" + name, nproc=8, timeout=1800)
        for rr in results:
            chk.add_tlc(rr, "trace validation (%s)" % name)
        chk.traces += len(evs) - len(bad)
        chk.cov["events_validated_" + name] = len(evs)
        for b in bad[:10]:
            chk.violation(evs[b]["_what"] + ": differs from the definition of the specification", clean[b])
        if evs:
            chk.sample({name + "_event": clean[len(clean) // 3]})
    chk.cov["exhaustive"] = True
    chk.cov["box"] = "model: m in {4,8,16}, all blocks, rows 0..3, 3 strides, window sizes 0..4; probes: m = 4..65536"
    chk.cov["rule"] = "one case = (kernel, variant, m class, block class, rows) / (arithmetic kernel, variant, length)"
