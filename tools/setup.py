"""MANIFEST.setup_cmd: builds the framework from files on disk (offline): the three build trees are
configured lazily; here the release tree is built and every TLA+ module is parsed (fails fast)."""
import glob
import os
import sys

sys.path.insert(0, os.path.dirname(os.path.abspath(__file__)))
import common  # noqa: E402


def main():
    common.build("rel")
    bad = 0
    for f in sorted(glob.glob(os.path.join(common.SPEC, "*.tla"))):
        ok, out = common.sany(f)
        if not ok:
            bad += 1
            print("SANY FAILED:", f)
            print(out[-2000:])
    print("setup: library built, %d specification modules parsed, %d failures" % (
        len(glob.glob(os.path.join(common.SPEC, "*.tla"))), bad))
    return 1 if bad else 0


if __name__ == "__main__":
    sys.exit(main())
