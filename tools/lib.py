"""ctypes binding of the freshly built library, exact-size guarded buffers, CPU mask, hook events."""
import ctypes
import os

import numpy as np

from common import build, Infra

C = {"p": ctypes.c_void_p, "u": ctypes.c_uint64, "i": ctypes.c_int64, "w": ctypes.c_uint32,
     "d": ctypes.c_double, "n": ctypes.c_int32, "v": None}

# return type, argument types (one letter each)
SIG = {
    # hooks
    "spqlios_verif_set_cpu_mask": "v w", "spqlios_verif_events_enable": "v u",
    "spqlios_verif_events_count": "u ", "spqlios_verif_events_data": "p ",
    "spqlios_verif_events_clear": "v ", "spqlios_verif_set_tid": "v i",
    # module
    "new_module_info": "p un", "delete_module_info": "v p", "module_get_n": "u p",
    "bytes_of_vec_znx_dft": "u pu", "bytes_of_vec_znx_big": "u pu", "bytes_of_svp_ppol": "u p",
    "bytes_of_vmp_pmat": "u puu",
    "new_vec_znx_dft": "p pu", "delete_vec_znx_dft": "v p", "new_vec_znx_big": "p pu",
    "delete_vec_znx_big": "v p", "new_svp_ppol": "p p", "delete_svp_ppol": "v p",
    "new_vmp_pmat": "p puu", "delete_vmp_pmat": "v p",
    # vec_znx
    "vec_znx_zero": "v ppuu", "vec_znx_copy": "v ppuupuu", "vec_znx_negate": "v ppuupuu",
    "vec_znx_add": "v ppuupuupuu", "vec_znx_sub": "v ppuupuupuu",
    "vec_znx_rotate": "v pipuupuu", "vec_znx_automorphism": "v pipuupuu",
    "vec_znx_normalize_base2k": "v pupuupuup", "vec_znx_normalize_base2k_tmp_bytes": "u p",
    # dft
    "vec_znx_dft": "v ppupuu", "vec_znx_idft": "v ppupup", "vec_znx_idft_tmp_bytes": "u p",
    "vec_znx_idft_tmp_a": "v ppupu",
    # big
    "vec_znx_big_add": "v ppupupu", "vec_znx_big_sub": "v ppupupu",
    "vec_znx_big_add_small": "v ppupupuu", "vec_znx_big_sub_small_b": "v ppupupuu",
    "vec_znx_big_sub_small_a": "v ppupuupu",
    "vec_znx_big_add_small2": "v ppupuupuu", "vec_znx_big_sub_small2": "v ppupuupuu",
    "vec_znx_big_normalize_base2k": "v pupuupup", "vec_znx_big_normalize_base2k_tmp_bytes": "u p",
    "vec_znx_big_range_normalize_base2k": "v pupuupuuup",
    "vec_znx_big_range_normalize_base2k_tmp_bytes": "u p",
    "vec_znx_big_rotate": "v pipupu", "vec_znx_big_automorphism": "v pipupu",
    # svp / small product / vmp
    "svp_prepare": "v ppp", "svp_apply_dft": "v ppuppuu",
    "znx_small_single_product": "v ppppp", "znx_small_single_product_tmp_bytes": "u p",
    "vmp_prepare_contiguous": "v pppuup", "vmp_prepare_contiguous_tmp_bytes": "u puu",
    "vmp_apply_dft": "v ppupuupuup", "vmp_apply_dft_tmp_bytes": "u puuuu",
    "vmp_apply_dft_to_dft": "v ppupupuup", "vmp_apply_dft_to_dft_tmp_bytes": "u puuuu",
    # coeffs kernels
    "znx_add_i64_ref": "v uppp", "znx_add_i64_avx": "v uppp", "znx_sub_i64_ref": "v uppp",
    "znx_sub_i64_avx": "v uppp", "znx_negate_i64_ref": "v upp", "znx_negate_i64_avx": "v upp",
    "znx_copy_i64_ref": "v upp", "znx_zero_i64_ref": "v up",
    "rnx_divide_by_m_ref": "v udpp", "rnx_divide_by_m_avx": "v udpp",
    "znx_rotate_i64": "v uipp", "rnx_rotate_f64": "v uipp",
    "znx_rotate_inplace_i64": "v uip", "rnx_rotate_inplace_f64": "v uip",
    "znx_automorphism_i64": "v uipp", "rnx_automorphism_f64": "v uipp",
    "znx_automorphism_inplace_i64": "v uip", "rnx_automorphism_inplace_f64": "v uip",
    "znx_mul_xp_minus_one": "v uipp", "rnx_mul_xp_minus_one": "v uipp",
    "rnx_mul_xp_minus_one_inplace": "v uip",
    "znx_normalize": "v uupppp",
}

FFT64, NTT120 = 0, 1
MASK_NONE, MASK_GENERIC = 0, 0xF   # deny nothing / deny avx2, fma, avx512 and others


class Lib:
    _inst = {}

    def __init__(self, kind="rel"):
        bdir = build(kind)
        self.bdir = bdir
        self.kind = kind
        self.sp = ctypes.CDLL(os.path.join(bdir, "repo", "spqlios", "libspqlios.so"), mode=ctypes.RTLD_GLOBAL)
        self.vh = ctypes.CDLL(os.path.join(bdir, "libvhelp.so"))
        self.rm = ctypes.CDLL(os.path.join(bdir, "librefmodel.so"))
        self.libc = ctypes.CDLL("libc.so.6")
        self.libc.malloc.restype = ctypes.c_void_p
        self.libc.malloc.argtypes = [ctypes.c_size_t]
        self.libc.free.argtypes = [ctypes.c_void_p]
        self._fn = {}
        self._flagstate = [0]

    @classmethod
    def get(cls, kind=None):
        kind = kind or os.environ.get("VERIF_LIBKIND", "rel")
        if kind not in cls._inst:
            cls._inst[kind] = Lib(kind)
        return cls._inst[kind]

    def has(self, name):
        return hasattr(self.sp, name)

    def fn(self, name, sig=None, dll=None):
        key = (name, id(dll))
        f = self._fn.get(key)
        if f is None:
            try:
                f = getattr(dll or self.sp, name)
            except AttributeError:
                raise Infra("symbol %s not found in the built library" % name)
            s = sig or SIG.get(name)
            if s is None:
                raise Infra("no signature for " + name)
            ret, args = s.split(" ")
            f.restype = C[ret]
            f.argtypes = [C[c] for c in args]
            if dll is None and os.environ.get("VERIF_FPFLAGS", "1") != "0":
                # every other call of a library function is entered with all sticky floating-point exception flags raised (what a caller
                # may have left behind: they are no argument of the call), the others with the flags clear
                raw, raise_, clear_ = f, self.vh.vh_fpenv_raise_flags, self.vh.vh_fpenv_clear_flags
                state = self._flagstate

                def f(*a, raw=raw):
                    state[0] ^= 1
                    (raise_ if state[0] else clear_)()
                    return raw(*a)
            self._fn[key] = f
        return f

    def call(self, name, *args, sig=None):
        f = self.fn(name, sig)
        conv = []
        for a in args:
            if isinstance(a, Buf):
                conv.append(a.addr)
            elif isinstance(a, (np.integer,)):
                conv.append(int(a))
            else:
                conv.append(a)
        return f(*conv)

    # ---- floating-point environment of the thread (rounding mode, flush-to-zero, denormals-are-zero)
    def fpenv(self):
        return int(self.fn("vh_fpenv_get", "w ", self.vh)())

    def fpenv_check(self, before):
        """Returns None if the control state is what it was, else a description; restores it in that case (the harness computes its
        expectations in this thread too)."""
        now = self.fpenv()
        if now == before:
            return None
        self.fn("vh_fpenv_set_control", "v w", self.vh)(before)
        return "the floating-point control state of the thread changed from 0x%04x to 0x%04x (rounding mode / flush-to-zero / denormals-are-zero left set)" % (before, now)

    # ---- hooks
    def set_cpu_mask(self, mask):
        self.call("spqlios_verif_set_cpu_mask", mask)

    def events_enable(self, cap):
        self.call("spqlios_verif_events_enable", cap)

    def events(self, clear=True):
        n = self.call("spqlios_verif_events_count")
        if n == 0:
            return np.zeros((0, 8), dtype=np.int64)
        p = self.call("spqlios_verif_events_data")
        arr = np.ctypeslib.as_array(ctypes.cast(p, ctypes.POINTER(ctypes.c_int64)), shape=(n, 8)).copy()
        if clear:
            self.call("spqlios_verif_events_clear")
        return arr

    # ---- modules (cached per (N, type, mask))
    def module(self, n, mtype=FFT64, mask=MASK_NONE):
        self.set_cpu_mask(mask)
        m = self.call("new_module_info", n, mtype)
        return m

    def delete_module(self, m):
        self.call("delete_module_info", m)

    # ---- module / table memory (heap blocks owned by a module, or a single precomputed table)
    def module_blocks(self, m):
        f = self.fn("vh_module_blocks", "u pppu", self.vh)
        ptrs = (ctypes.c_void_p * 16)()
        sizes = (ctypes.c_uint64 * 16)()
        k = f(m, ctypes.addressof(ptrs), ctypes.addressof(sizes), 16)
        return [(int(ptrs[i]), int(sizes[i])) for i in range(k)]

    def block(self, p):
        return (int(p), int(self.fn("vh_block_size", "u p", self.vh)(p)))

    @staticmethod
    def snapshot_blocks(blocks):
        return [ctypes.string_at(p, n) for (p, n) in blocks]


GUARD = 512  # bytes of canary on each side
CANARY = 0x7F   # as double 1.4e306, as int64 9.2e18: an out-of-extent read that influences a result becomes visible


ASAN = os.environ.get("VERIF_ASAN") == "1"
PAGES = os.environ.get("VERIF_PAGES") == "1"      # page-protection observer: see Buf
_libc = None
_pg = None
PAGE = 4096
PROT_NONE, PROT_READ, PROT_WRITE = 0, 1, 2


def _page_fns():
    global _pg
    if _pg is None:
        c = ctypes.CDLL(None, use_errno=True)
        c.mmap.restype = ctypes.c_void_p
        c.mmap.argtypes = [ctypes.c_void_p, ctypes.c_size_t, ctypes.c_int, ctypes.c_int, ctypes.c_int, ctypes.c_long]
        c.mprotect.argtypes = [ctypes.c_void_p, ctypes.c_size_t, ctypes.c_int]
        c.munmap.argtypes = [ctypes.c_void_p, ctypes.c_size_t]
        _pg = c
    return _pg


class ro:
    """with ro(a, b): ...   the given buffers are read-only for the duration (page-protection observer; otherwise nothing happens)"""

    def __init__(self, *bufs):
        self.bufs = [b for b in bufs if b is not None and getattr(b, "mapped", None)]

    def __enter__(self):
        for b in self.bufs:
            b.readonly(True)

    def __exit__(self, *exc):
        for b in self.bufs:
            b.readonly(False)
        return False


class _Mapping:
    def __init__(self, base, total):
        self.base, self.total = base, total

    def __del__(self):
        try:
            _page_fns().munmap(self.base, self.total)
        except Exception:
            pass


class Buf:
    """A heap buffer of exactly `nbytes` payload bytes, placed at `off` bytes past a 64-byte boundary,
    between two canary zones. Payload pre-filled with `fill` (a byte).
    Under the AddressSanitizer observer (VERIF_ASAN=1) the buffer is instead an exact-size malloc block, so that the
    sanitizer's redzones start at the first byte outside the declared extent (reads included)."""

    def __init__(self, nbytes, off=0, fill=0xCD):
        self.nbytes = int(nbytes)
        self.mapped = None
        if PAGES and not ASAN:
            # page-protection observer (VERIF_PAGES=1): the payload ends exactly at an inaccessible page (an access past the declared extent
            # faults, reads included) and starts after one; readonly(True) takes the write permission away from the pages of the payload, so
            # that a source operand which is written - even if it is restored before the call returns - faults as well
            c = _page_fns()
            npay = (max(self.nbytes, 1) + PAGE - 1) // PAGE
            total = (npay + 2) * PAGE
            base = c.mmap(None, total, PROT_READ | PROT_WRITE, 0x22, -1, 0)        # MAP_PRIVATE | MAP_ANONYMOUS
            if base in (None, ctypes.c_void_p(-1).value):
                raise Infra("mmap failed")
            c.mprotect(base, PAGE, PROT_NONE)
            c.mprotect(base + (npay + 1) * PAGE, PAGE, PROT_NONE)
            self.mapped = (base, total, base + PAGE, npay * PAGE)
            self.addr = base + (npay + 1) * PAGE - self.nbytes
            self.pos = self.addr - (base + PAGE)
            carr = (ctypes.c_uint8 * (npay * PAGE)).from_address(base + PAGE)
            carr._owner = _Mapping(base, total)          # unmapped when the last numpy view of the payload is gone
            self.raw = np.frombuffer(carr, dtype=np.uint8)
            self.raw[:] = CANARY
            self.raw[self.pos:self.pos + self.nbytes] = fill
            return
        if ASAN:
            global _libc
            if _libc is None:
                _libc = ctypes.CDLL(None)      # global namespace: the sanitizer's malloc interceptor when it is preloaded
                _libc.malloc.restype = ctypes.c_void_p
                _libc.malloc.argtypes = [ctypes.c_size_t]
            self.addr = _libc.malloc(max(self.nbytes, 1))
            self.pos = 0
            self.raw = np.ctypeslib.as_array(ctypes.cast(self.addr, ctypes.POINTER(ctypes.c_uint8)), shape=(max(self.nbytes, 1),))[:self.nbytes]
            self.raw[:] = fill
            return
        total = GUARD + 64 + self.nbytes + GUARD + 64
        self.raw = np.empty(total, dtype=np.uint8)
        base = self.raw.ctypes.data
        start = ((base + GUARD + 63) // 64) * 64 + off
        self.pos = start - base
        self.addr = start
        self.raw[:] = CANARY
        self.raw[self.pos:self.pos + self.nbytes] = fill

    def view(self, dtype):
        return self.raw[self.pos:self.pos + self.nbytes].view(dtype)

    @property
    def i64(self):
        return self.view(np.int64)

    @property
    def u64(self):
        return self.view(np.uint64)

    @property
    def f64(self):
        return self.view(np.float64)

    @property
    def u8(self):
        return self.raw[self.pos:self.pos + self.nbytes]

    def canaries_ok(self):
        if ASAN:
            return True
        return bool((self.raw[:self.pos] == CANARY).all() and (self.raw[self.pos + self.nbytes:] == CANARY).all())

    def snapshot(self):
        return self.u8.copy()

    def readonly(self, on):
        """page-protection observer only: make the pages of the payload read-only (on) or writable again"""
        if self.mapped:
            _page_fns().mprotect(self.mapped[2], self.mapped[3], PROT_READ if on else (PROT_READ | PROT_WRITE))


    def at(self, byte_offset):
        return self.addr + int(byte_offset)
