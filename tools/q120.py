"""Drivers of the q120 code (products, conversions, block maps, NTT) shared by C03, C04, C10.
Lanes are reduced with Python's % when an event carries residues; everything else is the library's work."""
import ctypes
import os

import numpy as np

from common import to_words
from lib import Buf, ro

U64 = (1 << 64) - 1


class Q:
    def __init__(self, L):
        self.L = L
        out = (ctypes.c_uint64 * 12)()
        L.fn("vh_q120_primes", "v p", L.vh)(ctypes.addressof(out))
        self.q = [int(out[i]) for i in range(4)]
        self.omega = [int(out[4 + i]) for i in range(4)]
        self.crt = [int(out[8 + i]) for i in range(4)]
        self.Q = self.q[0] * self.q[1] * self.q[2] * self.q[3]
        self.pre = {}
        self.ntt = {}

    # ---- precomputed tables
    def prod_pre(self, kind):
        if kind not in self.pre:
            self.pre[kind] = self.L.fn("q120_new_vec_mat1col_product_%s_precomp" % kind, "p ")()
        return self.pre[kind]

    def prod_meta(self, kind):
        n = {"baa": 5, "bbb": 29, "bbc": 9}[kind]
        out = (ctypes.c_uint64 * n)()
        self.L.fn("vh_q120_%s_meta" % kind, "v pp", self.L.vh)(self.prod_pre(kind), ctypes.addressof(out))
        v = [int(x) for x in out]
        names = {"baa": ["hpow"], "bbb": ["s1h", "s2l", "s2h", "s3l", "s3h", "s4l", "s4h"], "bbc": ["s2l", "s2h"]}[kind]
        meta = {"h": v[0]}
        for a, nm in enumerate(names):
            meta[nm] = [to_words(v[1 + 4 * a + k], 4) for k in range(4)]
        return meta

    def ntt_pre(self, n, inverse):
        key = (n, inverse)
        if key not in self.ntt:
            self.ntt[key] = self.L.fn("q120_new_intt_bb_precomp" if inverse else "q120_new_ntt_bb_precomp", "p u")(n)
        return self.ntt[key]

    def ntt_meta(self, n, inverse):
        p = self.ntt_pre(n, inverse)
        cap = 9 + 7 * 20
        out = (ctypes.c_uint64 * cap)()
        k = self.L.fn("vh_q120_ntt_meta", "u ppu", self.L.vh)(p, ctypes.addressof(out), cap)
        v = [int(x) for x in out[:k]]
        nl = v[1]
        levels = []
        for i in range(nl):
            o = v[9 + 7 * i:16 + 7 * i]
            levels.append({"half_bs": o[0], "bs": o[1], "reduce": o[2], "q2bs": [to_words(o[3 + k], 4) for k in range(4)]})
        return {"n": v[0], "dir": 1 if inverse else 0, "red_h": v[4], "red_cst": v[5:9], "levels": levels}

    def powomega(self, n, inverse, count):
        p = self.ntt_pre(n, inverse)
        addr = self.L.fn("vh_q120_ntt_powomega", "p p", self.L.vh)(p)
        return np.ctypeslib.as_array(ctypes.cast(addr, ctypes.POINTER(ctypes.c_uint64)), shape=(count, 4)).copy()

    # ---- helpers
    def residues(self, lanes):
        """lanes: iterable of 4 Python ints -> 4 residues"""
        return [int(lanes[k]) % self.q[k] for k in range(4)]

    def c_pair(self, v, k, unreduced_rng=None):
        """c-layout pair of a value: (v mod q, v*2^32 mod q), optionally as unreduced 32-bit representatives"""
        q = self.q[k]
        r0, r1 = v % q, (v << 32) % q
        if unreduced_rng is not None:
            if r0 + q < (1 << 32) and unreduced_rng.random() < 0.5:
                r0 += q * unreduced_rng.randrange(1, ((1 << 32) - 1 - r0) // q + 1)
            if r1 + q < (1 << 32) and unreduced_rng.random() < 0.5:
                r1 += q * unreduced_rng.randrange(1, ((1 << 32) - 1 - r1) // q + 1)
        return r0, r1

    def run_ntt(self, n, inverse, data_u64):
        """data: (n x 4) uint64 array -> transformed copy"""
        b = Buf(32 * n, fill=0)
        b.u64[:] = np.asarray(data_u64, dtype=np.uint64).reshape(-1)
        self.L.fn("q120_intt_bb_avx2" if inverse else "q120_ntt_bb_avx2", "v pp")(self.ntt_pre(n, inverse), b.addr)
        if not b.canaries_ok():
            return None
        return b.u64.reshape(n, 4).copy()


def product(qc, kind, impl, x_lanes, y_lanes, off=0, pre=None, same=False):
    """kind: baa|bbb|bbc|x2c1|x2c2.  x_lanes / y_lanes: lists of elements; an element of layout a/b is 4 uint64 lanes, of
    layout c is 4 pairs (8 uint32).  For x2 kinds, x has 2 elements per term and y has 2 (1 col) or 4 (2 cols).
    Returns list of result elements (each 4 Python ints), or None if the memory contract was broken."""
    L = qc.L
    base = {"baa": "baa", "bbb": "bbb", "bbc": "bbc", "x2c1": "bbc", "x2c2": "bbc"}[kind]
    fname = {"baa": "q120_vec_mat1col_product_baa_", "bbb": "q120_vec_mat1col_product_bbb_", "bbc": "q120_vec_mat1col_product_bbc_",
             "x2c1": "q120x2_vec_mat1col_product_bbc_", "x2c2": "q120x2_vec_mat2cols_product_bbc_"}[kind] + impl
    xe = {"x2c1": 2, "x2c2": 2}.get(kind, 1)
    ye = {"x2c1": 2, "x2c2": 4}.get(kind, 1)
    ell = len(x_lanes) // xe
    X = Buf(32 * len(x_lanes), off=off, fill=0x21)
    Y = Buf(32 * len(y_lanes), off=off, fill=0x22) if not same else X      # same: the very same buffer passed as both operands
    nres = {"x2c1": 2, "x2c2": 4}.get(kind, 1)
    R = Buf(32 * nres, off=off, fill=0x23)
    if len(x_lanes):
        X.u64[:] = np.array(x_lanes, dtype=np.uint64).reshape(-1)
    if len(y_lanes) and not same:
        if base == "bbc":
            Y.view(np.uint32)[:] = np.array(y_lanes, dtype=np.uint32).reshape(-1)
        else:
            Y.u64[:] = np.array(y_lanes, dtype=np.uint64).reshape(-1)
    x0, y0 = X.snapshot(), Y.snapshot()
    tab = pre if pre is not None else qc.prod_pre(base)
    L.libc.malloc_usable_size.restype = ctypes.c_size_t
    L.libc.malloc_usable_size.argtypes = [ctypes.c_void_p]
    tsz = int(L.libc.malloc_usable_size(tab)) if not os.environ.get("VERIF_ASAN") else 0
    t0 = ctypes.string_at(tab, tsz) if tsz else b""
    with ro(X, Y):
        L.fn(fname, "v puppp")(tab, ell, R.addr, X.addr, Y.addr)
    if tsz and ctypes.string_at(tab, tsz) != t0:
        return None                      # the precomputed table is an input of the product: it must keep its bytes
    if not (X.canaries_ok() and Y.canaries_ok() and R.canaries_ok() and np.array_equal(X.u8, x0) and np.array_equal(Y.u8, y0)):
        return None
    return [[int(v) for v in R.u64[4 * i:4 * i + 4]] for i in range(nres)]
