#!/usr/bin/env python3
"""Judges one seeded change (a patch that breaks a property while compiling and passing the repository's tests).

  seeded.py eval <PROP> <LABEL> <worktree> <patch> <demo source> [--checks C08,C11] [--tiers quick,thorough] [--note-file X.md]

What it does, in the scratch worktree only (never in /repo):
  1. clean tree: build, compile the demonstration with the commands in its header comment, run it (must exit 0);
  2. apply the patch: rebuild (no warnings turned errors), run the repository's gtest binary (must print PASSED 238 tests),
     rebuild and run the demonstration (must exit non-zero);
  3. run the listed checks of /verif against the patched worktree (SPQLIOS_REPO, with private build / work / evidence
     directories so that /verif/_build and /verif/evidence are not touched), first tier that reports a VIOLATION wins;
  4. restore the worktree and write /verif/seeded/<PROP><LABEL>/{patch.diff, demo.*, meta.json}.
The official confirmation against /repo itself (git -C /repo apply; check; git -C /repo checkout -- .) is `seeded.py confirm`.
"""
import json
import os
import re
import shutil
import subprocess
import sys
import time

VERIF = os.path.dirname(os.path.dirname(os.path.abspath(__file__)))


def sh(cmd, cwd=None, env=None, timeout=7200):
    p = subprocess.run(cmd, shell=isinstance(cmd, str), cwd=cwd, env=env, capture_output=True, text=True, timeout=timeout)
    return p.returncode, p.stdout + p.stderr


def demo_commands(src):
    """compile lines (gcc / g++ / cc / clang ..., possibly after a 'compile:' label, possibly continued with a backslash) of the
    header comment, and the binary they produce"""
    head = open(src, errors="replace").read(6000)
    cmds, binary, cont = [], None, None
    for line in head.splitlines():
        t = line.strip().lstrip("/*").strip()
        if cont is not None:
            cont += " " + t.rstrip("\\").strip()
            if not t.endswith("\\"):
                cmds.append(cont)
                cont = None
            continue
        t = re.sub(r"^(compile|build|compile and run|to compile)\s*:\s*", "", t, flags=re.I)
        t = t.lstrip("$ ").strip()
        if re.match(r"^(gcc|g\+\+|cc|c\+\+|clang|clang\+\+)\s", t):
            if t.endswith("\\"):
                cont = t.rstrip("\\").strip()
            else:
                cmds.append(t)
    for c in cmds:
        m = re.search(r"-o\s+(\S+)", c)
        if m:
            binary = m.group(1)
    cmds = [c.split("&&")[0].strip() for c in cmds]
    return cmds, binary


def build(wt):
    rc, out = sh("cmake -G Ninja -B build -DCMAKE_BUILD_TYPE=Release >/dev/null && cmake --build build -j 8 2>&1 | tail -5", cwd=wt)
    return rc, out


def run_demo(wt, src):
    cmds, binary = demo_commands(src)
    if not cmds or not binary:
        return None, "no compile command found in the header of " + src
    log = ""
    for c in cmds:
        rc, out = sh(c, cwd=wt)
        log += out
        if rc != 0:
            return None, "demo compile failed: " + out[-800:]
    try:
        rc, out = sh(binary, cwd=wt, timeout=1800)
    except subprocess.TimeoutExpired:
        return 124, "demo timed out"
    return rc, out[-1500:]


def run_check(prop, tier, wt, tag):
    env = dict(os.environ, SPQLIOS_REPO=wt, VERIF_BUILD="/tmp/sb-" + tag, VERIF_WORK="/tmp/sw-" + tag, VERIF_EVID="/tmp/se-" + tag,
               VERIF_TIER=tier)
    os.makedirs(env["VERIF_EVID"], exist_ok=True)
    t0 = time.time()
    try:
        rc, out = sh([os.path.join(VERIF, "check"), prop, "--tier", tier], cwd=VERIF, env=env, timeout=4 * 3600)
    except subprocess.TimeoutExpired:
        rc, out = 124, "timeout"
    vio = [l for l in out.splitlines() if l.startswith("VIOLATION")]
    desc = [l[len("violation observed: "):][:300] for l in out.splitlines() if l.startswith("violation observed: ")][:3]
    return {"check": prop, "tier": tier, "exit": rc, "violation_lines": len(vio), "first": desc, "wall_s": round(time.time() - t0, 1),
            "tail": out[-400:] if rc not in (0, 1) else ""}


def evaluate(prop, label, wt, patch, demo, checks, tiers, note):
    tag = prop + label
    outdir = os.path.join(VERIF, "seeded", tag)
    os.makedirs(outdir, exist_ok=True)
    rc, head = sh(["git", "-C", VERIF, "rev-parse", "--short", "HEAD"])
    meta = {"id": tag, "verif_commit": head.strip(), "property": prop, "patch": "patch.diff", "demonstration": "demo" + os.path.splitext(demo)[1]}
    sh("git checkout -- .", cwd=wt)
    rc, out = build(wt)
    if rc:
        raise SystemExit("clean build failed: " + out)
    rc0, out0 = run_demo(wt, demo)
    meta["demo_without_change"] = {"exit": rc0, "tail": out0[-300:]}
    rc, out = sh(["git", "apply", patch], cwd=wt)
    if rc:
        raise SystemExit("patch does not apply: " + out)
    try:
        rc, out = build(wt)
        meta["builds"] = rc == 0
        meta["build_warnings"] = "warning" in out
        rc, out = sh("./build/test/spqlios-test --gtest_brief=1 2>&1 | tail -3", cwd=wt)
        meta["suite_with_change"] = out.strip().splitlines()[-1] if out.strip() else ""
        rc1, out1 = run_demo(wt, demo)
        meta["demo_with_change"] = {"exit": rc1, "tail": out1[-600:]}
        meta["confirmed"] = bool(meta["builds"] and "PASSED" in meta["suite_with_change"] and "238" in meta["suite_with_change"]
                                 and rc0 == 0 and rc1 not in (0, None))
        runs, caught = [], []
        for c in checks:
            for tier in tiers:
                r = run_check(c, tier, wt, tag)
                runs.append(r)
                print(tag, json.dumps(r)[:600], flush=True)
                if r["exit"] == 1 and r["violation_lines"]:
                    caught.append("%s (%s)" % (c, tier))
                    break
        meta["checks_run"] = runs
        meta["caught_by"] = caught
    finally:
        sh("git checkout -- .", cwd=wt)
        for d in ("/tmp/sb-" + tag, "/tmp/sw-" + tag, "/tmp/se-" + tag):
            shutil.rmtree(d, ignore_errors=True)
    shutil.copy(patch, os.path.join(outdir, "patch.diff"))
    shutil.copy(demo, os.path.join(outdir, meta["demonstration"]))
    if note and os.path.exists(note):
        shutil.copy(note, os.path.join(outdir, "notes.md"))
        meta["notes"] = "notes.md (the author's description: clause broken, what it needs in order to manifest, observed outputs)"
    old = {}
    mp = os.path.join(outdir, "meta.json")
    if os.path.exists(mp):
        old = json.load(open(mp))
    for k in ("breaks", "needs", "confirmed_in_repo"):
        if k in old and k not in meta:
            meta[k] = old[k]
    # keep the record of earlier evaluations (before a check was strengthened, or of other checks)
    hist = old.get("earlier_evaluations", [])
    if old.get("checks_run"):
        hist.append({"verif_commit": old.get("verif_commit", "?"), "checks_run": [{k: r[k] for k in ("check", "tier", "exit", "violation_lines")}
                                                                                 for r in old["checks_run"]]})
    if hist:
        meta["earlier_evaluations"] = hist
    json.dump(meta, open(mp, "w"), indent=1)
    print(tag, "confirmed=%s caught_by=%s" % (meta["confirmed"], meta["caught_by"]), flush=True)


def confirm(tag, checks=None, tier=None):
    """the protocol of the brief: apply to /repo, run the catching check, undo straight afterwards"""
    outdir = os.path.join(VERIF, "seeded", tag)
    meta = json.load(open(os.path.join(outdir, "meta.json")))
    rc, out = sh(["git", "-C", "/repo", "status", "--porcelain", "--untracked-files=no"])
    if out.strip():
        raise SystemExit("/repo is not clean: " + out)
    todo = []
    if checks:
        todo = [(c, tier or "quick") for c in checks]
    else:
        for c in meta.get("caught_by", []):
            m = re.match(r"(C\d+) \((\w+)\)", c)
            todo.append((m.group(1), m.group(2)))
    if not todo:
        print(tag, "nothing catches it: nothing to confirm")
        return
    rc, out = sh(["git", "-C", "/repo", "apply", os.path.join(outdir, "patch.diff")])
    if rc:
        raise SystemExit("apply failed: " + out)
    res = []
    try:
        env = dict(os.environ, VERIF_EVID="/tmp/se-confirm-" + tag)
        os.makedirs(env["VERIF_EVID"], exist_ok=True)
        for c, t in todo[:1]:
            rc, out = sh([os.path.join(VERIF, "check"), c, "--tier", t], cwd=VERIF, env=env, timeout=4 * 3600)
            vio = [l for l in out.splitlines() if l.startswith("VIOLATION")]
            res.append({"check": c, "tier": t, "exit": rc, "violation_lines": len(vio)})
    finally:
        sh(["git", "-C", "/repo", "checkout", "--", "."])
        shutil.rmtree("/tmp/se-confirm-" + tag, ignore_errors=True)
    meta["confirmed_in_repo"] = res
    json.dump(meta, open(os.path.join(outdir, "meta.json"), "w"), indent=1)
    print(tag, "in /repo:", res, flush=True)


def recheck(tag, checks=None, tiers=("quick",)):
    """re-runs checks on a stored change in a fresh scratch worktree of /repo's HEAD (after a check was strengthened)"""
    outdir = os.path.join(VERIF, "seeded", tag)
    mp = os.path.join(outdir, "meta.json")
    meta = json.load(open(mp))
    wt = "/tmp/wt-rc-" + tag
    sh(["git", "-C", "/repo", "worktree", "remove", "--force", wt])
    rc, out = sh(["git", "-C", "/repo", "worktree", "add", "--detach", wt, "HEAD"])
    if rc:
        raise SystemExit(out)
    try:
        rc, out = sh(["git", "apply", os.path.join(outdir, "patch.diff")], cwd=wt)
        if rc:
            raise SystemExit("patch does not apply: " + out)
        runs, caught = [], []
        for c in (checks or [meta["property"]]):
            for tier in tiers:
                r = run_check(c, tier, wt, "rc" + tag)
                runs.append(r)
                print(tag, json.dumps(r)[:500], flush=True)
                if r["exit"] == 1 and r["violation_lines"]:
                    caught.append("%s (%s)" % (c, tier))
                    break
        hist = meta.get("earlier_evaluations", [])
        if meta.get("checks_run"):
            hist.append({"verif_commit": meta.get("verif_commit", "?"), "checks_run": [{k: r[k] for k in ("check", "tier", "exit", "violation_lines")}
                                                                                    for r in meta["checks_run"]]})
        meta["earlier_evaluations"] = hist
        rc, head = sh(["git", "-C", VERIF, "rev-parse", "--short", "HEAD"])
        meta["verif_commit"] = head.strip() + "+"
        if checks:      # other checks than the property's own: add to the record
            keep = [r for r in meta.get("checks_run", []) if r["check"] not in checks]
            meta["checks_run"] = keep + runs
            meta["caught_by"] = [c for c in meta.get("caught_by", []) if c.split(" ")[0] not in checks] + caught
        else:
            meta["checks_run"], meta["caught_by"] = runs, caught
        json.dump(meta, open(mp, "w"), indent=1)
        print(tag, "caught_by=%s" % meta["caught_by"], flush=True)
    finally:
        sh(["git", "-C", "/repo", "worktree", "remove", "--force", wt])
        for d in ("/tmp/sb-rc" + tag, "/tmp/sw-rc" + tag, "/tmp/se-rc" + tag):
            shutil.rmtree(d, ignore_errors=True)


if __name__ == "__main__":
    a = sys.argv[1:]
    if a[0] == "eval":
        prop, label, wt, patch, demo = a[1:6]
        checks, tiers, note = [prop], ["quick", "thorough"], None
        rest = a[6:]
        while rest:
            if rest[0] == "--checks":
                checks = rest[1].split(",")
            elif rest[0] == "--tiers":
                tiers = rest[1].split(",")
            elif rest[0] == "--note-file":
                note = rest[1]
            rest = rest[2:]
        evaluate(prop, label, wt, patch, demo, checks, tiers, note)
    elif a[0] == "recheck":
        recheck(a[1], a[2].split(",") if len(a) > 2 and a[2] != "-" else None, tuple(a[3].split(",")) if len(a) > 3 else ("quick",))
    elif a[0] == "confirm":
        confirm(a[1], a[2].split(",") if len(a) > 2 else None, a[3] if len(a) > 3 else None)
