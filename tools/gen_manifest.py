"""Writes /verif/MANIFEST.json from the table below and validates it against the schema."""
import json
import os
import subprocess
import sys

VERIF = os.path.dirname(os.path.dirname(os.path.abspath(__file__)))

CLAIMED = {
    "C09": dict(
        category="model_checking",
        text="TLC enumerates the code-shaped machines of RingMaps.tla (in-place cycle walks move by move, the five orbit "
             "shapes of the in-place automorphism, out-of-place index arithmetic) for every (function, N, p) of a box and "
             "checks final state = ring-map definition, no out-of-range index, bounded walks, termination; every enumerated "
             "final state (N<=32) is replayed on the real kernels with arbitrary inputs, and observations of all 11 kernels "
             "and the vector/big wrappers for every residue p (N<=256 quick, <=1024 thorough) plus structured and far-out p "
             "up to N=65536 are validated by TLC against NegaRing's definitions. Right level: the maps are data independent, "
             "so (N,p) enumeration with an injective probe decides the behaviour on all inputs.",
        design_ref="DESIGN.md section 4 C09",
        note="Trusted: TLC, the signed-index abstraction (kernels never branch on data; re-checked by a random second probe), "
             "numpy refmodel for N>nfull sampled positions. N>1024 not every p executed.",
        technique="TLA+ code-shaped model checked exhaustively with TLC + TLC trace validation of recorded kernel observations"),
    "C05": dict(
        category="model_checking",
        text="TLC enumerates the code-shaped limb loop of Normalize.tla (carry-only / normalise / last-limb / zero-extend, "
             "primitive with and without carry-in, in place and out of place) for every k, size pair (0 included) and limb value of "
             "a box and checks final digits = unique balanced expansion, exactly res_size limbs written, source kept, no "
             "out-of-range limb, termination; primitive identity, uniqueness and sub-range slicing as ASSUMEs. Every enumerated "
             "case is replayed on vec_znx_normalize_base2k (FFT64/NTT120 modules), the big and sub-range variants with exact-size "
             "canary buffers; 62-bit columns for every k in 1..62 (carry ripples, boundary digits) and the six primitive shapes are "
             "recorded and re-computed by TLC on Wide integers.",
        design_ref="DESIGN.md section 4 C05",
        note="Trusted: TLC, Wide.tla (self-tested against Python integers), column independence of the kernels. Values beyond "
             "2^62 are outside the documented domain and not generated.",
        technique="TLA+ code-shaped model checked exhaustively with TLC + replay of generated cases + TLC trace validation on bignum (Wide) arithmetic"),
    "C08": dict(
        category="model_checking",
        text="TLC enumerates LimbLoops.tla (the three-phase loops of zero/copy/negate/add/sub/rotate/automorphism and the "
             "argument forwarding of the nine big wrappers, one per-limb kernel call per step, symbolic limb contents) for every "
             "(res,a,b) size triple in 0..3, stride kind and aliasing pattern: final memory = definition, exactly res_size limbs "
             "written, no other limb modified at any step, termination. Each of the ~13k enumerated cases is replayed on the real "
             "API (FFT64 AVX and generic dispatch, NTT120) at several N up to 65536 with 60-bit operands, exact-size canary "
             "buffers and a byte comparison of the whole memory image (padding, limbs past res_size, sources); random shapes up to "
             "40 limbs with large strides are recorded and re-computed by TLC.",
        design_ref="DESIGN.md section 4 C08",
        note="Trusted: TLC; per-limb kernels are symbolic here (validated by C07/C09); rotation/automorphism payloads use the "
             "numpy reference map that C09 binds to the specification. Strides other than N, N+delta, 2N only sampled.",
        technique="TLA+ loop-level model checked exhaustively with TLC + replay of every enumerated case + TLC trace validation"),
    "C16": dict(
        category="exploration",
        text="The API machine Spqlios.tla (one action per public entry point with its definition in Z[X]/(X^N0+1), typed object "
             "store, budget tracking, in-place and overwrite variants) is the exact interpreter: TLC -simulate draws random "
             "well-typed in-budget programs for both module types; each is replayed on the real library lifted to N=N0*t (t up to "
             "16384) under both dispatch configurations, and after every call the written object is projected to integers (DFT and "
             "prepared objects through the library's own idft/apply) and compared, every other object byte-compared. Exploration: "
             "the program space is sampled, the oracle is the specification. The linear prefix of every program is replayed once more "
             "with all initial data multiplied by the constant that takes the largest intermediate value to the top of the value range "
             "(int64 for coefficient vectors and NTT120, 2^40 for FFT64); the in-place inverse DFT is an action for both module types.",
        design_ref="DESIGN.md section 4 C16",
        note="Trusted: TLC, the ring embedding X->Y^t (commutes with every modelled operation), small operands so that FFT64 results "
             "are exact. Program space sampled (seeded by VERIF_SEED).",
        technique="TLA+ API state machine simulated by TLC; generated behaviours replayed step by step on the real library"),
    "C02": dict(
        category="model_checking",
        text="TLC enumerates Vmp.tla - the prepared-matrix address map (column pairs, lone odd column, N<8 layout) and the apply "
             "loops (block extract, 2-column kernel with the code's unsigned loop bound, odd-last 1- or 2-column kernel, N<8 "
             "mul/addmul path, final zero fill), one kernel call per step - for every nrows,ncols in 1..4, a_size,res_size in 0..5, "
             "N in {2,4,8,16}: the set of (row x matrix group) products accumulated per output column and block equals the "
             "definition, no address outside the prepared matrix, scratch within *_tmp_bytes, termination, layout injective and "
             "exactly filling bytes_of_vmp_pmat. All 576 shapes with concrete matrices (expected product computed by TLC) are "
             "replayed on the real library lifted to N=2..65536, both entry points (from integers / from DFT), AVX and generic "
             "dispatch, exact-size scratch; random shapes up to 8x8 (dense, null limbs, null matrix entries / rows / columns, unit vectors; "
             "strides N..4N with zeros or a pattern between the limbs; a prepared buffer that held another matrix) are recorded and "
             "re-computed by TLC.",
        design_ref="DESIGN.md section 4 C02",
        note="Trusted: TLC; results projected through the library's own vec_znx_idft; small operands (exact FFT64 regime). Shapes "
             "outside the box only sampled.",
        technique="TLA+ index-level model of the VMP layout and loops checked exhaustively with TLC + replay of every shape + TLC trace validation"),
    "C01": dict(
        category="exploration",
        text="The exact product and the budget are the specification's: (1) TLC-simulated programs of the API machine restricted to "
             "load/dft/svp/small-product/idft are replayed lifted to N up to 16384 under both dispatch configurations (row "
             "structure, zero rows); (2) products with operands up to the 2^50/2^52 limits at N<=32 (thorough 64) through "
             "znx_small_single_product and svp_prepare+svp_apply_dft+idft/idft_tmp_a are recorded and TLC recomputes on Wide integers "
             "the exact negacyclic product, the norms, the domain predicate and E, demanding |d| <= E+1/2 (hence exactness when "
             "E<1/2); (3) at N up to 4096 (thorough 65536) deviation and norms are measured against the reference model's exact "
             "int128 product and TLC decides the summary. Operands come from adversarial families scaled to the exactness edge and "
             "the budget edge, plus every coefficient at +-2^47..2^49 at N = 32768 / 65536 (1-norm beyond 64 bits) times a sparse operand. "
             "Exploration: inputs are sampled; the bound E itself is measured, not derived.",
        design_ref="DESIGN.md section 4 C01, section 6",
        note="Trusted: TLC + Wide.tla, the C reference product at scale (uniform schoolbook loop), ceil-sqrt loosening (<=1e-9 relative). "
             "The library's real error is 100-1000x below E, so only gross precision loss violates the E clause; the sharp parts are "
             "exactness below E=1/2, results above 2^50, row structure, both dispatches.",
        technique="TLA+ API machine simulated by TLC with replay + TLC trace validation of recorded products on bignum arithmetic"),
    "C13": dict(
        category="model_checking",
        text="Every code-shaped machine carries the aliasing dimension and is checked exhaustively by TLC against its definition "
             "evaluated on the pre-state: LimbLoops (res=a, res=b, a=b, all three; sizes 0..3 incl. res_size different from the "
             "aliased size), Normalize (res=a), RingMaps (in-place cycle walks), Pointwise (r=a, r=b with block-wise load/store). "
             "Each aliased case is replayed on the real code and again with the aliasing removed on identical operand values "
             "(both must equal the model, hence each other); programs of the API machine with in-place inverse DFT and aliased "
             "coefficient/big operations are replayed lifted; IdftOverlay.tla models the inverse DFT over its own input in units of "
             "big limbs (a DFT limb is 1 unit for FFT64, 2 for NTT120): every read must see the caller's bytes, and its 72 shapes are "
             "replayed on both module types against a separate output; 26 pointwise kernels (reim/cplx/reim4; ref, FMA, SSE, AVX-512, "
             "dispatch, simple) with r=a / r=b on random integer-valued data are recorded and validated by TLC.",
        design_ref="DESIGN.md section 4 C13",
        note="Trusted: TLC. Partial overlaps are outside the property's domain and are not generated. Integer-valued data make "
             "the floating-point kernels exact.",
        technique="TLA+ models with an aliasing parameter checked exhaustively with TLC + twin replay (aliased / de-aliased) + TLC trace validation"),
    "C18": dict(
        category="model_checking",
        text="Frame conditions are invariants of the specification, checked by TLC at every step of the code-shaped machines "
             "(LimbLoops.Frame, Normalize.SourceKept, Pointwise.SourcesKept) and on every action of the simulated API machine "
             "(Spqlios.SourcesUnchanged). Generated programs (both module types, both dispatches), limb-loop cases (incl. a=b), VMP "
             "shapes and pointwise cases are replayed with byte snapshots of every object (stride padding included) and of the "
             "module/table heap blocks around each call; the per-call change report (object, role, changed) is validated by TLC "
             "against the write sets of Extents.tla (only the output, plus the documented scratch source of vec_znx_idft_tmp_a). The "
             "same replays run once more under a page-protection observer: every operand ends at an inaccessible page and every operand "
             "a call only reads is write-protected during the call, so a source that is written - even if restored before return - faults.",
        design_ref="DESIGN.md section 4 C18",
        note="Trusted: TLC; table memory = heap blocks reachable from MODULE through the private headers (usable size). Module and "
             "table memory cannot be write-protected: a temporary modification of it, restored before return, is visible only to C12's "
             "concurrent runs.",
        technique="TLA+ frame invariants checked with TLC + replay with whole-memory snapshots + TLC trace validation of change reports"),
    "C12": dict(
        category="model_checking",
        text="TLC explores every interleaving of the unsynchronised Read / Init+Publish / Use steps of the cached *_simple functions "
             "(SimpleCache.tla: process-wide and thread-local slots, catalogue of the 20 cached functions with their keys) for 2-3 "
             "threads, warm and cold start: after the documented warm-up no write to a process-wide slot and no race, the table "
             "used always matches the call, module-level calls reach no slot (call graph), and a cold-start race is reachable "
             "(witness). Recorded executions of the real library - 16 threads over 27 module/table/kernel-level and 8 *_simple operation "
             "groups (each in three variants that differ by their data; table-free kernels called directly in both variants; runs under "
             "the accelerated and under the portable dispatch) on shared MODULE/PRECOMP objects, warm and cold (first use included), "
             "totally ordered by the sequence number "
             "taken inside the hook - are validated by TLC (SimpleCacheTrace.tla): no cache event inside a module/table call, no "
             "miss after warm-up, every call returns the hash of its sequential execution. A ThreadSanitizer build observes warm "
             "runs (both dispatches) and a cold run of module-level operations; the writable static storage of the built library is compared with the slot inventory.",
        design_ref="DESIGN.md section 4 C12",
        note="Trusted: TLC, the hooks' global sequence number, TSan as observer. A race that neither changes an output in the runs, "
             "nor is hooked, nor is seen by TSan is invisible. Cold-start races inside *_simple are allowed (documented protocol).",
        technique="TLA+ model of the caches checked over all interleavings with TLC + TLC trace validation of recorded multi-threaded executions"),
    "C15": dict(
        category="model_checking",
        text="TLC checks on all sequential histories (SimpleCache.tla) that the table a cached call uses was built with the call's "
             "own values of every parameter its result depends on, and that the catalogue of cache keys covers those parameters. "
             "TLC-simulated histories of 60 calls over the 17 in-domain *_simple functions (7 dimensions, divisors, bounds) are "
             "replayed: every logical call must return the same bytes at every occurrence and on a freshly built table, under "
             "other buffer offsets (0..56) and prefills; the hook events (which table, which parameters) are validated by TLC. "
             "API programs are replayed twice with different prefills/offsets/interleaved unrelated calls and the raw bytes of "
             "every defined object must coincide after every step. Lifecycle.tla describes the storage behind modules and tables (own "
             "table / shared and counted: safe; shared and freed by the first delete: the witness); recorded life cycles - several live "
             "objects of every table kind and of FFT64 modules, creations and deletes in between - are validated by TLC "
             "(LifecycleTrace.tla): a result is a function of (kind, dimension, data) only.",
        design_ref="DESIGN.md section 4 C15",
        note="Trusted: TLC, sha256 of outputs. Histories longer than the simulated ones are not explored. reim_to_tnx32_simple is "
             "keyed by dimension only but its kernels are stubs that abort: no in-domain call, recorded in the catalogue.",
        technique="TLA+ cache-key model checked exhaustively with TLC + replay of TLC-simulated call histories + TLC trace validation of hook events"),
    "C03": dict(
        category="model_checking",
        text="TLC checks NttSchedule.tla - the butterfly schedule of the q120 NTT/iNTT over Z[w]/(w^n+1), n=1..32 - to be the "
             "evaluation map at w^(1+2 bitrev j) (hence linear, convolution theorem) and the inverse to invert it. The schedule is "
             "bound to the code by the real twiddle tables (every entry for small n, samples up to n=65536, forward and inverse: "
             "exponent, order, shifted half), by impulse probes with arbitrary 64-bit lane content for every n=2..65536 and by "
             "products of transforms against the negacyclic product computed by TLC (n<=16), all validated by TLC in residue "
             "arithmetic; round trips and linearity on extremal lanes for every n and NTT120 vec_znx_dft->idft/_tmp_a on "
             "INT64_MIN/MAX for all size/stride combinations, and the life cycles of several live NTT120 modules of one dimension "
             "(deletes and creations in between), are compared on all lanes by the harness and summarised.",
        design_ref="DESIGN.md section 4 C03",
        note="Trusted: TLC; lane residues computed by the harness with %; only the AVX2 NTT exists (no second implementation). "
             "Full-lane comparisons of round trips are done by the harness (TLC receives the mismatch count).",
        technique="TLA+ symbolic model of the NTT schedule checked with TLC + TLC trace validation of tables, impulse probes and convolutions"),
    "C04": dict(
        category="model_checking",
        text="An exact envelope certificate written in TLA+ on bignum (Wide) integers is evaluated by TLC on the metadata read from "
             "the freshly built tables (split points, claimed bit sizes, reduce flags, q*2^k offsets, reduction constants) for every "
             "n=2..65536, forward and inverse, and on the constants of the a*a, b*b, b*c products (ref and AVX2 step lists) at "
             "ell=10000: no sum reaches 2^64, every operand of a 32x32 multiply is below 2^32, every lazy subtraction offset is a "
             "multiple of q and at least the subtrahend, every claimed bit size is sound. The guarded stage hook records the schedule "
             "the drivers really execute on worst-case lanes; TLC checks it is legal (every level of every chunk once, in order) and "
             "that observed per-prime maxima stay below the certificate. Worst-case operands through round trips and the six "
             "product kernels (ell up to 10000) must be congruent to the exact value (TLC recomputes), ref and AVX2 agreeing.",
        design_ref="DESIGN.md section 4 C04",
        note="Trusted: TLC + Wide.tla. Default 30-bit primes only (29/31-bit sets need a rebuild; not explored). Beyond the first NTT "
             "level the interval certificate is conservative: a failing certificate alone is reported as certificate_gap, a "
             "VIOLATION needs a failing execution.",
        technique="TLA+ exact interval certificate evaluated by TLC on the real tables' metadata + TLC trace validation of hooked stage events and worst-case executions"),
    "C10": dict(
        category="exploration",
        text="Q120.tla defines the layouts, products, conversions and the centered CRT lift in residue arithmetic (constants of "
             "q120_common.h checked as ASSUMEs). Recorded calls of the five product kinds x {ref, avx2} for ell in 0..10000 on "
             "random, all-maximal, alternating, near-multiple and non-canonical operands, of all six conversions on extreme and "
             "random int64 (lift probed at +-(Q-1)/2, +-(Q+1)/2, with unreduced lanes), and of the block extract/save maps "
             "(injective probes, all blocks) are validated by TLC; int64->b->int128 is checked to be the identity.",
        design_ref="DESIGN.md section 4 C10",
        note="Trusted: TLC; lanes reduced modulo each prime by the harness (Python %). Operands are sampled (2^256 combinations); the "
             "kernels have no data-dependent branch.",
        technique="TLA+ definitions in residue arithmetic + TLC trace validation of recorded kernel calls"),
    "C14": dict(
        category="exploration",
        text="The contracts of the property are written in TLA+ on exact dyadic rationals (Dyadic.tla over Wide integers; no float "
             "arithmetic in the specification): exactness of int64/int32->double, |r*d - x| <= d/2 for double->int64 on the 2^50 and "
             "2^52 domains, nearest integer modulo 2^32 for complex->torus32, x/d minus a nearest integer within 2^(ovh-50) for "
             "double->torus double. Every conversion x {reference, AVX variants called directly, dispatch under both CPU masks, "
             "*_simple} x m = 1..64 (thorough 1024) x divisors 2^j x log2overhead 0..48 x bounds is driven with magnitudes at and "
             "next to the domain boundaries, halves +- 1 and 2 ulp, exact ties, INT32_MIN/MAX and random values; TLC judges every "
             "element from the logged IEEE / two's-complement words. ToyFloat.tla states the mantissa tricks of the accelerated kernels "
             "(to_znx64 bnd50, from_znx64 bnd50, to_tnx) in a toy binary format with a P-bit significand and round-to-nearest-even, and TLC "
             "checks them exhaustively over every toy value of the documented window (P = 8; thorough P = 7..11).",
        design_ref="DESIGN.md section 4 C14",
        note="Trusted: TLC + Wide/Dyadic. 2^64 inputs per conversion are sampled, boundary directed. Exact ties accept either "
             "neighbour; for the torus conversion the tolerance also applies to the choice of the nearest integer.",
        technique="TLA+ contracts on exact dyadic arithmetic + TLC trace validation of recorded conversions + exhaustive TLC evaluation of the mantissa tricks in a toy float format"),
    "C17": dict(
        category="model_checking",
        text="Reim4.tla writes the block extraction (single, contiguous rows, strided rows), block save and interleaved-complex <-> "
             "reim4 conversions as address maps exactly as coded, next to the definition (block b = evaluations 4b..4b+3, real then "
             "imaginary parts); TLC checks on a small box that they coincide, that save o extract and to_cplx o from_cplx are the "
             "identity on all m numbers, and that the convolution window as coded equals its definition; Pointwise.tla does the same "
             "for multiply / multiply-accumulate. The printed address maps are replayed on every variant (ref, AVX, FMA, dispatch, "
             "simple) with injective probes; probes for every m up to 65536 (all or sampled blocks, rows 0..3, strides), dot "
             "products with 1 and 2 columns (rows 0..8), every convolution window (k, sizea, sizeb) of a box and the pointwise "
             "kernels of the three layouts on integer-valued data are recorded and validated by TLC; rounding on general data is "
             "checked within 4 ulp of the terms' magnitude against exact fractions.",
        design_ref="DESIGN.md section 4 C17",
        note="Trusted: TLC; exactness of float arithmetic on small integers. Rounding claims are sampled (exploration), layouts and "
             "index structure are model-checked and probed for every m.",
        technique="TLA+ address-map definitions checked with TLC + replay of printed maps + TLC trace validation of probes and integer-data kernels"),
    "C07": dict(
        category="exploration",
        text="Dispatch.tla transcribes every selection rule (module vtable, 18 table kinds) with each kernel's precondition read off "
             "its loop; TLC checks as an ASSUME that for every dimension 2^0..2^16, parameter and subset of {avx2, fma} the selected "
             "kernel is applicable and of the right kind (model-checked part). On the real library, tables and modules are created "
             "under the four CPU masks (guarded CPU-feature override), the installed function pointer is resolved to a kernel name "
             "and TLC checks it is legal (equality with the transcribed rule is advisory: model_drift). Kernel pairs - znx "
             "add/sub/negate and rnx divide (ref/AVX, nn from 1, misaligned, extremal, in place), pointwise kernels (ref/FMA/SSE/"
             "AVX-512), reim4 dot products and convolution, numeric conversions, q120 products (ref/AVX2) - are each validated "
             "against the definition of their kind by the trace specifications of C08/C13/C17/C14/C10; TLC-generated API programs "
             "are replayed under the AVX and the generic dispatch and must give the integers of the specification under both.",
        design_ref="DESIGN.md section 4 C07",
        note="Registered at the weaker level (exploration): the dispatch table is model-checked, kernel inputs are sampled. NEON "
             "kernels cannot run here; AVX-512 kernels run because this host has avx512f/dq/vl. FFT leaves and drivers are covered "
             "by C06, VMP prepare/apply ref vs avx by C02 (both masks).",
        technique="TLA+ decision-table model checked with TLC + TLC trace validation of observed selections and of every kernel variant against its definition"),
    "C11": dict(
        category="exploration",
        text="Extents.tla holds the *_tmp_bytes / bytes_of_* formulas and write sets; the code-shaped machines carry a ghost for any "
             "access outside the declared extents and a scratch high-water mark, and TLC checks them on exhaustive boxes that "
             "include every zero size (Vmp, Normalize, LimbLoops, RingMaps). On the real library: the values reported by every "
             "*_tmp_bytes / bytes_of_* function over a box of shapes and both module types are validated by TLC against Extents.tla, "
             "as is the layout of the table objects with work buffers (table needed by the schedule, buffers disjoint, aligned, inside the block); "
             "the allocator calls inside new_*/delete_* scopes of every object family (static library, malloc/calloc/aligned_alloc/"
             "realloc/free diverted at link time) are validated by the ledger specification AllocLedgerTrace.tla (frees hit live "
             "blocks only, every scope ends empty); TLC-generated cases and programs are replayed with exact-size heap buffers, "
             "exact scratch, canaries, misalignments 8/16/24 and two pre-fills (identical results demanded); the same replays run "
             "under an AddressSanitizer build with exact-size malloc blocks so that any read or write outside a declared extent "
             "aborts the call and is reported with the sanitizer's stack.",
        design_ref="DESIGN.md section 4 C11",
        note="Trusted: TLC, AddressSanitizer (gcc 12) as observer, the 0x7F canary pattern. Address sanitizer only: UBSan also flags "
             "the signed shifts of the digit extraction, which are outside this property. A non-influential out-of-extent read "
             "inside the four hand-written assembly kernels is invisible.",
        technique="TLA+ extent/ledger specifications + TLC trace validation of reported sizes and allocator events + exact-size replay of TLC-generated cases under canaries and AddressSanitizer"),
    "C06": dict(
        category="other",
        text="Order and structure are decided by the specification: FftSchedule.tla transcribes the reference split-layout FFT "
             "(leaves of 16/8/4/2, breadth-first radix-4 passes with an initial radix-2 pass for odd log2 m, recursive halving, "
             "twiddle exponents as the fill_* functions compute them) as a symbolic machine over exponents of w = exp(2 pi i/4m), "
             "and TLC checks one monomial per (output, input) and output j = evaluation at w^(1+4 bitrev j) for m = 1..256 in both "
             "regimes (thorough: up to m = 2048), for the reim layout and for the cplx layout (cplx_fft_ref.c: radix-2 passes up to m = 8, own table "
             "layout); FftInverse.tla transcribes reim_ifft_ref.c and cplx_ifft_ref.c and TLC checks inverse o forward = m * identity "
             "(m <= 64, both layouts, both regimes). The code is bound to it by impulse probes of all 16 implementations (reference, AVX2/FMA drivers with the "
             "assembly leaves, dispatch under both CPU masks, *_simple; reim and cplx; forward and inverse) for every m = 1..4096 and "
             "65536 (thorough: every m), each output classified to a 4m-th root of unity and the exponents validated by TLC, plus "
             "bit-identical repeated calls, unchanged table bytes and transforms run inside the library-owned work buffers "
             "(*_precomp_get_buffer) equal to those in caller arrays; the real forward and inverse tables of both layouts (m<=2048, 17812 entries) "
             "are compared with the tables generated from the schedules (advisory). The error-norm clause is MEASURED (constants, resonant, wide dynamic range, "
             "random inputs against an 80-bit long double evaluation of the documented map) and the bound is evaluated by TLC.",
        design_ref="DESIGN.md section 4 C06, section 6",
        note="TLA+ has no reals: the norm clause is measured, not derived (level 'other'). Trusted: TLC, numpy long double reference "
             "(64-bit significand, about 2000x finer than the bound), mpmath for the table check. Observed errors are about 10% of the bound.",
        technique="TLA+ symbolic schedule model checked with TLC + TLC trace validation of impulse-response exponents + measured error norm judged by TLC"),
}

NOT_YET = "check not built yet in this session (planned, see DESIGN.md section 8)"

ALL = ["C%02d" % i for i in range(1, 19)]


def main():
    hooks = subprocess.run(["git", "-C", "/repo", "log", "--format=%H %s"], capture_output=True, text=True).stdout
    hook_commits = [l.split()[0] for l in hooks.splitlines() if l.split(" ", 1)[1].startswith("verif hooks")]
    man = {
        "version": 1,
        "setup_cmd": "python3-vt tools/setup.py",
        "hooks": {
            "guard": "SPQLIOS_VERIF",
            "enable": "tools/common.py build(): cmake -S /verif/harness (add_subdirectory(/repo), add_compile_definitions(SPQLIOS_VERIF)) "
                      "-B /verif/_build/<rel|asan|tsan>, incremental ninja build of /repo's working tree before every check",
            "baseline_off_cmd": "tools/baseline_off.sh",
            "source_commits": hook_commits,
            "add_only": True,
        },
        "engines": [
            {"name": "tlc-mc", "path": "spec/*.tla + *_quick.cfg/_thorough.cfg", "kind_free_text": "exhaustive TLC model checking of code-shaped machines against definitions"},
            {"name": "tlc-gen", "path": "spec/*_gen.cfg", "kind_free_text": "TLC-enumerated behaviours printed as JSON and replayed on the real library"},
            {"name": "tlc-trace", "path": "spec/*Trace.tla", "kind_free_text": "TLC validation of ndjson traces recorded from the real library"},
            {"name": "harness", "path": "tools/lib.py harness/", "kind_free_text": "ctypes driver of the freshly built library: exact-size canary buffers, CPU mask, hook events, forked isolation"},
        ],
        "checks": [],
        "not_applicable": [],
        "notes": "All checks: ./check <ID> --tier quick|thorough. Exit 0 held / 1 VIOLATION (observed on the real code) / 2 infrastructure or model failure (no verdict).",
    }
    # domain of the recorded / replayed executions as widened after the rounds of seeded changes (DESIGN 0.6)
    WIDENED = {
        "C02": " Shapes up to 200 rows / 17 columns; vectors and matrix rows that cancel exactly; a prepared matrix applied twice.",
        "C03": " An inverse transform as the first transform of a fresh process; life cycles of several live NTT120 modules up to N = 2048 (8192).",
        "C04": " Worst-case products at every length 0..130 and around the powers of two; short products on half-word-boundary operands; every low half-word product at its maximum; every three-term product of half-word extremes.",
        "C05": " Carry chains over 65..136 dropped limbs through the plain, big and range entry points; volumes up to 65536 x 18 and 16384 x 70; "
               "the primitive on lengths 3..24.",
        "C06": " Every dimension up to 2^18; the transforms under a 4 kHz stream of signals to the computing thread.",
        "C07": " Prepared matrices of 16 MiB at a misaligned address under both dispatches.",
        "C08": " One-limb operands with stride 0; volumes of 2^22 coefficients and more with every limb compared with the call on that limb "
               "alone; limb strides of 2^29..2^32 coefficients in a sparse mapping; objects of more than 4 GiB (thorough).",
        "C09": " Kernels up to N = 2^21; exponents p, p+N, p+2N back to back; in-place wrapper calls with unequal sizes, compaction and clearing.",
        "C10": " The same buffer passed as both operands; half-word-boundary operands; every three-term product of half-word extremes.",
        "C12": " The built library is scanned for non-temporal stores without a fence (advisory). Rotations and automorphisms (small and big forms) out of place "
               "on 2, 5 and 8 limbs with a different p in each data variant, so that threads inside one shared module use different p at the same time.",
        "C13": " Overlay.tla decides which in-buffer layouts are well defined (rule checked against the loop on a buffer of cells for every layout "
               "of a box, an illegal layout that ends wrong as witness); the legal layouts - compaction, compaction and clearing, vectors sharing "
               "single limbs - are replayed for the unary operations and for add / sub over either operand; normalisation over its own input "
               "with another stride against a separate result.",
        "C14": " Every declared bound / overhead, divisors 2^j up to |j| = 1000, first uses of the caches in a fresh process in several orders, "
               "dimensions up to 2^18 through the simple forms.",
        "C15": " Operands at particular places relative to each other (adjacent; exactly 2^31+64, 2^32, 2^35 bytes apart) in a sparse mapping; "
               "every table-level call also under round-down / round-up (control state left as found); every other library call entered with "
               "all sticky exception flags raised.",
        "C17": " Row counts up to 65 (129), rows that are exactly zero, convolution operands up to 300 (1000) groups, pointwise vectors of 16384 / "
               "65536 numbers with one alignment class per operand, subnormal values in either operand; extraction with rows 16..32 GiB apart and from 16384 / 20000 rows.",
    }
    for pid in ALL:
        c = CLAIMED.get(pid)
        if c and pid in WIDENED and not c["text"].endswith(WIDENED[pid]):
            c = dict(c, text=c["text"] + WIDENED[pid])
            CLAIMED[pid] = c
        if not c:
            man["not_applicable"].append({"property_id": pid, "reason": NOT_YET})
            continue
        man["checks"].append({
            "property_id": pid,
            "quick_cmd": "./check %s --tier quick" % pid,
            "thorough_cmd": "./check %s --tier thorough" % pid,
            "evidence_file": "/verif/evidence/%s.json" % pid,
            "replay_cmd_template": "./check %s --replay {path}" % pid,
            "engine": "tlc-mc+tlc-gen+tlc-trace",
            "level_claimed": {"category": c["category"], "text": c["text"], "design_ref": c["design_ref"]},
            "level_note": c["note"],
            "technique": c["technique"],
        })
    path = os.path.join(VERIF, "MANIFEST.json")
    with open(path, "w") as f:
        json.dump(man, f, indent=1)
    try:
        import jsonschema
        jsonschema.validate(man, json.load(open("/root/.vp/MANIFEST.schema.json")))
        print("MANIFEST.json valid: %d checks, %d not_applicable" % (len(man["checks"]), len(man["not_applicable"])))
    except ImportError:
        print("jsonschema not available; written without validation")


if __name__ == "__main__":
    sys.path.insert(0, os.path.dirname(os.path.abspath(__file__)))
    main()
