"""./check <ID> [--tier quick|thorough] [--replay path]"""
import argparse
import importlib
import os
import sys
import traceback

sys.path.insert(0, os.path.dirname(os.path.abspath(__file__)))
import common  # noqa: E402


def main():
    ap = argparse.ArgumentParser()
    ap.add_argument("pid")
    ap.add_argument("--tier", default=os.environ.get("VERIF_TIER", "quick"), choices=["quick", "thorough"])
    ap.add_argument("--replay", default=None)
    a = ap.parse_args()
    try:
        mod = importlib.import_module("props." + a.pid.lower())
    except ImportError as e:
        print("no check for %s: %s" % (a.pid, e), file=sys.stderr)
        return 2
    chk = None
    try:
        chk = common.Check(a.pid, mod.LEVEL, a.tier)
        mod.run(chk, replay=a.replay)
        return chk.finish()
    except Exception as e:
        if not isinstance(e, common.Infra):
            traceback.print_exc()
        # a later failure of the machinery does not erase what the real code was already seen doing: violations observed on the
        # implementation before the failure are reported; with none, there is no verdict
        if chk is not None and chk.violations:
            print("INFRASTRUCTURE FAILURE after %d violation(s) were observed on the real code (reported below): %s" % (
                len(chk.violations), str(e)[:2000]), file=sys.stderr)
            chk.notes.append("the run stopped early on an infrastructure failure: " + str(e)[:300])
            try:
                return chk.finish()
            except Exception:
                traceback.print_exc()
                return 2
        print("INFRASTRUCTURE FAILURE (no verdict): %s" % (e if isinstance(e, common.Infra) else "unexpected exception"), file=sys.stderr)
        return 2


if __name__ == "__main__":
    sys.exit(main())
