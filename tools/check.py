"""./check <ID> [--tier quick|thorough] [--replay path]"""
import argparse
import importlib
import os
import sys
import traceback

sys.path.insert(0, os.path.dirname(os.path.abspath(__file__)))
import common  # noqa: E402


def main():
    ap = argparse.ArgumentParser()
    ap.add_argument("pid")
    ap.add_argument("--tier", default=os.environ.get("VERIF_TIER", "quick"), choices=["quick", "thorough"])
    ap.add_argument("--replay", default=None)
    a = ap.parse_args()
    try:
        mod = importlib.import_module("props." + a.pid.lower())
    except ImportError as e:
        print("no check for %s: %s" % (a.pid, e), file=sys.stderr)
        return 2
    try:
        chk = common.Check(a.pid, mod.LEVEL, a.tier)
        mod.run(chk, replay=a.replay)
        return chk.finish()
    except common.Infra as e:
        print("INFRASTRUCTURE FAILURE (no verdict): %s" % e, file=sys.stderr)
        return 2
    except Exception:
        traceback.print_exc()
        print("INFRASTRUCTURE FAILURE (no verdict): unexpected exception", file=sys.stderr)
        return 2


if __name__ == "__main__":
    sys.exit(main())
