SPECIFICATION Spec
CONSTANTS
  N0 = 4
  ModType = "FFT64"
  MaxLen = 12
  Budget = 100000
  Ks = {2, 3, 5}
  Simulate = TRUE
  Focus = {"load", "coef", "dft", "norm", "big"}
INVARIANTS TypeOk BudgetOk SourcesUnchanged Dump
CHECK_DEADLOCK FALSE
