-------------------------- MODULE RingMapsTrace --------------------------
(* Trace validation for C09/C13: observations recorded from the real       *)
(* rotation / automorphism / (X^p-1) kernels and their vector and big      *)
(* wrappers are checked against the definitions of NegaRing.                *)
(*                                                                          *)
(* Event (one ndjson line):                                                 *)
(*   e    "Map"                                                             *)
(*   kind "rot" | "aut" | "mxp"                                             *)
(*   N    ring dimension, pw: the int64 argument p as 4 little-endian       *)
(*        16-bit two's-complement words (TLC integers are 32 bit)           *)
(*   fns  names of the entry points that produced exactly this output       *)
(*   in   input coefficients (absent: the canonical injective probe i+1)    *)
(*   idx  observed positions (absent: all of 0..N-1)                        *)
(*   obs  observed output coefficients at these positions                   *)
(* Stateless: every event is judged on its own and failures are collected,  *)
(* so one rejection does not hide the rest of the trace.                    *)
EXTENDS NegaRing, TLC, Json, IOUtils

Tr == ndJsonDeserialize(IOEnv.TRACE)

VARIABLES l, bad
vars == <<l, bad>>

Has(ev, f) == f \in DOMAIN ev

\* p mod 2N from the low words (2N divides 2^28, two's complement makes this exact for negative p)
PMod(ev) == (ev.pw[1] + 65536 * (ev.pw[2] % 4096)) % (2 * ev.N)

Input(ev) == IF Has(ev, "in") THEN [x \in Idx(ev.N) |-> ev.in[x + 1]] ELSE [x \in Idx(ev.N) |-> x + 1]

Expected(ev) ==
  LET N == ev.N  q == PMod(ev)  a == Input(ev) IN
  CASE ev.kind = "rot" -> PRotate(N, q, a)
    [] ev.kind = "mxp" -> PMulXpMinusOne(N, q, a)
    [] ev.kind = "aut" -> PAutomorphism(N, q, a)

\* sampled form: canonical probe only; the value of the signed index is the expected coefficient
ExpectedAt(ev, pinv, x) ==
  LET N == ev.N  q == PMod(ev) IN
  CASE ev.kind = "rot" -> FRotateAt(N, q, x)[1]
    [] ev.kind = "mxp" -> FRotateAt(N, q, x)[1] - (x + 1)
    [] ev.kind = "aut" -> FAutomorphismAtQ(N, pinv, x)[1]

EventOk(ev) ==
  /\ ev.e = "Map"
  /\ (ev.kind = "aut" => PMod(ev) % 2 = 1)
  /\ IF Has(ev, "idx")
     THEN LET pinv == IF ev.kind = "aut" /\ ev.N > 1 THEN InvMod(PMod(ev), 2 * ev.N) ELSE 1 IN
          /\ ~Has(ev, "in")
          /\ Len(ev.obs) = Len(ev.idx)
          /\ \A k \in 1 .. Len(ev.idx) : ev.obs[k] = ExpectedAt(ev, pinv, ev.idx[k])
     ELSE /\ Len(ev.obs) = ev.N
          /\ LET ex == Expected(ev) IN \A x \in Idx(ev.N) : ev.obs[x + 1] = ex[x]

Init == l = 1 /\ bad = {}
Next == /\ l <= Len(Tr)
        /\ l' = l + 1
        /\ bad' = IF EventOk(Tr[l]) THEN bad ELSE bad \cup {l}
Spec == Init /\ [][Next]_vars

Report == (l = Len(Tr) + 1) =>
            PrintT(<<"RESULT", ToJson([n |-> Len(Tr), bad |-> SetToSeq(bad)])>>)
=============================================================================
