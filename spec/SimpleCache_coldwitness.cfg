SPECIFICATION Spec
CONSTANTS
  Threads = {1, 2}
  Ms = {3, 4}
  Divs = {1, 2}
  Fns = {"reim_fft_simple", "reim_to_znx64_simple"}
  MaxCalls = 2
  GenLen = 0
  WarmStart = FALSE
INVARIANTS ColdRacePossible
CHECK_DEADLOCK FALSE
