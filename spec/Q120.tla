-------------------------------- MODULE Q120 --------------------------------
(* The q120 arithmetic (C03, C04, C10): the four primes, residue arithmetic *)
(* on TLC's 32-bit integers, the definitions of the layouts, products and   *)
(* conversions, the NTT as an evaluation map, and the exact envelope        *)
(* (interval) certificate of the lazy 64-bit arithmetic on Wide integers.   *)
EXTENDS Wide, Bits, FiniteSets

\* default 30-bit prime set of q120_common.h
Qs == <<2 ^ 30 - 2 * 2 ^ 17 + 1, 2 ^ 30 - 17 * 2 ^ 17 + 1, 2 ^ 30 - 23 * 2 ^ 17 + 1, 2 ^ 30 - 42 * 2 ^ 17 + 1>>
Omegas == <<1070907127, 315046632, 309185662, 846468380>>
CrtCst == <<43599465, 292938863, 594011630, 140177212>>
LogQ == 30

-----------------------------------------------------------------------------
\* residue arithmetic modulo q < 2^30 on native integers (operands reduced): no intermediate reaches 2^31
AddMod(a, b, q) == LET s == a + b IN IF s >= q THEN s - q ELSE s
SubMod(a, b, q) == IF a >= b THEN a - b ELSE a - b + q
RECURSIVE DblMod(_, _, _)
DblMod(a, t, q) == IF t = 0 THEN a ELSE DblMod(AddMod(a, a, q), t - 1, q)        \* a * 2^t mod q
MulModQ(a, b, q) ==
  LET a1 == a \div 32768  a0 == a % 32768  b1 == b \div 32768  b0 == b % 32768
      hh == (a1 * b1) % q
      mid == AddMod((a1 * b0) % q, (a0 * b1) % q, q)
      ll == (a0 * b0) % q
  IN AddMod(AddMod(DblMod(hh, 30, q), DblMod(mid, 15, q), q), ll, q)
RECURSIVE PowModQ(_, _, _)
PowModQ(a, e, q) == IF e = 0 THEN 1 ELSE
                    LET h == PowModQ(a, e \div 2, q)  h2 == MulModQ(h, h, q) IN IF e % 2 = 1 THEN MulModQ(h2, a, q) ELSE h2
Pow2ModQ(t, q) == DblMod(1, t, q)

\* facts the code relies on, evaluated once
ConstantsOk ==
  \A k \in 1 .. 4 :
    /\ PowModQ(Omegas[k], 65536, Qs[k]) = Qs[k] - 1                                 \* OMEGA_k is a primitive 2^17-th root of unity
    /\ LET others == {j \in 1 .. 4 : j # k}
           prod == FoldLeft(LAMBDA acc, j : IF j = k THEN acc ELSE MulModQ(acc, Qs[j] % Qs[k], Qs[k]), 1, <<1, 2, 3, 4>>)
       IN MulModQ(CrtCst[k], prod, Qs[k]) = 1                                        \* CRT constants
ASSUME ConstantsOk

\* the root used for dimension n (power of two <= 65536) and the evaluation order of the forward transform
OmegaN(k, n) == PowModQ(Omegas[k], 65536 \div n, Qs[k])
EvalExp(n, j) == 1 + 2 * BitRev(Log2(n), j)                 \* output j = evaluation at omega^(1 + 2 bitrev(j))

\* wide constants
QW(k) == MFromNat(Qs[k])
QProd == MMul(MMul(QW(1), QW(2)), MMul(QW(3), QW(4)))         \* Q = q1 q2 q3 q4, about 2^120
HalfQ == MShr(MSub(QProd, <<1>>), 1)                            \* (Q-1)/2

-----------------------------------------------------------------------------
\* C04: exact envelope of the lazy arithmetic.  A bound is a magnitude (Wide natural): the largest value a lane of
\* prime k can hold.  All steps are monotone, so the image of the maxima bounds every reachable value.
M64 == MSub(MPow2(64), <<1>>)
M32 == MSub(MPow2(32), <<1>>)
Fits64(m) == MCmp(m, MPow2(64)) < 0
Fits32(m) == MCmp(m, MPow2(32)) < 0
MMax(a, b) == IF MCmp(a, b) >= 0 THEN a ELSE b
MMin2(a, b) == IF MCmp(a, b) <= 0 THEN a ELSE b

\* split_precompmul(x, omega | omega*2^h, h): (x mod 2^h)*omega + (x >> h)*omega'   with omega, omega' < q
\* result [ok, max]: ok = both 32x32 multiplier operands fit 32 bits and the sum fits 64 bits
SplitMul(m, h, q) ==
  LET lo == MMin2(m, MSub(MPow2(h), <<1>>))
      hi == MShr(m, h)
      mx == MAdd(MMul(lo, MSub(q, <<1>>)), MMul(hi, MSub(q, <<1>>)))
  IN [ok |-> h <= 32 /\ Fits32(hi) /\ Fits64(mx), max |-> mx]
\* modq_red(x, h, 2^h mod q): (x mod 2^h) + (x >> h) * cst
ModRed(m, h, cst) ==
  LET lo == MMin2(m, MSub(MPow2(h), <<1>>))
      hi == MShr(m, h)
      mx == MAdd(lo, MMul(hi, cst))
  IN [ok |-> Fits32(hi) /\ Fits32(cst) /\ Fits64(mx), max |-> mx]
=============================================================================
