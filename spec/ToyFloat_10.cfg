CONSTANT P = 10
