
