SPECIFICATION Spec
CONSTANTS
  Ks = {1, 2, 3}
  ASizes = {0, 1, 2, 3}
  RSizes = {0, 1, 2, 3, 4}
  Spread = 1
  GenMode = FALSE
INVARIANTS AlgoEqDef AllWritten DigitsInRange SourceKept NoOob
