SPECIFICATION Spec
CONSTANTS
  NNs = {8}
  MaxDim = 4
  MaxSize = 5
  GenMode = TRUE
INVARIANTS AlgoEqDef NoOob Dump
