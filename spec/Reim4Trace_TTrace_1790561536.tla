---- MODULE Reim4Trace_TTrace_1790561536 ----
EXTENDS Reim4Trace, Sequences, TLCExt, Toolbox, Naturals, TLC

_expression ==
    LET Reim4Trace_TEExpression == INSTANCE Reim4Trace_TEExpression
    IN Reim4Trace_TEExpression!expression
----

_trace ==
    LET Reim4Trace_TETrace == INSTANCE Reim4Trace_TETrace
    IN Reim4Trace_TETrace!trace
----

_inv ==
    ~(
        TLCGet("level") = Len(_TETrace)
        /\
        bad = ({6, 22, 38})
        /\
        l = (54)
    )
----

_init ==
    /\ bad = _TETrace[1].bad
    /\ l = _TETrace[1].l
----

_next ==
    /\ \E i,j \in DOMAIN _TETrace:
        /\ \/ /\ j = i + 1
              /\ i = TLCGet("level")
        /\ bad  = _TETrace[i].bad
        /\ bad' = _TETrace[j].bad
        /\ l  = _TETrace[i].l
        /\ l' = _TETrace[j].l

\* Uncomment the ASSUME below to write the states of the error trace
\* to the given file in Json format. Note that you can pass any tuple
\* to `JsonSerialize`. For example, a sub-sequence of _TETrace.
    \* ASSUME
    \*     LET J == INSTANCE Json
    \*         IN J!JsonSerialize("Reim4Trace_TTrace_1790561536.json", _TETrace)

=============================================================================

 Note that you can extract this module `Reim4Trace_TEExpression`
  to a dedicated file to reuse `expression` (the module in the 
  dedicated `Reim4Trace_TEExpression.tla` file takes precedence 
  over the module `Reim4Trace_TEExpression` below).

---- MODULE Reim4Trace_TEExpression ----
EXTENDS Reim4Trace, Sequences, TLCExt, Toolbox, Naturals, TLC

expression == 
    [
        \* To hide variables of the `Reim4Trace` spec from the error trace,
        \* remove the variables below.  The trace will be written in the order
        \* of the fields of this record.
        bad |-> bad
        ,l |-> l
        
        \* Put additional constant-, state-, and action-level expressions here:
        \* ,_stateNumber |-> _TEPosition
        \* ,_badUnchanged |-> bad = bad'
        
        \* Format the `bad` variable as Json value.
        \* ,_badJson |->
        \*     LET J == INSTANCE Json
        \*     IN J!ToJson(bad)
        
        \* Lastly, you may build expressions over arbitrary sets of states by
        \* leveraging the _TETrace operator.  For example, this is how to
        \* count the number of times a spec variable changed up to the current
        \* state in the trace.
        \* ,_badModCount |->
        \*     LET F[s \in DOMAIN _TETrace] ==
        \*         IF s = 1 THEN 0
        \*         ELSE IF _TETrace[s].bad # _TETrace[s-1].bad
        \*             THEN 1 + F[s-1] ELSE F[s-1]
        \*     IN F[_TEPosition - 1]
    ]

=============================================================================



Parsing and semantic processing can take forever if the trace below is long.
 In this case, it is advised to uncomment the module below to deserialize the
 trace from a generated binary file.

\*
\*---- MODULE Reim4Trace_TETrace ----
\*EXTENDS Reim4Trace, IOUtils, TLC
\*
\*trace == IODeserialize("Reim4Trace_TTrace_1790561536.bin", TRUE)
\*
\*=============================================================================
\*

---- MODULE Reim4Trace_TETrace ----
EXTENDS Reim4Trace, TLC

trace == 
    <<
    ([bad |-> {},l |-> 1]),
    ([bad |-> {},l |-> 2]),
    ([bad |-> {},l |-> 3]),
    ([bad |-> {},l |-> 4]),
    ([bad |-> {},l |-> 5]),
    ([bad |-> {},l |-> 6]),
    ([bad |-> {6},l |-> 7]),
    ([bad |-> {6},l |-> 8]),
    ([bad |-> {6},l |-> 9]),
    ([bad |-> {6},l |-> 10]),
    ([bad |-> {6},l |-> 11]),
    ([bad |-> {6},l |-> 12]),
    ([bad |-> {6},l |-> 13]),
    ([bad |-> {6},l |-> 14]),
    ([bad |-> {6},l |-> 15]),
    ([bad |-> {6},l |-> 16]),
    ([bad |-> {6},l |-> 17]),
    ([bad |-> {6},l |-> 18]),
    ([bad |-> {6},l |-> 19]),
    ([bad |-> {6},l |-> 20]),
    ([bad |-> {6},l |-> 21]),
    ([bad |-> {6},l |-> 22]),
    ([bad |-> {6, 22},l |-> 23]),
    ([bad |-> {6, 22},l |-> 24]),
    ([bad |-> {6, 22},l |-> 25]),
    ([bad |-> {6, 22},l |-> 26]),
    ([bad |-> {6, 22},l |-> 27]),
    ([bad |-> {6, 22},l |-> 28]),
    ([bad |-> {6, 22},l |-> 29]),
    ([bad |-> {6, 22},l |-> 30]),
    ([bad |-> {6, 22},l |-> 31]),
    ([bad |-> {6, 22},l |-> 32]),
    ([bad |-> {6, 22},l |-> 33]),
    ([bad |-> {6, 22},l |-> 34]),
    ([bad |-> {6, 22},l |-> 35]),
    ([bad |-> {6, 22},l |-> 36]),
    ([bad |-> {6, 22},l |-> 37]),
    ([bad |-> {6, 22},l |-> 38]),
    ([bad |-> {6, 22, 38},l |-> 39]),
    ([bad |-> {6, 22, 38},l |-> 40]),
    ([bad |-> {6, 22, 38},l |-> 41]),
    ([bad |-> {6, 22, 38},l |-> 42]),
    ([bad |-> {6, 22, 38},l |-> 43]),
    ([bad |-> {6, 22, 38},l |-> 44]),
    ([bad |-> {6, 22, 38},l |-> 45]),
    ([bad |-> {6, 22, 38},l |-> 46]),
    ([bad |-> {6, 22, 38},l |-> 47]),
    ([bad |-> {6, 22, 38},l |-> 48]),
    ([bad |-> {6, 22, 38},l |-> 49]),
    ([bad |-> {6, 22, 38},l |-> 50]),
    ([bad |-> {6, 22, 38},l |-> 51]),
    ([bad |-> {6, 22, 38},l |-> 52]),
    ([bad |-> {6, 22, 38},l |-> 53]),
    ([bad |-> {6, 22, 38},l |-> 54])
    >>
----


=============================================================================

---- CONFIG Reim4Trace_TTrace_1790561536 ----

INVARIANT
    _inv

CHECK_DEADLOCK
    \* CHECK_DEADLOCK off because of PROPERTY or INVARIANT above.
    FALSE

INIT
    _init

NEXT
    _next

CONSTANT
    _TETrace <- _trace

ALIAS
    _expression
=============================================================================
\* Generated on Mon Sep 28 02:12:17 UTC 2026