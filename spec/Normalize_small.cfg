SPECIFICATION FairSpec
CONSTANTS
  Ks = {1, 2}
  ASizes = {0, 1, 2, 3}
  RSizes = {0, 1, 2, 3, 4}
  Spread = 1
  GenMode = FALSE
INVARIANTS AlgoEqDef AllWritten DigitsInRange SourceKept NoOob
PROPERTY Terminates
