SPECIFICATION Spec
CONSTANTS
  NNs = {8}
  MaxDim = 6
  MaxSize = 7
  GenMode = TRUE
INVARIANTS AlgoEqDef NoOob Dump
