CONSTANT Ms <- BigMs
