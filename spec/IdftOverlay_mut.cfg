SPECIFICATION Spec
CONSTANTS
  MaxSize = 6
  Ratios = {1, 2}
  GenMode = FALSE
  ZeroFirst = TRUE
INVARIANTS ReadsFresh
CHECK_DEADLOCK FALSE
