SPECIFICATION Spec
CONSTANTS
  Threads = {1}
  Ms = {0, 1, 2, 3, 4, 5, 6}
  Divs = {0, 1, 2, 5}
  Fns = {"reim_fft_simple", "reim_ifft_simple", "reim_fftvec_mul_simple", "reim_fftvec_addmul_simple", "reim_from_znx64_simple", "reim_to_znx64_simple", "cplx_fft_simple", "cplx_ifft_simple", "cplx_fftvec_mul_simple", "cplx_fftvec_addmul_simple", "cplx_from_znx32_simple", "cplx_from_tnx32_simple", "cplx_to_tnx32_simple", "reim4_fftvec_mul_simple", "reim4_fftvec_addmul_simple", "reim4_from_cplx_simple", "reim4_to_cplx_simple"}
  MaxCalls = 60
  GenLen = 60
  WarmStart = FALSE
INVARIANTS UsedTableMatchesCall Dump
CHECK_DEADLOCK FALSE
