SPECIFICATION Spec
CONSTANTS
  N0 = 4
  ModType = "FFT64"
  MaxLen = 12
  Budget = 100000
  Ks = {2, 3, 5}
  Simulate = TRUE
  Focus = {"coef", "norm", "dft", "big", "svp", "prod", "vmp", "load"}
INVARIANTS TypeOk BudgetOk SourcesUnchanged Dump
CHECK_DEADLOCK FALSE
