SPECIFICATION Spec
CONSTANTS
  Threads = {1}
  Ms = {3, 4}
  Divs = {1, 2}
  Fns = {"reim_fft_simple", "reim_to_znx64_simple", "cplx_to_tnx32_simple", "reim4_to_cplx_simple"}
  MaxCalls = 4
  GenLen = 0
  WarmStart = FALSE
INVARIANTS UsedTableMatchesCall
CHECK_DEADLOCK FALSE
