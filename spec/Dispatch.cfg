
