--------------------------- MODULE DispatchNames ---------------------------
(* Prints the kernel inventory of Dispatch.tla so that the harness resolves *)
(* function pointers to exactly the names the specification knows.          *)
EXTENDS Dispatch, Json, SequencesExt
ASSUME PrintT(<<"NAMES", ToJson(SetToSeq(DOMAIN Kernels))>>)
=============================================================================
