SPECIFICATION Spec
INVARIANT Report
CHECK_DEADLOCK FALSE
