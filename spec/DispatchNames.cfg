
