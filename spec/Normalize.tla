----------------------------- MODULE Normalize -----------------------------
(* C05: base-2^k normalisation.  Code-shaped machine of                     *)
(* vec_znx_normalize_base2k_ref (vec_znx.c) over one coefficient column     *)
(* (coefficients are independent), with the one-limb primitive              *)
(* znx_normalize (coeffs_arithmetic.c) in its argument shapes, next to the  *)
(* definition DefNormalize of Base2k.  a[1] is the most significant limb.   *)
(* The in-place call (res = a, same stride) shares the cells of a and res.  *)
(* The big and sub-range variants are reinterpretations: RangeSlice.        *)
EXTENDS Base2k, TLC, Json

CONSTANTS Ks, ASizes, RSizes,
          Spread,     \* limb values range over -2^(k+Spread) .. 2^(k+Spread)
          GenMode     \* TRUE: print final states as JSON cases

VARIABLES k, asz, rsz, alias, a0,   \* the call and the original input
          a, res,                   \* memory: input limbs, output limbs (0 = "poison" marker kept apart)
          written,                  \* set of output limbs written so far
          cy, cinSet,               \* scratch carry limb and whether carry_in is passed (non-null)
          i, pc, oob
vars == <<k, asz, rsz, alias, a0, a, res, written, cy, cinSet, i, pc, oob>>

Vals(kk) == -(2 ^ (kk + Spread)) .. 2 ^ (kk + Spread)

\* ---- the one-limb primitive, as coded: (out, carry_out) for given x and optional carry_in
Prim(x, cin, hasCin, kk) ==
  IF hasCin THEN LET d == Digit(x, kk)  c == Carry(x, kk)  s == d + cin  y == Digit(s, kk)
                 IN <<y, c + Carry(s, kk)>>
  ELSE LET y == Digit(x, kk) IN <<y, Carry(x, kk)>>

\* single-limb contract for every shape: in + carry_in = out + carry_out * 2^k, out balanced
PrimitiveIdentity ==
  \A kk \in 1 .. 4 : \A x, cin \in -(2 ^ (kk + 3)) .. 2 ^ (kk + 3) : \A hasCin \in BOOLEAN :
     LET pr == Prim(x, cin, hasCin, kk)  c == IF hasCin THEN cin ELSE 0
     IN InRange(pr[1], kk) /\ x + c = pr[1] + pr[2] * 2 ^ kk
ASSUME PrimitiveIdentity

\* uniqueness of the balanced expansion (small scope)
Unique ==
  \A kk \in 1 .. 3 : \A n \in 0 .. 3 :
    \A d1, d2 \in [1 .. n -> -(2 ^ (kk - 1)) .. 2 ^ (kk - 1) - 1] :
       (Val(d1, kk) - Val(d2, kk)) % 2 ^ (kk * n) = 0 => d1 = d2
ASSUME Unique

Init ==
  /\ k \in Ks /\ asz \in ASizes /\ rsz \in RSizes /\ alias \in BOOLEAN
  /\ a0 \in [1 .. asz -> Vals(k)]
  /\ a = a0
  /\ res = [x \in 1 .. rsz |-> 0] /\ written = {}
  /\ cy = 0 /\ cinSet = FALSE
  /\ i = asz - 1                 \* int64_t i = a_size - 1   (C index, limb i is a[i+1])
  /\ pc = "carryonly"
  /\ oob = FALSE

Cin == IF cinSet THEN cy ELSE 0
RdA(idx) == IF idx \in 0 .. asz - 1 THEN a[idx + 1] ELSE 0
WrRes(idx, v) ==
  /\ res' = IF idx \in 0 .. rsz - 1 THEN [res EXCEPT ![idx + 1] = v] ELSE res
  /\ written' = written \cup {idx}
  /\ a' = IF alias /\ idx \in 0 .. asz - 1 THEN [a EXCEPT ![idx + 1] = v] ELSE a
  /\ oob' = (oob \/ idx \notin 0 .. rsz - 1)

\* for (; i >= (int64_t)res_size; --i) znx_normalize(nn, k, NULL, cout, a + i*a_sl, cin); cin = cout;
CarryOnly ==
  /\ pc = "carryonly"
  /\ IF i >= rsz
     THEN /\ cy' = Prim(RdA(i), Cin, cinSet, k)[2] /\ cinSet' = TRUE
          /\ oob' = (oob \/ i \notin 0 .. asz - 1)
          /\ i' = i - 1 /\ pc' = "carryonly"
     ELSE pc' = "normlimb" /\ UNCHANGED <<cy, cinSet, oob, i>>
  /\ UNCHANGED <<k, asz, rsz, alias, a0, a, res, written>>

\* for (; i >= 1; --i) znx_normalize(nn, k, res + i*res_sl, cout, a + i*a_sl, cin); cin = cout;
NormLimb ==
  /\ pc = "normlimb"
  /\ IF i >= 1
     THEN LET pr == Prim(RdA(i), Cin, cinSet, k) IN
          /\ WrRes(i, pr[1]) /\ cy' = pr[2] /\ cinSet' = TRUE
          /\ i' = i - 1 /\ pc' = "normlimb"
     ELSE pc' = "lastlimb" /\ UNCHANGED <<cy, cinSet, oob, i, res, written, a>>
  /\ UNCHANGED <<k, asz, rsz, alias, a0>>

\* if (res_size > 0 && a_size > 0) znx_normalize(nn, k, res, NULL, a, cin);
LastLimb ==
  /\ pc = "lastlimb"
  /\ IF rsz > 0 /\ asz > 0
     THEN WrRes(0, Prim(RdA(0), Cin, cinSet, k)[1])
     ELSE UNCHANGED <<res, written, a, oob>>
  /\ i' = asz /\ pc' = "zeroext"
  /\ UNCHANGED <<k, asz, rsz, alias, a0, cy, cinSet>>

\* for (uint64_t i = a_size; i < res_size; ++i) znx_zero_i64_ref(nn, res + i*res_sl);
ZeroExt ==
  /\ pc = "zeroext"
  /\ IF i < rsz THEN WrRes(i, 0) /\ i' = i + 1 /\ pc' = "zeroext"
     ELSE pc' = "done" /\ UNCHANGED <<res, written, a, oob, i>>
  /\ UNCHANGED <<k, asz, rsz, alias, a0, cy, cinSet>>

Done == pc = "done" /\ UNCHANGED vars
Next == CarryOnly \/ NormLimb \/ LastLimb \/ ZeroExt \/ Done
Spec == Init /\ [][Next]_vars
FairSpec == Spec /\ WF_vars(Next)

\* ---- properties
AlgoEqDef == pc = "done" => res = DefNormalize(a0, k, rsz)
AllWritten == pc = "done" => written = 0 .. rsz - 1          \* exactly the res_size output limbs
DigitsInRange == pc = "done" => \A x \in 1 .. rsz : InRange(res[x], k)
SourceKept == ~alias => a = a0                                \* C18: the input is not modified
NoOob == ~oob
Terminates == <>(pc = "done")

\* ---- sub-range variant: limbs begin, begin+step, ... < end of a big vector
RangeSize(b, e, st) == (e + st - 1 - b) \div st                 \* as coded (unsigned; b <= e in domain)
RangeSlice(big, b, e, st) == [j \in 1 .. RangeSize(b, e, st) |-> big[b + (j - 1) * st + 1]]
RangeDef(big, b, e, st) == LET S == {x \in b .. e - 1 : (x - b) % st = 0}
                           IN [j \in 1 .. Cardinality(S) |-> big[b + (j - 1) * st + 1]]
RangeOk ==
  \A L \in 0 .. 5 : \A b \in 0 .. L : \A e \in b .. L : \A st \in 1 .. 4 :
     LET big == [x \in 1 .. L |-> 10 + x] IN
     /\ \A j \in 1 .. RangeSize(b, e, st) : b + (j - 1) * st + 1 \in 1 .. L     \* no limb outside the vector
     /\ RangeSlice(big, b, e, st) = RangeDef(big, b, e, st)
ASSUME RangeOk

\* ---- behaviour generation
Dump == (GenMode /\ pc = "done") =>
   PrintT(<<"CASE", ToJson([k |-> k, a |-> a0, rs |-> rsz, alias |-> alias, res |-> res])>>)
=============================================================================
