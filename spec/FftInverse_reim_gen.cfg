SPECIFICATION ISpec
CONSTANTS
  Ms = {2, 4, 8, 16, 32, 64, 128, 256, 512, 1024, 2048}
  RecThreshold = 2048
  Layout = "reim"
  GenMode = TRUE
INVARIANTS IDump
CONSTRAINT IOnlyInit
CHECK_DEADLOCK FALSE
