SPECIFICATION FairSpec
CONSTANTS
  NNs = {2, 4, 8, 16}
  MaxDim = 4
  MaxSize = 5
  GenMode = FALSE
INVARIANTS AlgoEqDef NoOob ScratchWithinTmpBytes
PROPERTY Terminates
