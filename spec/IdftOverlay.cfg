SPECIFICATION Spec
CONSTANTS
  MaxSize = 6
  Ratios = {1, 2}
  GenMode = FALSE
  ZeroFirst = FALSE
INVARIANTS ReadsFresh Result
CHECK_DEADLOCK FALSE
