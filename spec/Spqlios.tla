------------------------------ MODULE Spqlios ------------------------------
(* The API machine (layer 2): the public entry points of                    *)
(* vec_znx_arithmetic.h as actions on an object store, with their           *)
(* definitional semantics in Z[X]/(X^N0+1) (NegaRing, Base2k).              *)
(*                                                                          *)
(* Objects: int64 limb vectors (znx), big-coefficient vectors (big), DFT    *)
(* vectors (dft), a prepared scalar (ppol), a prepared matrix (pmat).  DFT  *)
(* and prepared objects are opaque in the API; every producer starts from   *)
(* integer polynomials, so here they carry the integer polynomial they      *)
(* denote.  A limb is a tuple of N0 integers, or <<>> when its content is   *)
(* undefined (never written, or documented as scratch).  Actions read only  *)
(* defined limbs and keep every coefficient inside the budget (C01's        *)
(* exactness regime), so the machine is the "exact interpreter" of C16.     *)
(*                                                                          *)
(* Used three ways: -simulate for random well-typed programs (C16, C18,     *)
(* C13, C15); exhaustive single-step boxes (C01 svp shapes); as the         *)
(* reference for replay: hist carries every call with the expected content  *)
(* of the object it wrote.                                                  *)
EXTENDS NegaRing, Base2k, TLC, Json

CONSTANTS N0,        \* ring dimension of the specification (power of two)
          ModType,   \* "FFT64" | "NTT120"
          MaxLen,    \* program length at which the behaviour is printed
          Budget,    \* bound on the absolute value of every coefficient
          Ks,        \* normalisation bases 2^k offered
          Simulate,  \* TRUE: arguments are drawn at random (for -simulate); FALSE: all choices explored
          Focus      \* groups of entry points offered: subset of {"coef", "norm", "dft", "big", "svp", "prod", "vmp", "load"}

ZNames == {"Z0", "Z1", "Z2", "Z3"}       \* int64 limb vectors, capacity ZCap limbs
GNames == {"G0", "G1"}                   \* big-coefficient vectors
DNames == {"D0", "D1", "D2"}             \* DFT vectors
ZCap == 3
GCap == 3
DCap == 3
MRows == 2
MCols == 3

VARIABLES store,    \* [name -> sequence of limbs]   (P0: 1 limb; M0: MRows*MCols limbs row-major)
          kind,     \* [name -> "znx" | "big" | "dft" | "ppol" | "pmat"]  (a dft object turns big by in-place idft)
          hist,     \* the program so far, with expected post-states
          touched   \* ghost for C18: set of names whose content changed in the last action
vars == <<store, kind, hist, touched>>

Names == ZNames \cup GNames \cup DNames \cup {"P0", "M0"}
Undef == <<>>
IsDef(l) == l # Undef
T(tp) == [ti \in 1 .. N0 |-> tp[ti - 1]]               \* polynomial -> tuple
P(pt) == [pi \in 0 .. N0 - 1 |-> pt[pi + 1]]           \* tuple -> polynomial
ZeroL == [zi \in 1 .. N0 |-> 0]
\* (IF, not \/: inside an action TLC explores both sides of a disjunction as alternative steps)
InBudget(bl) == IF bl = Undef THEN TRUE ELSE \A bj \in 1 .. N0 : Abs(bl[bj]) <= Budget
Pick(S) == IF Simulate /\ S # {} THEN {RandomElement(S)} ELSE S
\* sizes: in simulation 0 is drawn less often than the other sizes
SizeDraw(cap, r) == IF r <= 1 \/ cap = 0 THEN 0 ELSE 1 + ((r - 2) % cap)      \* sizes 0 (two draws out of 3 cap + 1) .. cap
PickSize(cap) == IF Simulate THEN {SizeDraw(cap, RandomElement(0 .. 3 * cap))} ELSE 0 .. cap

Limb(lnm, li) == IF li <= Len(store[lnm]) THEN store[lnm][li] ELSE Undef
DefinedUpTo(dnm, dn) == \A di \in 1 .. dn : IsDef(Limb(dnm, di))
Cap(cnm) == Len(store[cnm])

\* ---- initial objects: small random-looking but deterministic contents
InitLimb(seedv) == [i \in 1 .. N0 |-> ((seedv * seedv * 3 + seedv + i * i * 3 + i * seedv) % 7) - 3]
InitSeed(nm, i) == i + (CASE nm = "Z0" -> 0 [] nm = "Z1" -> 3 [] OTHER -> 6)
InitDefined == {"Z0", "Z1", "Z2"}
Init ==
  /\ store = [nm \in Names |->
        CASE nm \in ZNames -> [i \in 1 .. ZCap |-> IF nm \in InitDefined THEN InitLimb(InitSeed(nm, i)) ELSE Undef]
          [] nm \in GNames -> [i \in 1 .. GCap |-> Undef]
          [] nm \in DNames -> [i \in 1 .. DCap |-> Undef]
          [] nm = "P0" -> <<Undef>>
          [] nm = "M0" -> [i \in 1 .. MRows * MCols |-> Undef]]
  /\ kind = [nm \in Names |-> CASE nm \in ZNames -> "znx" [] nm \in GNames -> "big" [] nm \in DNames -> "dft"
                                [] nm = "P0" -> "ppol" [] nm = "M0" -> "pmat"]
  /\ hist = <<>>
  /\ touched = {}

\* ---- helpers to write the first rs limbs of an object
WriteLimbs(wnm, wrs, wf(_)) ==     \* wf(i) = new content of limb i, i in 1..wrs
  [store EXCEPT ![wnm] = [wi \in 1 .. Len(store[wnm]) |-> IF wi <= wrs THEN wf(wi) ELSE store[wnm][wi]]]

Record(rec, newstore0, names) ==
  LET newstore == TLCEval(newstore0) IN     \* force the lazily built functions before they enter the state
  /\ store' = newstore
  /\ kind' = IF "inplace" \in DOMAIN rec THEN [kind EXCEPT ![rec.res] = "big"] ELSE kind
  /\ hist' = Append(hist, rec @@ [post |-> [nm \in names |-> newstore[nm]]])
  /\ touched' = {nm \in Names : newstore[nm] # store[nm]}

Src(snm, ssz, si) == IF si <= ssz THEN store[snm][si] ELSE ZeroL          \* missing limbs read as zero
AllInBudget(anm, astore) == \A ai \in 1 .. Len(astore[anm]) : InBudget(astore[anm][ai])

\* kinds of objects an operand may be
OfKind(k) == {nm \in Names : kind[nm] = k}
Fft == ModType = "FFT64"

-----------------------------------------------------------------------------
\* coefficient-space operations, generic (both module types); the big variants exist for FFT64 only
Unary(op, resK, aK) ==
  \E res \in Pick(OfKind(resK)) : \E a \in Pick(OfKind(aK)) :
  \E rs \in PickSize(Cap(res)) : \E as \in PickSize(Cap(a)) : \E p \in Pick(0 .. 2 * N0 - 1) :
    LET pp == IF op = "automorphism" THEN 2 * (p \div 2) + 1 ELSE p
        f(i) == CASE op = "copy" -> Src(a, as, i)
                  [] op = "negate" -> T(PNeg(P(Src(a, as, i))))
                  [] op = "rotate" -> T(PRotate(N0, pp, P(Src(a, as, i))))
                  [] op = "automorphism" -> T(PAutomorphism(N0, pp, P(Src(a, as, i))))
        ns == WriteLimbs(res, rs, f)
    IN /\ DefinedUpTo(a, Min2(rs, as))
       /\ Record([op |-> (IF resK = "big" THEN "vec_znx_big_" ELSE "vec_znx_") \o op, res |-> res, rs |-> rs, a |-> a,
                  as |-> as, p |-> pp], ns, {res})

\* the caller stores fresh data into an int64 limb vector (no library call): keeps long programs informative
Load ==
  \E res \in Pick(OfKind("znx")) :
    Record([op |-> "load", res |-> res],
           [store EXCEPT ![res] = [wi \in 1 .. Len(store[res]) |-> InitLimb(wi + 11 * (Len(hist) + 1))]], {res})

Zero ==
  \E res \in Pick(OfKind("znx")) : \E rs \in PickSize(Cap(res)) :
    Record([op |-> "vec_znx_zero", res |-> res, rs |-> rs], WriteLimbs(res, rs, LAMBDA i : ZeroL), {res})

Binary(op, name, resK, aK, bK) ==
  \E res \in Pick(OfKind(resK)) : \E a \in Pick(OfKind(aK)) : \E b \in Pick(OfKind(bK)) :
  \E rs \in PickSize(Cap(res)) : \E as \in PickSize(Cap(a)) : \E bs \in PickSize(Cap(b)) :
    LET f(i) == IF op = "add" THEN T(PAdd(P(Src(a, as, i)), P(Src(b, bs, i))))
                              ELSE T(PSub(P(Src(a, as, i)), P(Src(b, bs, i))))
        ns == WriteLimbs(res, rs, f)
    IN /\ DefinedUpTo(a, Min2(rs, as)) /\ DefinedUpTo(b, Min2(rs, bs))
       /\ AllInBudget(res, ns)
       /\ Record([op |-> name, res |-> res, rs |-> rs, a |-> a, as |-> as, b |-> b, bs |-> bs], ns, {res})

\* normalisation: res (znx) <- digits of a (znx, or big with an optional sub-range)
NormOf(limbs, k, rs) ==      \* limbs: sequence of tuples, most significant first -> rs tuples
  LET n == Len(limbs)
      col(c) == DefNormalize([j \in 1 .. n |-> limbs[j][c]], k, rs)
  IN [i \in 1 .. rs |-> [c \in 1 .. N0 |-> col(c)[i]]]

Normalize ==
  \E res \in Pick(OfKind("znx")) : \E a \in Pick(OfKind("znx") \cup (IF Fft THEN OfKind("big") ELSE {})) :
  \E rs \in PickSize(Cap(res)) : \E as \in PickSize(Cap(a)) : \E k \in Pick(Ks) :
    LET dg == NormOf([j \in 1 .. as |-> store[a][j]], k, rs)
        ns == WriteLimbs(res, rs, LAMBDA i : dg[i])
    IN /\ DefinedUpTo(a, as)
       /\ Record([op |-> IF kind[a] = "big" THEN "vec_znx_big_normalize_base2k" ELSE "vec_znx_normalize_base2k",
                  res |-> res, rs |-> rs, a |-> a, as |-> as, k |-> k], ns, {res})

RangeNormalize ==
  /\ Fft
  /\ \E res \in Pick(OfKind("znx")) : \E a \in Pick(OfKind("big")) : \E rs \in PickSize(Cap(res)) : \E k \in Pick(Ks) :
     \E b \in PickSize(Cap(a)) : \E st \in Pick(1 .. 2) :
     \E e \in Pick(b .. Cap(a)) :
       LET sel == {x \in b .. e - 1 : (x - b) % st = 0}
           limbs == [j \in 1 .. Cardinality(sel) |-> store[a][b + (j - 1) * st + 1]]
           dg == NormOf(limbs, k, rs)
           ns == WriteLimbs(res, rs, LAMBDA i : dg[i])
       IN /\ \A j \in 1 .. Len(limbs) : IsDef(limbs[j])
          /\ Record([op |-> "vec_znx_big_range_normalize_base2k", res |-> res, rs |-> rs, a |-> a, k |-> k,
                     begin |-> b, end |-> e, step |-> st], ns, {res})

-----------------------------------------------------------------------------
\* DFT space
Dft ==
  \E res \in Pick(OfKind("dft")) : \E a \in Pick(OfKind("znx")) : \E rs \in PickSize(Cap(res)) : \E as \in PickSize(Cap(a)) :
    /\ DefinedUpTo(a, Min2(rs, as))
    /\ Record([op |-> "vec_znx_dft", res |-> res, rs |-> rs, a |-> a, as |-> as],
              WriteLimbs(res, rs, LAMBDA i : Src(a, as, i)), {res})

Idft(tmpA) ==
  \E res \in Pick(OfKind("big")) : \E a \in Pick(OfKind("dft")) : \E rs \in PickSize(Cap(res)) : \E as \in PickSize(Cap(a)) :
    LET ns1 == WriteLimbs(res, rs, LAMBDA i : Src(a, as, i))
        \* the overwrite variant uses the source limbs it reads as scratch
        ns == IF tmpA THEN [ns1 EXCEPT ![a] = [i \in 1 .. Len(store[a]) |-> IF i <= Min2(rs, as) THEN Undef ELSE store[a][i]]]
              ELSE ns1
    IN /\ DefinedUpTo(a, Min2(rs, as))
       /\ Record([op |-> IF tmpA THEN "vec_znx_idft_tmp_a" ELSE "vec_znx_idft", res |-> res, rs |-> rs, a |-> a, as |-> as],
                 ns, {res, a})

\* inverse DFT writing over its own input: the object becomes a big vector (FFT64: limbs of the same size; NTT120: a big limb is
\* half a DFT limb, so result limb i lands on source limb i \div 2, which has been read by then; same limb count in the model)
IdftInPlace ==
  /\ \E a \in Pick(OfKind("dft")) : \E rs \in PickSize(Cap(a)) : \E as \in PickSize(Cap(a)) :
       /\ DefinedUpTo(a, Min2(rs, as))
       \* limbs past res_size keep their DFT-space bytes: as limbs of a big vector their content is unspecified
       /\ Record([op |-> "vec_znx_idft", res |-> a, rs |-> rs, a |-> a, as |-> as, inplace |-> TRUE],
                 [store EXCEPT ![a] = [wi \in 1 .. Len(store[a]) |-> IF wi <= rs THEN Src(a, as, wi) ELSE Undef]], {a})

\* a big object whose limbs are all undefined may be reused as a DFT object (same allocation size, FFT64)
SvpPrepare ==
  /\ Fft
  /\ \E a \in Pick(OfKind("znx")) : \E i \in Pick(1 .. Cap(a)) :
       /\ IsDef(store[a][i])
       /\ Record([op |-> "svp_prepare", res |-> "P0", a |-> a, limb |-> i - 1], [store EXCEPT !["P0"] = <<store[a][i]>>], {"P0"})

SvpApply ==
  /\ Fft /\ IsDef(store["P0"][1])
  /\ \E res \in Pick(OfKind("dft")) : \E a \in Pick(OfKind("znx")) : \E rs \in PickSize(Cap(res)) : \E as \in PickSize(Cap(a)) :
       LET f(i) == IF i <= as THEN T(PMul(N0, P(store["P0"][1]), P(store[a][i]))) ELSE ZeroL
           ns == WriteLimbs(res, rs, f)
       IN /\ DefinedUpTo(a, Min2(rs, as))
          /\ AllInBudget(res, ns)
          /\ Record([op |-> "svp_apply_dft", res |-> res, rs |-> rs, ppol |-> "P0", a |-> a, as |-> as], ns, {res})

SmallProduct ==
  /\ Fft
  /\ \E res \in Pick(OfKind("znx")) : \E a \in Pick(OfKind("znx")) : \E b \in Pick(OfKind("znx")) :
     \E ri \in Pick(1 .. Cap(res)) : \E ai \in Pick(1 .. Cap(a)) : \E bi \in Pick(1 .. Cap(b)) :
       LET v == T(PMul(N0, P(store[a][ai]), P(store[b][bi])))
           ns == [store EXCEPT ![res][ri] = v]
       IN /\ IsDef(store[a][ai]) /\ IsDef(store[b][bi]) /\ InBudget(v)
          /\ Record([op |-> "znx_small_single_product", res |-> res, rlimb |-> ri - 1, a |-> a, alimb |-> ai - 1,
                     b |-> b, blimb |-> bi - 1], ns, {res})

\* matrix: MRows x MCols polynomials taken row-major from consecutive limbs of up to two znx objects
VmpPrepare ==
  /\ Fft
  /\ \E a \in Pick(OfKind("znx")) : \E b \in Pick(OfKind("znx")) :
       LET src == store[a] \o store[b]           \* 2*ZCap = MRows*MCols limbs
       IN /\ a # b /\ Len(src) = MRows * MCols /\ \A i \in 1 .. Len(src) : IsDef(src[i])
          /\ Record([op |-> "vmp_prepare_contiguous", res |-> "M0", a |-> a, b |-> b, nrows |-> MRows, ncols |-> MCols],
                    [store EXCEPT !["M0"] = src], {"M0"})

MatEntry(i, j) == store["M0"][(i - 1) * MCols + j]
SumPolys(S, f(_)) == FoldFunctionOnSet(LAMBDA x, acc : T(PAdd(P(acc), P(x))), ZeroL, [i \in S |-> f(i)], S)

VmpApply(fromDft) ==
  /\ Fft /\ \A i \in 1 .. MRows * MCols : IsDef(store["M0"][i])
  /\ \E res \in Pick(OfKind("dft")) : \E a \in Pick(OfKind(IF fromDft THEN "dft" ELSE "znx")) :
     \E rs \in PickSize(Cap(res)) : \E as \in PickSize(Cap(a)) :
       LET rows == Min2(MRows, as)
           f(j) == IF j <= MCols THEN SumPolys(1 .. rows, LAMBDA i : T(PMul(N0, P(store[a][i]), P(MatEntry(i, j))))) ELSE ZeroL
           ns == WriteLimbs(res, rs, f)
       IN /\ res # a /\ DefinedUpTo(a, rows)
          /\ AllInBudget(res, ns)
          /\ Record([op |-> IF fromDft THEN "vmp_apply_dft_to_dft" ELSE "vmp_apply_dft", res |-> res, rs |-> rs, a |-> a,
                     as |-> as, pmat |-> "M0", nrows |-> MRows, ncols |-> MCols], ns, {res})

-----------------------------------------------------------------------------
F(g) == g \in Focus
BigArith ==
  \/ \E op \in {"rotate", "automorphism"} : Unary(op, "big", "big")
  \/ Binary("add", "vec_znx_big_add", "big", "big", "big")
  \/ Binary("add", "vec_znx_big_add_small", "big", "big", "znx")
  \/ Binary("add", "vec_znx_big_add_small2", "big", "znx", "znx")
  \/ Binary("sub", "vec_znx_big_sub", "big", "big", "big")
  \/ Binary("sub", "vec_znx_big_sub_small_a", "big", "znx", "big")
  \/ Binary("sub", "vec_znx_big_sub_small_b", "big", "big", "znx")
  \/ Binary("sub", "vec_znx_big_sub_small2", "big", "znx", "znx")
Next ==
  /\ Len(hist) < MaxLen
  /\ \/ (F("coef") /\ (Zero \/ (\E op \in {"copy", "negate", "rotate", "automorphism"} : Unary(op, "znx", "znx"))
                      \/ Binary("add", "vec_znx_add", "znx", "znx", "znx") \/ Binary("sub", "vec_znx_sub", "znx", "znx", "znx")))
     \/ (F("load") /\ Load)
     \/ (F("norm") /\ (Normalize \/ RangeNormalize))
     \/ (F("dft") /\ (Dft \/ Idft(FALSE) \/ Idft(TRUE) \/ IdftInPlace))
     \/ (F("big") /\ Fft /\ BigArith)
     \/ (F("svp") /\ (SvpPrepare \/ SvpApply))
     \/ (F("prod") /\ SmallProduct)
     \/ (F("vmp") /\ (VmpPrepare \/ VmpApply(TRUE) \/ VmpApply(FALSE)))

Spec == Init /\ [][Next]_vars

-----------------------------------------------------------------------------
\* invariants
TypeOk == \A nm \in Names : \A i \in 1 .. Len(store[nm]) : store[nm][i] = Undef \/ Len(store[nm][i]) = N0
BudgetOk == \A nm \in Names : \A i \in 1 .. Len(store[nm]) : InBudget(store[nm][i])
\* C18: an action modifies only the object it writes (and, for the overwrite variant of idft, its documented scratch source)
SourcesUnchanged ==
  hist # <<>> =>
    LET h == hist[Len(hist)] IN
      touched \subseteq (IF h.op = "vec_znx_idft_tmp_a" THEN {h.res, h.a} ELSE {h.res})

Dump == (Len(hist) = MaxLen) =>
   PrintT(<<"PROGRAM", ToJson([N0 |-> N0, mod |-> ModType, init |-> [nm \in InitDefined |-> [i \in 1 .. ZCap |-> InitLimb(InitSeed(nm, i))]],
                               steps |-> hist])>>)
=============================================================================
