------------------------------ MODULE Dispatch ------------------------------
(* C07: the decision tables that pick a kernel from the CPU features        *)
(* detected when a module or a table is created (module_api.c, every        *)
(* init_*_precomp / new_*_precomp), with each kernel's precondition read    *)
(* off its loop (how many elements it consumes per iteration and how the    *)
(* loop ends).  Whatever the flags and the dimension, the selected kernel   *)
(* must be applicable (Pre) and compute the function of its kind (Class).   *)
EXTENDS Integers, Sequences, FiniteSets, TLC

Features == {"avx2", "fma"}
Kinds == {"reim_fft", "reim_ifft", "reim_fftvec_mul", "reim_fftvec_addmul", "reim_from_znx64", "reim_to_znx64", "reim_to_tnx",
          "cplx_fft", "cplx_ifft", "cplx_fftvec_mul", "cplx_fftvec_addmul", "cplx_from_znx32", "cplx_from_tnx32", "cplx_to_tnx32",
          "reim4_fftvec_mul", "reim4_fftvec_addmul", "reim4_from_cplx", "reim4_to_cplx",
          "vec_znx_negate", "vec_znx_add", "vec_znx_sub", "vmp_prepare_contiguous", "vmp_apply_dft", "vmp_apply_dft_to_dft"}
Pow2s == {2 ^ k : k \in 0 .. 16}
\* dimensions a kind is defined for (m = complex dimension; for module entries m = N/2)
Domain(kind) == IF kind \in {"reim4_fftvec_mul", "reim4_fftvec_addmul", "reim4_from_cplx", "reim4_to_cplx"} THEN {m \in Pow2s : m >= 4}
                ELSE IF kind \in {"vmp_prepare_contiguous", "vmp_apply_dft", "vmp_apply_dft_to_dft"} THEN {m \in Pow2s : m <= 32768}
                ELSE Pow2s
\* extra parameter that influences the choice: log2bound for reim_to_znx64, log2overhead for cplx_to_tnx32
Params(kind) == CASE kind = "reim_to_znx64" -> {40, 50, 51, 63} [] kind = "cplx_to_tnx32" -> {0, 18, 19, 40} [] OTHER -> {0}

\* ---- selection, as coded
Select(kind, m, par, fl) ==
  LET a == "avx2" \in fl  f == "fma" \in fl IN
  CASE kind \in {"reim_fft", "reim_ifft"} -> IF f THEN kind \o "_avx2_fma" ELSE kind \o "_ref"
    [] kind \in {"reim_fftvec_mul", "reim_fftvec_addmul", "reim4_fftvec_mul", "reim4_from_cplx"} -> IF f /\ m >= 4 THEN kind \o "_fma" ELSE kind \o "_ref"
    [] kind \in {"reim4_fftvec_addmul", "reim4_to_cplx"} -> IF f /\ m >= 2 THEN kind \o "_fma" ELSE kind \o "_ref"
    [] kind = "reim_from_znx64" -> IF m >= 8 /\ a THEN "reim_from_znx64_bnd50_fma" ELSE "reim_from_znx64_ref"
    [] kind = "reim_to_znx64" -> IF a /\ m >= 8 THEN (IF par <= 50 THEN "reim_to_znx64_avx2_bnd50_fma" ELSE "reim_to_znx64_avx2_bnd63_fma")
                                 ELSE "reim_to_znx64_ref"
    [] kind = "reim_to_tnx" -> IF a /\ m >= 8 THEN "reim_to_tnx_avx" ELSE "reim_to_tnx_ref"
    [] kind \in {"cplx_fft", "cplx_ifft"} -> IF m <= 4 THEN kind \o "_ref" ELSE IF f THEN kind \o "_avx2_fma" ELSE kind \o "_ref"
    [] kind \in {"cplx_fftvec_mul", "cplx_fftvec_addmul"} -> IF m <= 4 THEN kind \o "_ref" ELSE IF f THEN kind \o "_fma" ELSE kind \o "_ref"
    [] kind \in {"cplx_from_znx32", "cplx_from_tnx32"} -> IF a /\ m >= 8 THEN kind \o "_avx2_fma" ELSE kind \o "_ref"
    [] kind = "cplx_to_tnx32" -> IF a /\ par <= 18 /\ m >= 8 THEN "cplx_to_tnx32_avx2_fma" ELSE "cplx_to_tnx32_ref"
    [] kind \in {"vec_znx_negate", "vec_znx_add", "vec_znx_sub"} -> IF a THEN kind \o "_avx" ELSE kind \o "_ref"
    [] kind \in {"vmp_prepare_contiguous", "vmp_apply_dft", "vmp_apply_dft_to_dft"} -> IF a THEN "fft64_" \o kind \o "_avx" ELSE "fft64_" \o kind \o "_ref"

\* ---- what a kernel needs: its kind, the number of complex numbers (or doubles) it consumes per loop step, a minimum
Kernels ==
  [reim_fft_ref |-> [kind |-> "reim_fft", step |-> 1, min |-> 1], reim_fft_avx2_fma |-> [kind |-> "reim_fft", step |-> 1, min |-> 1],
   reim_ifft_ref |-> [kind |-> "reim_ifft", step |-> 1, min |-> 1], reim_ifft_avx2_fma |-> [kind |-> "reim_ifft", step |-> 1, min |-> 1],
   reim_fftvec_mul_ref |-> [kind |-> "reim_fftvec_mul", step |-> 1, min |-> 1], reim_fftvec_mul_fma |-> [kind |-> "reim_fftvec_mul", step |-> 4, min |-> 4],
   reim_fftvec_addmul_ref |-> [kind |-> "reim_fftvec_addmul", step |-> 1, min |-> 1], reim_fftvec_addmul_fma |-> [kind |-> "reim_fftvec_addmul", step |-> 4, min |-> 4],
   reim_from_znx64_ref |-> [kind |-> "reim_from_znx64", step |-> 1, min |-> 1], reim_from_znx64_bnd50_fma |-> [kind |-> "reim_from_znx64", step |-> 2, min |-> 2],
   reim_to_znx64_ref |-> [kind |-> "reim_to_znx64", step |-> 1, min |-> 1],
   reim_to_znx64_avx2_bnd50_fma |-> [kind |-> "reim_to_znx64", step |-> 2, min |-> 2, maxpar |-> 50],
   reim_to_znx64_avx2_bnd63_fma |-> [kind |-> "reim_to_znx64", step |-> 2, min |-> 2],
   reim_to_tnx_ref |-> [kind |-> "reim_to_tnx", step |-> 1, min |-> 1], reim_to_tnx_avx |-> [kind |-> "reim_to_tnx", step |-> 4, min |-> 4],
   cplx_fft_ref |-> [kind |-> "cplx_fft", step |-> 1, min |-> 1], cplx_fft_avx2_fma |-> [kind |-> "cplx_fft", step |-> 8, min |-> 8],
   cplx_ifft_ref |-> [kind |-> "cplx_ifft", step |-> 1, min |-> 1], cplx_ifft_avx2_fma |-> [kind |-> "cplx_ifft", step |-> 8, min |-> 8],
   cplx_fftvec_mul_ref |-> [kind |-> "cplx_fftvec_mul", step |-> 1, min |-> 1], cplx_fftvec_mul_fma |-> [kind |-> "cplx_fftvec_mul", step |-> 8, min |-> 8],
   cplx_fftvec_addmul_ref |-> [kind |-> "cplx_fftvec_addmul", step |-> 1, min |-> 1], cplx_fftvec_addmul_fma |-> [kind |-> "cplx_fftvec_addmul", step |-> 4, min |-> 4],
   cplx_from_znx32_ref |-> [kind |-> "cplx_from_znx32", step |-> 1, min |-> 1], cplx_from_znx32_avx2_fma |-> [kind |-> "cplx_from_znx32", step |-> 8, min |-> 8],
   cplx_from_tnx32_ref |-> [kind |-> "cplx_from_tnx32", step |-> 1, min |-> 1], cplx_from_tnx32_avx2_fma |-> [kind |-> "cplx_from_tnx32", step |-> 8, min |-> 8],
   cplx_to_tnx32_ref |-> [kind |-> "cplx_to_tnx32", step |-> 1, min |-> 1],
   cplx_to_tnx32_avx2_fma |-> [kind |-> "cplx_to_tnx32", step |-> 8, min |-> 8, maxpar |-> 18],
   reim4_fftvec_mul_ref |-> [kind |-> "reim4_fftvec_mul", step |-> 4, min |-> 4], reim4_fftvec_mul_fma |-> [kind |-> "reim4_fftvec_mul", step |-> 4, min |-> 4],
   reim4_fftvec_addmul_ref |-> [kind |-> "reim4_fftvec_addmul", step |-> 4, min |-> 4], reim4_fftvec_addmul_fma |-> [kind |-> "reim4_fftvec_addmul", step |-> 4, min |-> 4],
   reim4_from_cplx_ref |-> [kind |-> "reim4_from_cplx", step |-> 4, min |-> 4], reim4_from_cplx_fma |-> [kind |-> "reim4_from_cplx", step |-> 4, min |-> 4],
   reim4_to_cplx_ref |-> [kind |-> "reim4_to_cplx", step |-> 4, min |-> 4], reim4_to_cplx_fma |-> [kind |-> "reim4_to_cplx", step |-> 4, min |-> 4],
   vec_znx_negate_ref |-> [kind |-> "vec_znx_negate", step |-> 1, min |-> 1], vec_znx_negate_avx |-> [kind |-> "vec_znx_negate", step |-> 1, min |-> 1],
   vec_znx_add_ref |-> [kind |-> "vec_znx_add", step |-> 1, min |-> 1], vec_znx_add_avx |-> [kind |-> "vec_znx_add", step |-> 1, min |-> 1],
   vec_znx_sub_ref |-> [kind |-> "vec_znx_sub", step |-> 1, min |-> 1], vec_znx_sub_avx |-> [kind |-> "vec_znx_sub", step |-> 1, min |-> 1],
   fft64_vmp_prepare_contiguous_ref |-> [kind |-> "vmp_prepare_contiguous", step |-> 1, min |-> 1],
   fft64_vmp_prepare_contiguous_avx |-> [kind |-> "vmp_prepare_contiguous", step |-> 1, min |-> 1],
   fft64_vmp_apply_dft_ref |-> [kind |-> "vmp_apply_dft", step |-> 1, min |-> 1], fft64_vmp_apply_dft_avx |-> [kind |-> "vmp_apply_dft", step |-> 1, min |-> 1],
   fft64_vmp_apply_dft_to_dft_ref |-> [kind |-> "vmp_apply_dft_to_dft", step |-> 1, min |-> 1],
   fft64_vmp_apply_dft_to_dft_avx |-> [kind |-> "vmp_apply_dft_to_dft", step |-> 1, min |-> 1]]

Known(k) == k \in DOMAIN Kernels
Class(k) == Kernels[k].kind
Pre(k, m, par) == /\ m >= Kernels[k].min /\ m % Kernels[k].step = 0
                  /\ ("maxpar" \in DOMAIN Kernels[k] => par <= Kernels[k].maxpar)

\* ---- the two properties of a legal selection, and the check that the code's rule has them for every configuration
Legal(kind, m, par, k) == Known(k) /\ Class(k) = kind /\ Pre(k, m, par)
SelectionIsLegal ==
  \A kind \in Kinds : \A m \in Domain(kind) : \A par \in Params(kind) : \A fl \in SUBSET Features :
     Legal(kind, m, par, Select(kind, m, par, fl))
ASSUME SelectionIsLegal
=============================================================================
