------------------------------ MODULE Reim4Gen ------------------------------
(* Behaviour generation for C17: the address maps of Reim4.tla printed as   *)
(* cases that are replayed on the real kernels with injective probes.       *)
EXTENDS Reim4
\* ---- cases for the replay (direction A): address maps for one dimension
AsSeq(f, n) == [x \in 1 .. n |-> f[x - 1]]
Cases(m) ==
  [m |-> m,
   extract |-> [b \in 1 .. m \div 4 |-> AsSeq(ExtractBlk(m, b - 1), 8)],
   contig |-> [b \in 1 .. m \div 4 |-> AsSeq(ExtractContig(m, 3, b - 1), 24)],
   strided |-> [b \in 1 .. m \div 4 |-> AsSeq(ExtractStrided(m, 2 * m + 6, 3, b - 1), 24)],
   save |-> [b \in 1 .. m \div 4 |-> AsSeq(SaveBlk(m, b - 1), 2 * m)],
   from_cplx |-> AsSeq(FromCplx(m), 2 * m),
   to_cplx |-> AsSeq(ToCplx(m), 2 * m)]
ASSUME \A m \in Ms : PrintT(<<"CASE", ToJson(Cases(m))>>)
=============================================================================
