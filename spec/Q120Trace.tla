----------------------------- MODULE Q120Trace -----------------------------
(* Trace validation for C03 / C04 / C10: everything recorded from the real  *)
(* q120 code is judged against Q120.tla.  Lanes are logged either as their  *)
(* residues modulo the four primes (reduced by the harness with %), or as   *)
(* 16-bit words when the full 64/128-bit value matters.                     *)
(*                                                                          *)
(* C10  QProd   kind baa|bbb|bbc|x2c1|x2c2, x, y (residue vectors), res     *)
(*      QConv   kind b_from_znx64 | c_from_znx64 | c_from_b | add_bbb |     *)
(*              add_ccc | b_to_znx128                                       *)
(*      QBlk    block extract/save index maps (injective probes)            *)
(* C03  NttImpulse  n, i, v, js, out: output j = v * omega^(i*(1+2 bitrev j))*)
(*      NttConv     n, x, y, res: inverse(NTT x . NTT y) = negacyclic product*)
(*      NttTable    n, dir, entries [pos, k, w, wh]: table content and order *)
(*      NttSummary  harness-side comparisons on all lanes (mismatches = 0)  *)
(* C04  NttMeta     dir, n, level metadata of the real tables: envelope     *)
(*      ProdMeta    kind, impl, h, constants: accumulator certificate       *)
(*      NttStage    stage events of the hooked drivers: legal schedule, and *)
(*                  observed lane maxima below the certificate              *)
EXTENDS Q120, TLC, Json, IOUtils, SequencesExt

Tr == ndJsonDeserialize(IOEnv.TRACE)
VARIABLES l, bad, env, lev
\* env: certificate of the current NTT run [dir, n, g, max: level -> <<4 maxima>>];  lev: chunk -> last level done
Has(ev, f) == f \in DOMAIN ev
K == 1 .. 4

-----------------------------------------------------------------------------
\* C10
Dot(xs, ys, k) == FoldLeft(LAMBDA acc, i : AddMod(acc, MulModQ(xs[i][k], ys[i][k], Qs[k]), Qs[k]), 0, [i \in 1 .. Len(xs) |-> i])
Col(v, c, stride) == [i \in 1 .. Len(v) \div stride |-> v[(i - 1) * stride + c]]
ProdOk(ev) ==
  CASE ev.kind \in {"baa", "bbb", "bbc"} -> \A k \in K : ev.res[1][k] = Dot(ev.x, ev.y, k)
    [] ev.kind = "x2c1" -> \A c \in 1 .. 2 : \A k \in K : ev.res[c][k] = Dot(Col(ev.x, c, 2), Col(ev.y, c, 2), k)
    [] ev.kind = "x2c2" -> \A k \in K :
          /\ ev.res[1][k] = Dot(Col(ev.x, 1, 2), Col(ev.y, 1, 4), k) /\ ev.res[2][k] = Dot(Col(ev.x, 2, 2), Col(ev.y, 2, 4), k)
          /\ ev.res[3][k] = Dot(Col(ev.x, 1, 2), Col(ev.y, 3, 4), k) /\ ev.res[4][k] = Dot(Col(ev.x, 2, 2), Col(ev.y, 4, 4), k)

ResidueOf(w, k) == MToNat(WMod(w, QW(k)).mag)
P32(k) == Pow2ModQ(32, Qs[k])
ConvOk(ev) ==
  CASE ev.kind = "b_from_znx64" -> \A k \in K : ev.res[k] = ResidueOf(WFromIWords(ev.x), k)
    [] ev.kind = "c_from_znx64" -> \A k \in K : LET r == ResidueOf(WFromIWords(ev.x), k) IN ev.res[k] = <<r, MulModQ(r, P32(k), Qs[k])>>
    [] ev.kind = "c_from_b" -> \A k \in K : ev.res[k] = <<ev.x[k], MulModQ(ev.x[k], P32(k), Qs[k])>>
    [] ev.kind = "add_bbb" -> \A k \in K : ev.res[k] = AddMod(ev.x[k], ev.y[k], Qs[k])
    [] ev.kind = "add_ccc" -> \A k \in K : ev.res[k] = <<AddMod(ev.x[k][1], ev.y[k][1], Qs[k]), AddMod(ev.x[k][2], ev.y[k][2], Qs[k])>>
    [] ev.kind = "b_to_znx128" ->
         LET r == WFromIWords(ev.res) IN
         /\ MCmp(r.mag, HalfQ) <= 0                                   \* the centered representative
         /\ \A k \in K : ResidueOf(r, k) = ev.x[k]                      \* congruent to the input modulo each prime

BlkOk(ev) ==
  CASE ev.kind = "extract" -> ev.obs = [i \in 1 .. 8 |-> 8 * ev.blk + i]
    [] ev.kind = "extract_contiguous" -> ev.obs = [t \in 1 .. 8 * ev.nrows |-> ((t - 1) \div 8) * 4 * ev.nn + 8 * ev.blk + ((t - 1) % 8) + 1]
    [] ev.kind = "save" -> ev.obs = [i \in 1 .. 4 * ev.nn |-> IF i > 8 * ev.blk /\ i <= 8 * ev.blk + 8 THEN i - 8 * ev.blk ELSE 0]

-----------------------------------------------------------------------------
\* C03
ImpulseOk(ev) ==
  \A t \in 1 .. Len(ev.js) : \A k \in K :
     ev.out[t][k] = MulModQ(ev.v[k], PowModQ(OmegaN(k, ev.n), MulMod(ev.i, EvalExp(ev.n, ev.js[t]), 2 * ev.n), Qs[k]), Qs[k])

NegaConv(x, y, n, c, k) ==        \* coefficient c (0-based) of x*y mod (X^n+1, q_k)
  FoldLeft(LAMBDA acc, i : IF i <= c THEN AddMod(acc, MulModQ(x[i + 1][k], y[c - i + 1][k], Qs[k]), Qs[k])
                                     ELSE SubMod(acc, MulModQ(x[i + 1][k], y[n + c - i + 1][k], Qs[k]), Qs[k]),
           0, [i \in 1 .. n |-> i - 1])
ConvolutionOk(ev) == \A c \in 0 .. ev.n - 1 : \A k \in K : ev.res[c + 1][k] = NegaConv(ev.x, ev.y, ev.n, c, k)

\* table entry at position pos (in 4-lane groups) of the forward (dir 0) / inverse (dir 1) table for dimension n:
\* exponent of omega it must hold, and the shift of its high half
LevelOf(pos, n, dir) ==    \* <<level index (0-based in level_metadata), exponent>>
  IF dir = 0 THEN
    IF pos < n THEN <<0, pos>>
    ELSE LET RECURSIVE Find(_, _, _)
             Find(p, nn, lv) == IF p < nn \div 2 - 1 THEN <<lv, (p + 1) * (n \div (nn \div 2))>> ELSE Find(p - (nn \div 2 - 1), nn \div 2, lv + 1)
         IN Find(pos - n, n, 1)
  ELSE LET RECURSIVE FindI(_, _, _)
           FindI(p, nn, lv) == IF nn > n THEN <<lv, p>>      \* final multiplication by omega^-i / n
                               ELSE IF p < nn \div 2 - 1 THEN <<lv, (p + 1) * (n \div (nn \div 2))>>
                               ELSE FindI(p - (nn \div 2 - 1), 2 * nn, lv + 1)
       IN FindI(pos, 4, 1)
TableOk(ev) ==
  \A t \in 1 .. Len(ev.entries) :
    LET e == ev.entries[t]  pos == e[1]  k == e[2]  q == Qs[k]
        le == LevelOf(pos, ev.n, ev.dir)
        w0 == OmegaN(k, ev.n)
        isFinalInv == ev.dir = 1 /\ le[1] = Log2(ev.n)
        base == IF ev.dir = 0 THEN PowModQ(w0, le[2], q) ELSE PowModQ(w0, (2 * ev.n - le[2]) % (2 * ev.n), q)
        w == IF isFinalInv THEN MulModQ(base, PowModQ(ev.n % q, q - 2, q), q) ELSE base
    IN e[3] = w /\ e[4] = MulModQ(w, Pow2ModQ(ev.halfbs[le[1] + 1], q), q)

-----------------------------------------------------------------------------
\* C04: envelope of the NTT / iNTT for the metadata the real tables contain
Lv(ev, i) == ev.levels[i]                       \* [half_bs, bs, reduce, q2bs (4 word arrays)]
Q2(ev, i, k) == MFromWords(Lv(ev, i).q2bs[k])
RedStep(ev, m, i, k) == IF Lv(ev, i).reduce = 1 THEN ModRed(m, ev.red_h, MFromNat(ev.red_cst[k])) ELSE [ok |-> TRUE, max |-> m]
Claim(ev, i, m) == MCmp(m, MPow2(Lv(ev, i).bs)) < 0

\* forward: returns [ok, max] per level for prime k, given the maximum entering the level
FwdLevel(ev, i, k, mIn) ==
  IF i = 1 THEN LET s == SplitMul(mIn, Lv(ev, 1).half_bs, QW(k)) IN [ok |-> s.ok /\ Claim(ev, 1, s.max), max |-> s.max]
  ELSE LET r == RedStep(ev, mIn, i, k)
           m == r.max
           q2 == Q2(ev, i, k)
           sum == MAdd(m, m)
           dif == MAdd(m, q2)
           last == i = Len(ev.levels)
           s == IF last THEN [ok |-> TRUE, max |-> dif] ELSE SplitMul(dif, Lv(ev, i).half_bs, QW(k))
           out == MMax(sum, MMax(dif, s.max))
       IN [ok |-> /\ r.ok /\ s.ok
                  /\ MMod(q2, QW(k)) = <<>>           \* the offset is a multiple of q
                  /\ MCmp(q2, m) >= 0                   \* lazy subtraction never underflows
                  /\ Fits64(sum) /\ Fits64(dif)
                  /\ Claim(ev, i, out),
           max |-> out]
\* inverse: level 1 is nn = 2 (no twiddle), levels 2..nl-1 multiply b first, the last level is the final scaling
InvLevel(ev, i, k, mIn) ==
  LET r == RedStep(ev, mIn, i, k)
      m == r.max
      nl == Len(ev.levels)
  IN IF i = nl THEN LET s == SplitMul(m, Lv(ev, i).half_bs, QW(k)) IN [ok |-> r.ok /\ s.ok /\ Claim(ev, i, s.max), max |-> s.max]
     ELSE LET q2 == Q2(ev, i, k)
              s == IF i = 1 THEN [ok |-> TRUE, max |-> m] ELSE SplitMul(m, Lv(ev, i).half_bs, QW(k))
              bo == MMax(m, s.max)                 \* position 0 of a block is not multiplied
              sum == MAdd(m, bo)
              dif == MAdd(m, q2)
          IN [ok |-> /\ r.ok /\ s.ok /\ MMod(q2, QW(k)) = <<>> /\ MCmp(q2, bo) >= 0 /\ Fits64(sum) /\ Fits64(dif)
                     /\ Claim(ev, i, MMax(sum, dif)),
              max |-> MMax(sum, dif)]
Envelope(ev, k) ==        \* sequence of [ok, max] for levels 1..nl
  FoldLeft(LAMBDA acc, i : LET mIn == IF i = 1 THEN M64 ELSE acc[i - 1].max
                            IN Append(acc, IF ev.dir = 0 THEN FwdLevel(ev, i, k, mIn) ELSE InvLevel(ev, i, k, mIn)),
           <<>>, [i \in 1 .. Len(ev.levels) |-> i])
MetaOk(ev) == \A k \in K : LET e == Envelope(ev, k) IN \A i \in 1 .. Len(e) : e[i].ok

\* products: accumulators of ell = 10000 terms on maximal operands
Ell == 10000
ProdMetaOk(ev) ==
  LET h == ev.h  avx == ev.impl = "avx2"  EL == MFromNat(Ell)
      c(name, k) == MFromWords(ev[name][k]) IN
  CASE ev.kind = "baa" ->
         LET t == MMul(M32, M32)
             acc1 == MMul(EL, MSub(MPow2(h), <<1>>))
             acc2 == MMul(EL, MShr(t, h))
         IN \A k \in K : /\ Fits64(acc1) /\ Fits64(acc2) /\ (avx => Fits32(acc2) /\ Fits32(c("hpow", k)))
                         /\ Fits64(MAdd(acc1, MMul(acc2, c("hpow", k))))
                         /\ c("hpow", k) = MFromNat(Pow2ModQ(h, Qs[k]))
    [] ev.kind = "bbb" ->
         LET p == MMul(M32, M32)                       \* a 32x32 partial product
             lo == M32  hi == MShr(p, 32)
             s1 == MMul(EL, lo)  s2 == MMul(EL, MAdd(hi, MAdd(lo, lo)))  s3 == MMul(EL, MAdd(hi, MAdd(hi, lo)))  s4 == MMul(EL, hi)
             L(s) == MSub(MPow2(h), <<1>>)  H(s) == MShr(s, h)
         IN \A k \in K :
              /\ Fits64(s2) /\ Fits64(s3)
              /\ (avx => /\ \A s \in {s1, s2, s3, s4} : Fits32(H(s))
                         /\ h <= 32 /\ \A nm \in {"s1h", "s2l", "s2h", "s3l", "s3h", "s4l", "s4h"} : Fits32(c(nm, k)))
              /\ Fits64(MAdd(L(s1), MAdd(MMul(H(s1), c("s1h", k)), MAdd(MMul(L(s2), c("s2l", k)), MAdd(MMul(H(s2), c("s2h", k)),
                       MAdd(MMul(L(s3), c("s3l", k)), MAdd(MMul(H(s3), c("s3h", k)), MAdd(MMul(L(s4), c("s4l", k)), MMul(H(s4), c("s4h", k))))))))))
              /\ c("s1h", k) = MPow2(h) /\ c("s2l", k) = MFromNat(Pow2ModQ(32, Qs[k])) /\ c("s2h", k) = MFromNat(Pow2ModQ(32 + h, Qs[k]))
              /\ c("s3l", k) = MFromNat(Pow2ModQ(64, Qs[k])) /\ c("s3h", k) = MFromNat(Pow2ModQ(64 + h, Qs[k]))
              /\ c("s4l", k) = MFromNat(Pow2ModQ(96, Qs[k])) /\ c("s4h", k) = MFromNat(Pow2ModQ(96 + h, Qs[k]))
    [] ev.kind = "bbc" ->
         LET p == MMul(M32, M32)
             s1 == MMul(EL, MAdd(M32, M32))  s2 == MMul(EL, MAdd(MShr(p, 32), MShr(p, 32)))
         IN \A k \in K :
              /\ Fits64(s1) /\ Fits64(s2)
              /\ (avx => Fits32(MShr(s2, h)) /\ h <= 32 /\ Fits32(c("s2l", k)) /\ Fits32(c("s2h", k)))
              /\ Fits64(MAdd(s1, MAdd(MMul(MSub(MPow2(h), <<1>>), c("s2l", k)), MMul(MShr(s2, h), c("s2h", k)))))
              /\ c("s2l", k) = MFromNat(Pow2ModQ(32, Qs[k])) /\ c("s2h", k) = MFromNat(Pow2ModQ(32 + h, Qs[k]))

\* stage events: legal schedule (every level of every chunk once, after its predecessor) and observed maxima <= certificate
StageOk(ev) ==
  /\ env.n = ev.n /\ env.dir = ev.dir
  /\ ev.len % env.g = 0 /\ ev.off % env.g = 0
  /\ \A cix \in (ev.off \div env.g) .. ((ev.off + ev.len) \div env.g - 1) : lev[cix + 1] = ev.level - 1
  /\ \A k \in K : MCmp(MFromWords(ev.mx[k]), env.max[ev.level + 1][k]) <= 0

-----------------------------------------------------------------------------
EventOk(ev) ==
  CASE ev.e = "QProd" -> ProdOk(ev) [] ev.e = "QConv" -> ConvOk(ev) [] ev.e = "QBlk" -> BlkOk(ev)
    [] ev.e = "NttImpulse" -> ImpulseOk(ev) [] ev.e = "NttConv" -> ConvolutionOk(ev) [] ev.e = "NttTable" -> TableOk(ev)
    [] ev.e = "NttSummary" -> ev.mismatches = 0
    [] ev.e = "NttMeta" -> MetaOk(ev) [] ev.e = "ProdMeta" -> ProdMetaOk(ev)
    [] ev.e = "NttStage" -> StageOk(ev)
    [] OTHER -> FALSE

Init == l = 1 /\ bad = {} /\ env = [n |-> 0, dir |-> 0, g |-> 1, max |-> <<>>] /\ lev = <<>>
Next ==
  /\ l <= Len(Tr)
  /\ LET ev == Tr[l] IN
     /\ bad' = IF EventOk(ev) THEN bad ELSE bad \cup {l}
     /\ env' = IF ev.e = "NttMeta" /\ Has(ev, "g")
               THEN [n |-> ev.n, dir |-> ev.dir, g |-> ev.g,
                     max |-> [i \in 1 .. Len(ev.levels) |-> [k \in K |-> Envelope(ev, k)[i].max]]]
               ELSE env
     /\ lev' = CASE ev.e = "NttMeta" /\ Has(ev, "g") -> [cix \in 1 .. ev.n \div ev.g |-> -1]
                 [] ev.e = "NttStage" -> [cix \in 1 .. Len(lev) |->
                                            IF cix - 1 >= ev.off \div env.g /\ cix - 1 < (ev.off + ev.len) \div env.g THEN ev.level ELSE lev[cix]]
                 [] OTHER -> lev
  /\ l' = l + 1
Spec == Init /\ [][Next]_<<l, bad, env, lev>>
Report == (l = Len(Tr) + 1) => PrintT(<<"RESULT", ToJson([n |-> Len(Tr), bad |-> SetToSeq(bad)])>>)
=============================================================================
