----------------------------- MODULE NegaRing -----------------------------
(* Z[X]/(X^N+1): the mathematical definitions (layer 0).                    *)
(*                                                                          *)
(* Two views are used.                                                      *)
(*  - value view: a polynomial is a function 0..N-1 -> Int;                 *)
(*  - signed-index view of a data-independent linear map: the output        *)
(*    coefficient j is a formal sum of signed input coefficients, written   *)
(*    as a canonical tuple of non-zero integers  s*(i+1)  (meaning s*in[i]),*)
(*    sorted, with opposite terms cancelled.  <<>> is zero.                 *)
EXTENDS Bits, SequencesExt, Functions

Idx(N) == 0 .. N - 1

-----------------------------------------------------------------------------
\* value view
PZero(N) == [i \in Idx(N) |-> 0]
PAdd(a, b) == [i \in DOMAIN a |-> a[i] + b[i]]
PSub(a, b) == [i \in DOMAIN a |-> a[i] - b[i]]
PNeg(a) == [i \in DOMAIN a |-> -a[i]]

\* coefficient j of a*X^p : comes from i = (j - p) mod 2N, negated when i >= N
PRotate(N, p, a) ==
  [j \in Idx(N) |-> LET i == (j - p) % (2 * N) IN IF i < N THEN a[i] ELSE -a[i - N]]

\* inverse of an odd p modulo 2N
\* (M = 2N is a power of two; for the large dimensions the inverse comes from Newton's iteration q <- q (2 - p q), which doubles
\* the number of correct low bits from the 3 of q = p; it is checked to be the inverse)
NewtonInv(p, M) ==
  LET step(q) == MulMod(q, (2 + M - MulMod(p, q, M)) % M, M)
      q5 == step(step(step(step(step(p)))))
  IN IF MulMod(p, q5, M) = 1 THEN q5 ELSE Assert(FALSE, "NewtonInv")
InvMod(p, M) == IF M <= 131072 THEN CHOOSE q \in 1 .. M - 1 : MulMod(p % M, q, M) = 1 ELSE NewtonInv(p % M, M)

\* coefficient j of a(X^p), p odd : i*p = j or j+N (mod 2N)
PAutomorphism(N, p, a) ==
  IF N = 1 THEN a ELSE
  LET M == 2 * N
      q == InvMod(p, M)
  IN [j \in Idx(N) |-> LET i == MulMod(j, q, M) IN IF i < N THEN a[i] ELSE -a[i - N]]

PMulXpMinusOne(N, p, a) == PSub(PRotate(N, p, a), a)

\* negacyclic product (small scope only: plain TLC integers)
PMul(N, a, b) ==
  [k \in Idx(N) |->
     FoldFunctionOnSet(LAMBDA x, acc : acc + x,  0,
        [i \in Idx(N) |-> IF i <= k THEN a[i] * b[k - i] ELSE -(a[i] * b[N + k - i])], Idx(N))]

-----------------------------------------------------------------------------
\* signed-index view
Sgn(x) == IF x < 0 THEN -1 ELSE 1

\* canonical form of a formal sum given as a tuple of non-zero integers
RECURSIVE Cancel(_)
Cancel(s) ==
  IF Len(s) < 2 THEN s
  ELSE IF \E k \in 2 .. Len(s) : s[k] = -s[1]
       THEN LET k == CHOOSE k \in 2 .. Len(s) : s[k] = -s[1]
            IN Cancel([t \in 1 .. Len(s) - 2 |-> IF t < k - 1 THEN s[t + 1] ELSE s[t + 2]])
       ELSE <<s[1]>> \o Cancel(Tail(s))
Canon(s) == SortSeq(Cancel(s), LAMBDA x, y : x < y)

FNeg(s) == Canon([t \in 1 .. Len(s) |-> -s[t]])
FAdd(s, t) == Canon(s \o t)
FSub(s, t) == Canon(s \o [u \in 1 .. Len(t) |-> -t[u]])
FScale(sg, s) == IF sg < 0 THEN FNeg(s) ELSE s

\* the identity input: cell i holds in[i]
FIdent(N) == [i \in Idx(N) |-> <<i + 1>>]

\* definitions of the three maps on formal sums (apply the value-view definition symbolically)
FRotateAt(N, p, j) == LET i == (j - p) % (2 * N) IN IF i < N THEN <<i + 1>> ELSE <<-(i - N + 1)>>
FRotate(N, p) == [j \in Idx(N) |-> FRotateAt(N, p, j)]

FAutomorphismAtQ(N, q, j) ==
  LET i == MulMod(j, q, 2 * N) IN IF i < N THEN <<i + 1>> ELSE <<-(i - N + 1)>>
FAutomorphism(N, p) ==
  IF N = 1 THEN FIdent(1) ELSE
  LET q == InvMod(p, 2 * N) IN [j \in Idx(N) |-> FAutomorphismAtQ(N, q, j)]

FMulXpMinusOneAt(N, p, j) == FSub(FRotateAt(N, p, j), <<j + 1>>)
FMulXpMinusOne(N, p) == [j \in Idx(N) |-> FMulXpMinusOneAt(N, p, j)]
=============================================================================
