---------------------------- MODULE SimpleCache ----------------------------
(* C12 / C15: the only shared mutable state of the library - the function-  *)
(* local caches of the *_simple convenience functions - and the call graph  *)
(* of the module-level entry points.                                        *)
(*                                                                          *)
(* A cached function f has a scope ("process": one static array shared by   *)
(* all threads; "thread": thread-local), a key (the parameters the code     *)
(* compares before reusing a table) and the parameters its result depends   *)
(* on.  A call is the code's unsynchronised sequence                        *)
(*      Read (look at the slot)  ->  [Init+Publish if empty/stale]  -> Use  *)
(* whose steps interleave freely between threads.  Module-level calls touch *)
(* the slots listed in ModTouches (the call graph); the property says none. *)
EXTENDS Integers, Sequences, FiniteSets, TLC, Json

CONSTANTS Threads, Ms, Divs,     \* threads, dimensions (log2 m), divisors / overheads offered
          Fns,                    \* names of cached functions modelled (subset of DOMAIN Catalog)
          MaxCalls,               \* calls per thread
          WarmStart,              \* TRUE: one call per (function, dimension) completed before the threads start
          GenLen                  \* > 0: keep the history of calls and print it when it has this length (behaviour generation)

\* ---- catalogue of the cached functions, transcribed from the code (DESIGN appendix G)
Par == {"m", "div", "ovh"}
Catalog == [
  reim_fft_simple            |-> [scope |-> "process", key |-> {"m"}, rel |-> {"m"}, indom |-> TRUE],
  reim_ifft_simple           |-> [scope |-> "process", key |-> {"m"}, rel |-> {"m"}, indom |-> TRUE],
  reim_fftvec_mul_simple     |-> [scope |-> "process", key |-> {"m"}, rel |-> {"m"}, indom |-> TRUE],
  reim_fftvec_addmul_simple  |-> [scope |-> "process", key |-> {"m"}, rel |-> {"m"}, indom |-> TRUE],
  reim_from_znx64_simple     |-> [scope |-> "process", key |-> {"m"}, rel |-> {"m"}, indom |-> TRUE],
  reim_to_znx64_simple       |-> [scope |-> "thread",  key |-> {"m", "div", "ovh"}, rel |-> {"m", "div", "ovh"}, indom |-> TRUE],
  cplx_fft_simple            |-> [scope |-> "process", key |-> {"m"}, rel |-> {"m"}, indom |-> TRUE],
  cplx_ifft_simple           |-> [scope |-> "process", key |-> {"m"}, rel |-> {"m"}, indom |-> TRUE],
  cplx_fftvec_mul_simple     |-> [scope |-> "process", key |-> {"m"}, rel |-> {"m"}, indom |-> TRUE],
  cplx_fftvec_addmul_simple  |-> [scope |-> "process", key |-> {"m"}, rel |-> {"m"}, indom |-> TRUE],
  cplx_from_znx32_simple     |-> [scope |-> "process", key |-> {"m"}, rel |-> {"m"}, indom |-> TRUE],
  cplx_from_tnx32_simple     |-> [scope |-> "process", key |-> {"m"}, rel |-> {"m"}, indom |-> TRUE],
  cplx_to_tnx32_simple       |-> [scope |-> "thread",  key |-> {"m", "div", "ovh"}, rel |-> {"m", "div", "ovh"}, indom |-> TRUE],
  reim4_fftvec_mul_simple    |-> [scope |-> "process", key |-> {"m"}, rel |-> {"m"}, indom |-> TRUE],
  reim4_fftvec_addmul_simple |-> [scope |-> "process", key |-> {"m"}, rel |-> {"m"}, indom |-> TRUE],
  reim4_from_cplx_simple     |-> [scope |-> "process", key |-> {"m"}, rel |-> {"m"}, indom |-> TRUE],
  reim4_to_cplx_simple       |-> [scope |-> "process", key |-> {"m"}, rel |-> {"m"}, indom |-> TRUE],
  \* kernels are NOT_IMPLEMENTED stubs that abort: no in-domain call exists
  reim_from_znx32_simple     |-> [scope |-> "process", key |-> {"m"}, rel |-> {"m"}, indom |-> FALSE],
  reim_from_tnx32_simple     |-> [scope |-> "process", key |-> {"m"}, rel |-> {"m"}, indom |-> FALSE],
  reim_to_tnx32_simple       |-> [scope |-> "process", key |-> {"m"}, rel |-> {"m", "div", "ovh"}, indom |-> FALSE]]

\* every function with an in-domain call compares everything its result depends on
KeyCoversRelevant == \A f \in DOMAIN Catalog : Catalog[f].indom => Catalog[f].rel \subseteq Catalog[f].key
ASSUME KeyCoversRelevant

\* ---- call graph of the module-level entry points: cache slots a module call reaches
ModOps == {"vec_znx_add", "vec_znx_normalize_base2k", "vec_znx_dft", "vec_znx_idft", "svp_prepare", "svp_apply_dft",
           "znx_small_single_product", "vmp_prepare_contiguous", "vmp_apply_dft", "vmp_apply_dft_to_dft", "vec_znx_big_add"}
ModTouches(op) == {}       \* after the repair of znx_small_single_product (it used reim_fftvec_mul_simple)
ModuleTouchesNoSlot == \A op \in ModOps : ModTouches(op) = {}
ASSUME ModuleTouchesNoSlot

-----------------------------------------------------------------------------
Call == [f : Fns, m : Ms, div : Divs, ovh : Divs]
Proj(c, ps) == [p \in ps |-> c[p]]
NoCall == [f |-> "none", m |-> 0, div |-> 0, ovh |-> 0]

VARIABLES slot,      \* process slots: [f, m] -> "empty" | call whose parameters built the table
          tslot,     \* thread slots:  [t, f, m] -> likewise   (reim_to_znx64 has one slot: m is part of the key, folded in)
          pc, cur, left,       \* per thread: program counter, current call, calls left
          used,      \* per thread: parameters of the table the current/last call used
          writes,    \* number of writes to process-wide slots after the start of the threads
          races,     \* ghost: a write to a process-wide slot while another thread is between Read and Use on it
          log        \* history of calls started (only when GenLen > 0)
vars == <<slot, tslot, pc, cur, left, used, writes, races, log>>

Scope(f) == Catalog[f].scope
Key(f) == Catalog[f].key
Rel(f) == Catalog[f].rel

Init ==
  /\ slot = [f \in Fns, m \in Ms |-> IF WarmStart /\ Scope(f) = "process"
                                     THEN [f |-> f, m |-> m, div |-> CHOOSE d \in Divs : TRUE, ovh |-> CHOOSE d \in Divs : TRUE]
                                     ELSE NoCall]
  /\ tslot = [t \in Threads, f \in Fns, m \in Ms |-> NoCall]
  /\ pc = [t \in Threads |-> "idle"] /\ cur = [t \in Threads |-> NoCall] /\ left = [t \in Threads |-> MaxCalls]
  /\ used = [t \in Threads |-> NoCall]
  /\ writes = 0 /\ races = 0 /\ log = <<>>

Start(t) ==
  /\ pc[t] = "idle" /\ left[t] > 0
  /\ \E c \in (IF GenLen > 0 THEN {RandomElement(Call)} ELSE Call) :
       /\ cur' = [cur EXCEPT ![t] = c]
       /\ log' = IF GenLen > 0 THEN Append(log, c) ELSE log
  /\ left' = [left EXCEPT ![t] = @ - 1]
  /\ pc' = [pc EXCEPT ![t] = "read"]
  /\ UNCHANGED <<slot, tslot, used, writes, races>>

Table(t) == IF Scope(cur[t].f) = "process" THEN slot[cur[t].f, cur[t].m] ELSE tslot[t, cur[t].f, cur[t].m]
\* the code's comparison: empty, or (for keyed slots) a parameter of the key differs
Hit(t) == LET tb == Table(t) IN tb.f # "none" /\ Proj(tb, Key(cur[t].f)) = Proj(cur[t], Key(cur[t].f))

Read(t) ==
  /\ pc[t] = "read"
  /\ pc' = [pc EXCEPT ![t] = IF Hit(t) THEN "use" ELSE "init"]
  /\ UNCHANGED <<slot, tslot, cur, left, used, writes, races, log>>

InitPublish(t) ==
  /\ pc[t] = "init"
  /\ IF Scope(cur[t].f) = "process"
     THEN /\ slot' = [slot EXCEPT ![cur[t].f, cur[t].m] = cur[t]]
          /\ writes' = writes + 1
          /\ races' = races + Cardinality({u \in Threads \ {t} : pc[u] \in {"init", "use"} /\ cur[u].f = cur[t].f /\ cur[u].m = cur[t].m})
          /\ UNCHANGED tslot
     ELSE /\ tslot' = [tslot EXCEPT ![t, cur[t].f, cur[t].m] = cur[t]]
          /\ UNCHANGED <<slot, writes, races>>
  /\ pc' = [pc EXCEPT ![t] = "use"]
  /\ UNCHANGED <<cur, left, used, log>>

Use(t) ==
  /\ pc[t] = "use"
  /\ used' = [used EXCEPT ![t] = Table(t)]
  /\ pc' = [pc EXCEPT ![t] = "idle"]
  /\ UNCHANGED <<slot, tslot, cur, left, writes, races, log>>

Next == \E t \in Threads : Start(t) \/ Read(t) \/ InitPublish(t) \/ Use(t)
Spec == Init /\ [][Next]_vars

\* ---- properties
\* C12: once one call per dimension has completed (warm start), no write to a process-wide slot, hence no race
NoWriteAfterWarmup == WarmStart => writes = 0 /\ races = 0
\* C15: the table a call used was built with the call's own values of every parameter its result depends on
UsedTableMatchesCall ==
  \A t \in Threads : pc[t] = "idle" /\ used[t].f # "none" /\ cur[t].f # "none" =>
     Proj(used[t], Rel(cur[t].f)) = Proj(cur[t], Rel(cur[t].f))
\* cold start: races are possible (documented: do one dry-run call per dimension first); recorded, not forbidden
Dump == (GenLen > 0 /\ Len(log) = GenLen /\ \A t \in Threads : pc[t] = "idle") => PrintT(<<"HISTORY", ToJson(log)>>)
ColdRacePossible == ~WarmStart => races = 0      \* expected to be VIOLATED in the cold configuration (witness)
=============================================================================
