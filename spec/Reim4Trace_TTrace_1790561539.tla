---- MODULE Reim4Trace_TTrace_1790561539 ----
EXTENDS Reim4Trace, Sequences, TLCExt, Toolbox, Naturals, TLC

_expression ==
    LET Reim4Trace_TEExpression == INSTANCE Reim4Trace_TEExpression
    IN Reim4Trace_TEExpression!expression
----

_trace ==
    LET Reim4Trace_TETrace == INSTANCE Reim4Trace_TETrace
    IN Reim4Trace_TETrace!trace
----

_inv ==
    ~(
        TLCGet("level") = Len(_TETrace)
        /\
        bad = ({})
        /\
        l = (6)
    )
----

_init ==
    /\ bad = _TETrace[1].bad
    /\ l = _TETrace[1].l
----

_next ==
    /\ \E i,j \in DOMAIN _TETrace:
        /\ \/ /\ j = i + 1
              /\ i = TLCGet("level")
        /\ bad  = _TETrace[i].bad
        /\ bad' = _TETrace[j].bad
        /\ l  = _TETrace[i].l
        /\ l' = _TETrace[j].l

\* Uncomment the ASSUME below to write the states of the error trace
\* to the given file in Json format. Note that you can pass any tuple
\* to `JsonSerialize`. For example, a sub-sequence of _TETrace.
    \* ASSUME
    \*     LET J == INSTANCE Json
    \*         IN J!JsonSerialize("Reim4Trace_TTrace_1790561539.json", _TETrace)

=============================================================================

 Note that you can extract this module `Reim4Trace_TEExpression`
  to a dedicated file to reuse `expression` (the module in the 
  dedicated `Reim4Trace_TEExpression.tla` file takes precedence 
  over the module `Reim4Trace_TEExpression` below).

---- MODULE Reim4Trace_TEExpression ----
EXTENDS Reim4Trace, Sequences, TLCExt, Toolbox, Naturals, TLC

expression == 
    [
        \* To hide variables of the `Reim4Trace` spec from the error trace,
        \* remove the variables below.  The trace will be written in the order
        \* of the fields of this record.
        bad |-> bad
        ,l |-> l
        
        \* Put additional constant-, state-, and action-level expressions here:
        \* ,_stateNumber |-> _TEPosition
        \* ,_badUnchanged |-> bad = bad'
        
        \* Format the `bad` variable as Json value.
        \* ,_badJson |->
        \*     LET J == INSTANCE Json
        \*     IN J!ToJson(bad)
        
        \* Lastly, you may build expressions over arbitrary sets of states by
        \* leveraging the _TETrace operator.  For example, this is how to
        \* count the number of times a spec variable changed up to the current
        \* state in the trace.
        \* ,_badModCount |->
        \*     LET F[s \in DOMAIN _TETrace] ==
        \*         IF s = 1 THEN 0
        \*         ELSE IF _TETrace[s].bad # _TETrace[s-1].bad
        \*             THEN 1 + F[s-1] ELSE F[s-1]
        \*     IN F[_TEPosition - 1]
    ]

=============================================================================



Parsing and semantic processing can take forever if the trace below is long.
 In this case, it is advised to uncomment the module below to deserialize the
 trace from a generated binary file.

\*
\*---- MODULE Reim4Trace_TETrace ----
\*EXTENDS Reim4Trace, IOUtils, TLC
\*
\*trace == IODeserialize("Reim4Trace_TTrace_1790561539.bin", TRUE)
\*
\*=============================================================================
\*

---- MODULE Reim4Trace_TETrace ----
EXTENDS Reim4Trace, TLC

trace == 
    <<
    ([bad |-> {},l |-> 1]),
    ([bad |-> {},l |-> 2]),
    ([bad |-> {},l |-> 3]),
    ([bad |-> {},l |-> 4]),
    ([bad |-> {},l |-> 5]),
    ([bad |-> {},l |-> 6])
    >>
----


=============================================================================

---- CONFIG Reim4Trace_TTrace_1790561539 ----

INVARIANT
    _inv

CHECK_DEADLOCK
    \* CHECK_DEADLOCK off because of PROPERTY or INVARIANT above.
    FALSE

INIT
    _init

NEXT
    _next

CONSTANT
    _TETrace <- _trace

ALIAS
    _expression
=============================================================================
\* Generated on Mon Sep 28 02:12:21 UTC 2026