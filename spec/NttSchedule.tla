---------------------------- MODULE NttSchedule ----------------------------
(* C03: the butterfly schedule of q120_ntt_bb_avx2 / q120_intt_bb_avx2 as a *)
(* symbolic machine.  Values live in Z[w]/(w^n + 1) per input coordinate:   *)
(* cell p holds, for every input i, a polynomial in the 2n-th root w with   *)
(* integer coefficients (w^n = -1, which is what the lazy "a + q*2^k - b"   *)
(* subtraction computes modulo each prime).  One step per level; the        *)
(* twiddle of position i in a block of size nn is w^(i*n/(nn/2)), as the    *)
(* table of q120_new_ntt_bb_precomp stores it.                              *)
(* Properties: the forward transform is the evaluation map at               *)
(* w^(1 + 2 bitrev(j)) (so it is linear and turns negacyclic convolution    *)
(* into pointwise products); inverse after forward is n * identity, and the *)
(* final scaling by w^-k / n makes it the identity.                         *)
EXTENDS Bits, Sequences, FiniteSets, TLC

CONSTANTS Ns

VARIABLES n, d, nn, phase    \* d[p][i] = polynomial (tuple of n ints, index e+1 = coefficient of w^e) of input i in cell p
vars == <<n, d, nn, phase>>

Zero(m) == [e \in 1 .. m |-> 0]
Mono(m, ex) ==          \* w^ex in Z[w]/(w^m+1), ex any integer
  LET r == ex % (2 * m) IN [e \in 1 .. m |-> IF r < m THEN (IF e = r + 1 THEN 1 ELSE 0) ELSE (IF e = r - m + 1 THEN -1 ELSE 0)]
MulW(m, p, ex) ==       \* p * w^ex
  LET r == ex % (2 * m) IN
  [e \in 1 .. m |-> LET src == (e - 1 - r) % (2 * m) IN IF src < m THEN p[src + 1] ELSE -p[src - m + 1]]
PAddW(p, q) == [e \in 1 .. Len(p) |-> p[e] + q[e]]
PSubW(p, q) == [e \in 1 .. Len(p) |-> p[e] - q[e]]
Cell(f(_), m) == [i \in 0 .. m - 1 |-> f(i)]
CAdd(a, b, m) == [i \in 0 .. m - 1 |-> PAddW(a[i], b[i])]
CSub(a, b, m) == [i \in 0 .. m - 1 |-> PSubW(a[i], b[i])]
CMulW(a, ex, m) == [i \in 0 .. m - 1 |-> MulW(m, a[i], ex)]

Init ==
  /\ n \in Ns
  /\ d = [p \in 0 .. n - 1 |-> [i \in 0 .. n - 1 |-> IF i = p THEN Mono(n, 0) ELSE Zero(n)]]
  /\ nn = n /\ phase = "first"

\* ntt_iter_first: cell k times w^k
First == /\ phase = "first"
         /\ d' = [p \in 0 .. n - 1 |-> CMulW(d[p], p, n)]
         /\ phase' = (IF n >= 2 THEN "fwd" ELSE "fwd_done") /\ UNCHANGED <<n, nn>>

\* one forward level of block size nn: (a, b) -> (a + b, (a - b) * w^(i * n / (nn/2)))
Fwd == /\ phase = "fwd"
       /\ LET h == nn \div 2  m == n \div h IN
          d' = [p \in 0 .. n - 1 |->
                  LET i == p % nn IN
                  IF i < h THEN CAdd(d[p], d[p + h], n)
                  ELSE CMulW(CSub(d[p - h], d[p], n), (i - h) * m, n)]
       /\ nn' = nn \div 2
       /\ phase' = (IF nn = 2 THEN "fwd_done" ELSE "fwd") /\ UNCHANGED n

\* switch to the inverse transform on the forward output
Turn == /\ phase = "fwd_done" /\ phase' = (IF n >= 2 THEN "inv" ELSE "last") /\ nn' = 2 /\ UNCHANGED <<n, d>>

\* one inverse level of block size nn: (a, b) -> (a + b*w^-(i m), a - b*w^-(i m))
Inv == /\ phase = "inv"
       /\ LET h == nn \div 2  m == n \div h IN
          d' = [p \in 0 .. n - 1 |->
                  LET i == p % nn IN
                  IF i < h THEN CAdd(d[p], CMulW(d[p + h], -(i * m), n), n)
                  ELSE CSub(d[p - h], CMulW(d[p], -((i - h) * m), n), n)]
       /\ nn' = 2 * nn
       /\ phase' = (IF nn = n THEN "last" ELSE "inv") /\ UNCHANGED n

\* final multiplication by w^-k (and by n^-1, which is tracked as the expected factor n)
Last == /\ phase = "last"
        /\ d' = [p \in 0 .. n - 1 |-> CMulW(d[p], -p, n)]
        /\ phase' = "done" /\ UNCHANGED <<n, nn>>

Next == First \/ Fwd \/ Turn \/ Inv \/ Last \/ (phase = "done" /\ UNCHANGED vars)
Spec == Init /\ [][Next]_vars

\* the forward transform evaluates at w^(1 + 2 bitrev(j)): input i contributes the monomial w^(i * e(j)) to output j
IsEvalMap == phase = "fwd_done" =>
  \A j \in 0 .. n - 1 : \A i \in 0 .. n - 1 : d[j][i] = Mono(n, i * (1 + 2 * BitRev(Log2(n), j)))
\* inverse after forward = n * identity (the table's 1/n factor then makes it the identity)
InverseIsInverse == phase = "done" =>
  \A p \in 0 .. n - 1 : \A i \in 0 .. n - 1 : d[p][i] = [e \in 1 .. n |-> IF i = p /\ e = 1 THEN n ELSE 0]
=============================================================================
