------------------------------- MODULE Bits -------------------------------
(* Small integer helpers shared by the specification: powers of two, floor  *)
(* modulus on negative numbers, bit reversal, 2-adic valuation, overflow-   *)
(* free modular product (TLC integers are 32-bit).                          *)
EXTENDS Integers, Sequences, FiniteSets

Pow2(k) == 2^k
IsPow2(n) == \E k \in 0..30 : n = 2^k
Log2(n) == CHOOSE k \in 0..30 : 2^k = n

\* mathematical (non-negative) remainder; TLC's % already floors for b > 0
Mod(a, b) == a % b

RECURSIVE BitRevAux(_, _, _)
BitRevAux(k, j, acc) == IF k = 0 THEN acc ELSE BitRevAux(k - 1, j \div 2, 2 * acc + (j % 2))
BitRev(k, j) == BitRevAux(k, j, 0)

RECURSIVE V2(_)
V2(x) == IF x % 2 = 1 THEN 0 ELSE 1 + V2(x \div 2)

\* (a*b) mod M without exceeding 2^31: for a, b < M <= 2^17 in two pieces, for larger M (up to 2^29) by doubling
RECURSIVE MulModR(_, _, _)
MulModR(a, b, M) == IF b = 0 THEN 0 ELSE LET h == MulModR(a, b \div 2, M) IN (((2 * h) % M) + ((b % 2) * a)) % M
MulMod(a, b, M) == IF M <= 131072 THEN (((a * (b \div 256)) % M) * 256 + a * (b % 256)) % M
                   ELSE MulModR(a % M, b % M, M)

Min2(a, b) == IF a < b THEN a ELSE b
Max2(a, b) == IF a < b THEN b ELSE a
Abs(x) == IF x < 0 THEN -x ELSE x
=============================================================================
