SPECIFICATION Spec
CONSTANTS
  MaxSize = 5
  Ratios = {1, 2}
  GenMode = TRUE
  ZeroFirst = FALSE
INVARIANTS Dump
CONSTRAINT OnlyInit
CHECK_DEADLOCK FALSE
