--------------------------- MODULE LifecycleTrace ---------------------------
(* Trace validation of recorded object life cycles (C15, C03): the events   *)
(* of Lifecycle.tla as the harness drives them on the real library.         *)
(*   New(id, key)          a constructor returned object id of that key     *)
(*   Use(id, arg, h1, h2)  a call on object id with argument data arg gave  *)
(*                         the result whose hash is (h1, h2)                *)
(*   Del(id)               the destructor of object id returned             *)
(* The harness only uses live objects; what the trace must show is that a   *)
(* result is a function of (key, arg): the same for every object of the key *)
(* and at every point of the history (creations and deletes in between).    *)
EXTENDS Integers, Sequences, SequencesExt, FiniteSets, TLC, Json, IOUtils

Tr == ndJsonDeserialize(IOEnv.TRACE)
VARIABLES l, bad, live, keyOf, ref

Ok(ev) ==
  CASE ev.e = "New" -> ev.id \notin DOMAIN keyOf
    [] ev.e = "Use" -> /\ ev.id \in live
                       /\ LET k == <<keyOf[ev.id], ev.arg>> IN k \in DOMAIN ref => ref[k] = <<ev.h1, ev.h2>>
    [] ev.e = "Del" -> ev.id \in live
    [] OTHER -> FALSE
Init == l = 1 /\ bad = {} /\ live = {} /\ keyOf = <<>> /\ ref = <<>>
Next ==
  /\ l <= Len(Tr) /\ l' = l + 1
  /\ LET ev == Tr[l] IN
     /\ bad' = IF Ok(ev) THEN bad ELSE bad \cup {l}
     /\ live' = CASE ev.e = "New" -> live \cup {ev.id} [] ev.e = "Del" -> live \ {ev.id} [] OTHER -> live
     /\ keyOf' = IF ev.e = "New" /\ ev.id \notin DOMAIN keyOf THEN (ev.id :> ev.key) @@ keyOf ELSE keyOf
     /\ ref' = IF ev.e = "Use" /\ ev.id \in DOMAIN keyOf /\ <<keyOf[ev.id], ev.arg>> \notin DOMAIN ref
               THEN (<<keyOf[ev.id], ev.arg>> :> <<ev.h1, ev.h2>>) @@ ref ELSE ref
Spec == Init /\ [][Next]_<<l, bad, live, keyOf, ref>>
Report == (l = Len(Tr) + 1) => PrintT(<<"RESULT", ToJson([n |-> Len(Tr), bad |-> SetToSeq(bad)])>>)
=============================================================================
