----------------------------- MODULE ConvTrace -----------------------------
(* Trace validation for C14: every recorded element of a numeric layout     *)
(* conversion is judged against the property's contract, exactly (Dyadic).  *)
(*  one event = one call: conv, m, dl (log2 of the divisor), ovh / bound,   *)
(*  x (inputs), r (outputs); doubles as 4 words of their bits, integers as  *)
(*  two's complement words.                                                 *)
(*   from_znx64   int64 -> double: exact for abs(x) < 2^50                  *)
(*   to_znx64     double, d -> int64: 2*abs(r*d - x) <= d  for abs(x/d) < 2^50 (bound <= 50) / 2^52 (bound > 50) *)
(*   from_znx32   int32 -> double: exact;  from_tnx32: exact x * 2^-32      *)
(*   to_tnx32     double, d -> int32: r = a nearest integer of x*2^32/d modulo 2^32, for abs(x/d) < 2^18 *)
(*   to_tnx       double, d, ovh -> double: abs(r - (x/d - n)) <= 2^(ovh-50) for an integer n nearest to x/d     *)
(*                (nearest up to the same tolerance: a torus value), for abs(x/d) <= 2^ovh, ovh in 0..48         *)
(* Exact .5 ties accept either neighbour.  Inputs outside the stated domain *)
(* make the event itself invalid (the harness must not generate them).      *)
EXTENDS Dyadic, TLC, Json, IOUtils, SequencesExt

Tr == ndJsonDeserialize(IOEnv.TRACE)
VARIABLES l, bad
One == WFromInt(1)

ElemOk(ev, i) ==
  LET c == ev.conv IN
  CASE c = "from_znx64" ->
         LET x == WFromIWords(ev.x[i]) IN
         /\ MCmp(x.mag, MPow2(50)) < 0 /\ IsFiniteBits(ev.r[i]) /\ DEq(DFromBits(ev.r[i]), DInt(x))
    [] c = "to_znx64" ->
         LET x == DFromBits(ev.x[i])  r == WFromIWords(ev.r[i])
             y == DScale(x, -ev.dl)                                   \* x / d
             lim == IF ev.bound <= 50 THEN 50 ELSE 52
         IN /\ DLt(DAbs(y), DPow2(lim))
            /\ DLe(DScale(DAbs(DSub(DInt(r), y)), 1), DInt(One))       \* 2*abs(r - x/d) <= 1
    [] c = "from_znx32" -> IsFiniteBits(ev.r[i]) /\ DEq(DFromBits(ev.r[i]), DInt(WFromIWords(ev.x[i])))
    [] c = "from_tnx32" -> IsFiniteBits(ev.r[i]) /\ DEq(DFromBits(ev.r[i]), DScale(DInt(WFromIWords(ev.x[i])), -32))
    [] c = "to_tnx32" ->
         LET x == DFromBits(ev.x[i])  r == WFromIWords(ev.r[i])
             y == DScale(x, 32 - ev.dl)                                \* x * 2^32 / d
         IN /\ DLt(DAbs(DScale(x, -ev.dl)), DPow2(18))
            /\ \E n \in DNearest(y) : WModPow2(WSub(n, r), 32) = WZero
    [] c = "to_tnx" ->
         LET x == DFromBits(ev.x[i])  r == DFromBits(ev.r[i])
             y == DScale(x, -ev.dl)
         IN /\ DLe(DAbs(y), DPow2(ev.ovh)) /\ IsFiniteBits(ev.r[i])
            \* the tolerance also applies to "nearest": at distance 1/2 + tol both neighbours are accepted (torus values)
            /\ \E n \in {DFloor(y), WAdd(DFloor(y), One)} :
                  /\ DLe(DAbs(DSub(DInt(n), y)), DAdd(DPow2(-1), DPow2(ev.ovh - 50)))
                  /\ DLe(DAbs(DSub(r, DSub(y, DInt(n)))), DPow2(ev.ovh - 50))

EventOk(ev) == ev.e = "Conv" /\ Len(ev.r) = Len(ev.x) /\ \A i \in 1 .. Len(ev.x) : ElemOk(ev, i)

Init == l = 1 /\ bad = {}
Next == l <= Len(Tr) /\ l' = l + 1 /\ bad' = IF EventOk(Tr[l]) THEN bad ELSE bad \cup {l}
Spec == Init /\ [][Next]_<<l, bad>>
Report == (l = Len(Tr) + 1) => PrintT(<<"RESULT", ToJson([n |-> Len(Tr), bad |-> SetToSeq(bad)])>>)
=============================================================================
