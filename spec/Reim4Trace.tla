----------------------------- MODULE Reim4Trace -----------------------------
(* Trace validation for C17 (layout half): observations of the real block   *)
(* extraction / save / complex-layout conversion kernels on injective       *)
(* probes (cell i holds i), any dimension m up to 65536, judged against the *)
(* address maps of Reim4.tla.                                               *)
(*   Map: kind extract|contig|strided|save|from_cplx|to_cplx, m, blk, nrows,*)
(*        sl, idx (observed destination positions), obs (source index seen; *)
(*        -1 = destination left untouched)                                  *)
EXTENDS Reim4, IOUtils, SequencesExt

Tr == ndJsonDeserialize(IOEnv.TRACE)
VARIABLES l, bad

Expected(ev, d) ==
  CASE ev.kind = "extract" -> ExtractBlk(ev.m, ev.blk)[d]
    [] ev.kind = "contig" -> ExtractContig(ev.m, ev.nrows, ev.blk)[d]
    [] ev.kind = "strided" -> ExtractStrided(ev.m, ev.sl, ev.nrows, ev.blk)[d]
    [] ev.kind = "save" -> SaveBlk(ev.m, ev.blk)[d]
    [] ev.kind = "from_cplx" -> FromCplx(ev.m)[d]
    [] ev.kind = "to_cplx" -> ToCplx(ev.m)[d]
EventOk(ev) == ev.e = "Map" /\ Len(ev.obs) = Len(ev.idx) /\ \A t \in 1 .. Len(ev.idx) : ev.obs[t] = Expected(ev, ev.idx[t])

Init == l = 1 /\ bad = {}
Next == l <= Len(Tr) /\ l' = l + 1 /\ bad' = IF EventOk(Tr[l]) THEN bad ELSE bad \cup {l}
Spec == Init /\ [][Next]_<<l, bad>>
Report == (l = Len(Tr) + 1) => PrintT(<<"RESULT", ToJson([n |-> Len(Tr), bad |-> SetToSeq(bad)])>>)
=============================================================================
