------------------------------- MODULE Dyadic -------------------------------
(* Exact arithmetic on the rationals that IEEE-754 binary64 values denote   *)
(* (C14).  A dyadic is [w |-> signed Wide integer, e |-> exponent]: value   *)
(* w * 2^e.  A double arrives as its 64 bits in four 16-bit words; no       *)
(* floating-point operation is ever performed in the specification.         *)
EXTENDS Wide, Integers

D(w, e) == [w |-> w, e |-> e]
DInt(w) == D(w, 0)
DZero == D(WZero, 0)
DPow2(e) == D(WFromInt(1), e)

\* decode binary64 bits (little-endian 16-bit words); finite values only
DFromBits(ws) ==
  LET sign == ws[4] \div 32768
      ex == (ws[4] % 32768) \div 16
      fracHi == ws[4] % 16
      mant == MFromWords(<<ws[1], ws[2], ws[3], fracHi>>)
      m == IF ex = 0 THEN mant ELSE MAdd(mant, MPow2(52))
      e == IF ex = 0 THEN -1074 ELSE ex - 1075
  IN D(W(sign = 1, m), e)
IsFiniteBits(ws) == (ws[4] % 32768) \div 16 # 2047

\* bring two dyadics to the same exponent
Align(a, b) == LET e == IF a.e < b.e THEN a.e ELSE b.e IN <<WShl(a.w, a.e - e), WShl(b.w, b.e - e), e>>
DAdd(a, b) == LET t == Align(a, b) IN D(WAdd(t[1], t[2]), t[3])
DSub(a, b) == LET t == Align(a, b) IN D(WSub(t[1], t[2]), t[3])
DNeg(a) == D(WNeg(a.w), a.e)
DAbs(a) == D(WAbs(a.w), a.e)
DCmp(a, b) == LET t == Align(a, b) IN WCmp(t[1], t[2])
DLe(a, b) == DCmp(a, b) <= 0
DLt(a, b) == DCmp(a, b) < 0
DEq(a, b) == DCmp(a, b) = 0
DScale(a, k) == D(a.w, a.e + k)                 \* a * 2^k
DFloor(a) == IF a.e >= 0 THEN WShl(a.w, a.e) ELSE WShr(a.w, -a.e)     \* Wide integer
\* the integers nearest to a (one, or two at an exact tie)
DNearest(a) == LET f == DFloor(a) IN {n \in {f, WAdd(f, WFromInt(1))} : DLe(DScale(DAbs(DSub(DInt(n), a)), 1), DInt(WFromInt(1)))}
=============================================================================
