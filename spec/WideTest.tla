----------------------------- MODULE WideTest -----------------------------
(* Self-test of Wide against vectors computed with Python integers.          *)
EXTENDS Wide, TLC, Json, IOUtils
T == ndJsonDeserialize(IOEnv.TRACE)
VARIABLES l, bad
A(ev) == WFromIWords(ev.a)
Bv(ev) == WFromIWords(ev.b)
Ok(ev) ==
  LET a == A(ev)  b == Bv(ev) IN
  /\ WToIWords(WAdd(a, b), 10) = ev.add
  /\ WToIWords(WSub(a, b), 10) = ev.sub
  /\ WToIWords(WMul(a, b), 20) = ev.mul
  /\ WCmp(a, b) = ev.cmp
  /\ WToIWords(WShr(a, ev.sh), 10) = ev.shr
  /\ WToIWords(WShl(a, ev.sh), 20) = ev.shl
  /\ WToIWords(WModPow2(a, ev.sh), 10) = ev.low
  /\ WToIWords(WMod(a, MFromWords(ev.d)), 10) = ev.mod
Init == l = 1 /\ bad = {}
Next == l <= Len(T) /\ l' = l + 1 /\ bad' = IF Ok(T[l]) THEN bad ELSE bad \cup {l}
Spec == Init /\ [][Next]_<<l, bad>>
Report == (l = Len(T) + 1) => PrintT(<<"RESULT", ToJson([n |-> Len(T), bad |-> SetToSeq(bad)])>>)
=============================================================================
