---------------------------- MODULE FftSchedule ----------------------------
(* C06 (order / structure half): the butterfly schedule and twiddle         *)
(* exponents of the reference split-layout FFT (reim_fft_ref.c), as a       *)
(* symbolic machine.  Twiddles are powers of w = exp(2 pi i / 4m): an angle *)
(* of s turns is the exponent 4m*s, so the tables built by the fill_*       *)
(* functions become integer exponents.  A cell holds, for each input        *)
(* coordinate i that reaches it, ONE monomial w^e(i) (the invariant that    *)
(* makes an FFT checkable symbolically): a butterfly (a, b, e) maps         *)
(*      a' = a + w^e b        b' = a - w^e b = a + w^(e+2m) b               *)
(* and the i*w form (citwiddle) is exponent e + m.                          *)
(* Schedule as coded: leaves of 16/8/4/2 points, breadth-first radix-4      *)
(* passes (with one radix-2 pass first when log2 m is odd) down to leaves   *)
(* of 16, recursive halving above RecThreshold (2048 in the code; a         *)
(* constant here so that the recursive regime is exercised at small m).     *)
(* Property: output j = evaluation at w^(1 + 4 bitrev(j)), i.e. input i     *)
(* contributes w^(i (1 + 4 bitrev j)).                                      *)
EXTENDS Bits, Sequences, SequencesExt, FiniteSets, TLC, Json

CONSTANTS Ms,            \* complex dimensions explored
          RecThreshold,  \* recursion is used above this size (2048 in the code)
          GenMode,
          Layout         \* "reim": reim_fft_ref.c (split layout); "cplx": cplx_fft_ref.c (interleaved layout, same transform, other
                         \* small-size schedule and other table layout)

VARIABLES m, E, todo, done
vars == <<m, E, todo, done>>

\* exact division (the fill_* functions halve angles: every division must be exact on the exponent lattice)
Half(x) == IF x % 2 = 0 THEN x \div 2 ELSE -1000000
\* fracrevbits(k) as an exponent for global dimension M: bit-reversed fraction of k times 4M
RECURSIVE FracRevExp(_, _)
FracRevExp(k, unit) == IF k = 0 THEN 0 ELSE IF k = 1 THEN Half(unit)
                       ELSE IF k % 2 = 0 THEN Half(FracRevExp(k \div 2, unit)) ELSE Half(FracRevExp((k - 1) \div 2, unit)) + Half(unit)

B(a, b, e) == <<a, b, e>>              \* butterfly with w^e        (ctwiddle)
\* passes are sequences of sets of butterflies; M is the global dimension (exponents live modulo 4M)
Leaf2(M, off, s) == << {B(off, off + 1, Half(s))} >>
Leaf4(M, off, s) ==
  LET pin == Half(s)  pin2 == Half(pin) IN
  << {B(off, off + 2, pin), B(off + 1, off + 3, pin)},
     {B(off, off + 1, pin2), B(off + 2, off + 3, pin2 + M)} >>
Leaf8(M, off, s) ==
  LET pin == Half(s)  pin2 == Half(pin)  pin4 == Half(pin2)  j == Half(M) IN
  << {B(off + i, off + i + 4, pin) : i \in 0 .. 3},
     {B(off, off + 2, pin2), B(off + 1, off + 3, pin2), B(off + 4, off + 6, pin2 + M), B(off + 5, off + 7, pin2 + M)},
     {B(off, off + 1, pin4), B(off + 2, off + 3, pin4 + M), B(off + 4, off + 5, pin4 + j), B(off + 6, off + 7, pin4 + j + M)} >>
Leaf16(M, off, s) ==
  LET pin == Half(s)  pin2 == Half(pin)  pin4 == Half(pin2)  pin8 == Half(pin4)  j == Half(M)  k == Half(j) IN
  << {B(off + i, off + i + 8, pin) : i \in 0 .. 7},
     {B(off + i, off + i + 4, pin2) : i \in 0 .. 3} \cup {B(off + 8 + i, off + 12 + i, pin2 + M) : i \in 0 .. 3},
     {B(off, off + 2, pin4), B(off + 1, off + 3, pin4), B(off + 4, off + 6, pin4 + M), B(off + 5, off + 7, pin4 + M),
      B(off + 8, off + 10, pin4 + j), B(off + 9, off + 11, pin4 + j), B(off + 12, off + 14, pin4 + j + M), B(off + 13, off + 15, pin4 + j + M)},
     {B(off, off + 1, pin8), B(off + 2, off + 3, pin8 + M), B(off + 4, off + 5, pin8 + j), B(off + 6, off + 7, pin8 + j + M),
      B(off + 8, off + 9, pin8 + k), B(off + 10, off + 11, pin8 + k + M), B(off + 12, off + 13, pin8 + j + k), B(off + 14, off + 15, pin8 + j + k + M)} >>

Twiddle(h, off, e) == << {B(off + i, off + h + i, e) : i \in 0 .. h - 1} >>
BiTwiddle(M, h, off, rs0) ==
  << {B(off + i, off + 2 * h + i, 2 * rs0) : i \in 0 .. h - 1} \cup {B(off + h + i, off + 3 * h + i, 2 * rs0) : i \in 0 .. h - 1},
     {B(off + i, off + h + i, rs0) : i \in 0 .. h - 1} \cup {B(off + 2 * h + i, off + 3 * h + i, rs0 + M) : i \in 0 .. h - 1} >>

Concat(seqs) == FoldLeft(LAMBDA acc, x : acc \o x, <<>>, seqs)

\* reim_fft_bfs_16_ref on the sub-array of size mm0 at `base`, entry angle `entry`
RECURSIVE BfsLevels(_, _, _, _, _)
BfsLevels(M, size, base, mm, ss) ==       \* the while (mm > 16) loop, then the leaves
  IF mm > 16
  THEN LET h == mm \div 4  s == Half(Half(ss)) IN
       Concat([t \in 1 .. size \div mm |-> BiTwiddle(M, h, base + (t - 1) * mm, s + Half(Half(FracRevExp(t - 1, 4 * M))))])
       \o BfsLevels(M, size, base, h, s)
  ELSE Concat([t \in 1 .. size \div 16 |-> Leaf16(M, base + (t - 1) * 16, ss + FracRevExp(t - 1, 4 * M))])
Bfs(M, size, base, entry) ==
  IF Log2(size) % 2 = 1
  THEN Twiddle(size \div 2, base, Half(entry)) \o BfsLevels(M, size, base, size \div 2, Half(entry))
  ELSE BfsLevels(M, size, base, size, entry)

RECURSIVE Rec(_, _, _, _)
Rec(M, size, base, entry) ==
  IF size <= RecThreshold THEN Bfs(M, size, base, entry)
  ELSE LET h == size \div 2  s == Half(entry) IN
       Twiddle(h, base, s) \o Rec(M, h, base, s) \o Rec(M, h, base + h, s + 2 * M)

\* cplx_fft_ref_bfs_2 (m <= 8 in cplx_fft_ref): radix-2 passes h = size/2 .. 1, one twiddle per block, angle halved per level
RECURSIVE Bfs2Levels(_, _, _, _, _)
Bfs2Levels(M, size, base, h, pom) ==
  IF h = 0 THEN <<>>
  ELSE Concat([t \in 1 .. size \div (2 * h) |-> Twiddle(h, base + (t - 1) * 2 * h, pom + Half(FracRevExp(t - 1, 4 * M)))])
       \o Bfs2Levels(M, size, base, h \div 2, Half(pom))
Bfs2(M, size, base, entry) == Bfs2Levels(M, size, base, size \div 2, Half(entry))
\* cplx_fft_ref: m = 1 nothing, m <= 8 bfs_2, m <= 2048 bfs_16, above recursive halving (its inner cases are the same functions)
ScheduleCplx(M) == IF M = 1 THEN <<>> ELSE IF M <= 8 THEN Bfs2(M, M, 0, M) ELSE Rec(M, M, 0, M)

\* reim_fft_ref: entry angle 1/4 turn = exponent M
ScheduleReim(M) ==
  CASE M = 1 -> <<>>
    [] M = 2 -> Leaf2(M, 0, M) [] M = 4 -> Leaf4(M, 0, M) [] M = 8 -> Leaf8(M, 0, M) [] M = 16 -> Leaf16(M, 0, M)
    [] OTHER -> Rec(M, M, 0, M)
Schedule(M) == IF Layout = "cplx" THEN ScheduleCplx(M) ELSE ScheduleReim(M)

-----------------------------------------------------------------------------
Absent == -1
Init ==
  /\ m \in Ms
  /\ E = [p \in 0 .. m - 1 |-> [i \in 0 .. m - 1 |-> IF i = p THEN 0 ELSE Absent]]
  /\ todo = Schedule(m)
  /\ done = 0

\* one pass: all its butterflies at once (they touch disjoint pairs of cells)
Merge(a, b, e) == [i \in DOMAIN a |-> IF a[i] # Absent THEN (IF b[i] # Absent THEN -2 ELSE a[i])    \* -2: two monomials for one input
                                       ELSE IF b[i] # Absent THEN (b[i] + e) % (4 * m) ELSE Absent]
ApplyPass(pass) ==
  [p \in 0 .. m - 1 |->
     IF \E bf \in pass : bf[1] = p THEN LET bf == CHOOSE x \in pass : x[1] = p IN Merge(E[bf[1]], E[bf[2]], bf[3])
     ELSE IF \E bf \in pass : bf[2] = p THEN LET bf == CHOOSE x \in pass : x[2] = p IN Merge(E[bf[1]], E[bf[2]], bf[3] + 2 * m)
     ELSE E[p]]
Step == /\ todo # <<>>
        /\ E' = ApplyPass(Head(todo))
        /\ todo' = Tail(todo) /\ done' = done + 1 /\ UNCHANGED m
Finished == todo = <<>> /\ UNCHANGED vars
Next == Step \/ Finished
Spec == Init /\ [][Next]_vars

OnlyInit == done = 0       \* (generation runs: do not execute the schedule)

\* ---- properties
\* butterflies of a pass touch pairwise disjoint cells inside the vector, with exact (integral) exponents
WellFormed == \A t \in 1 .. Len(todo) : \A x, y \in todo[t] :
                 /\ x[1] \in 0 .. m - 1 /\ x[2] \in 0 .. m - 1 /\ x[1] # x[2] /\ x[3] >= 0
                 /\ (x # y => {x[1], x[2]} \cap {y[1], y[2]} = {})
OneMonomialPerInput == \A p \in 0 .. m - 1 : \A i \in 0 .. m - 1 : E[p][i] # -2
IsEvalMap == todo = <<>> =>
  \A j \in 0 .. m - 1 : \A i \in 0 .. m - 1 : E[j][i] = (i * (1 + 4 * BitRev(Log2(m), j))) % (4 * m)
\* number of radix-2 stages every cell goes through = log2 m (each input reaches every output exactly once)
FullMixing == todo = <<>> => \A j \in 0 .. m - 1 : \A i \in 0 .. m - 1 : E[j][i] # Absent

\* ---- the twiddle table as the fill_* functions lay it out: sequence of <<"c" | "s", exponent>> (cos / sin of 2 pi e / 4M)
C(e) == <<"c", e>>
S(e) == <<"s", e>>
T2(s) == LET pin == Half(s) IN <<C(pin), S(pin)>>
T4(s) == LET pin == Half(s)  pin2 == Half(pin) IN <<C(pin), S(pin), C(pin2), S(pin2)>>
T8(M, s) == LET pin == Half(s)  pin2 == Half(pin)  pin4 == Half(pin2)  j == Half(M) IN
            <<C(pin), S(pin), C(pin2), S(pin2), C(pin4), C(pin4 + j), S(pin4), S(pin4 + j)>>
T16(M, s) == LET pin == Half(s)  pin2 == Half(pin)  pin4 == Half(pin2)  pin8 == Half(pin4)  j == Half(M)  k == Half(j) IN
             <<C(pin), S(pin), C(pin2), S(pin2), C(pin4), S(pin4), C(pin4 + j), S(pin4 + j),
               C(pin8), C(pin8 + j), C(pin8 + k), C(pin8 + j + k), S(pin8), S(pin8 + j), S(pin8 + k), S(pin8 + j + k)>>
RECURSIVE TBfsLevels(_, _, _, _)
TBfsLevels(M, size, mm, ss) ==
  IF mm > 16
  THEN LET s == Half(Half(ss)) IN
       Concat([t \in 1 .. size \div mm |-> LET rs0 == s + Half(Half(FracRevExp(t - 1, 4 * M))) IN <<C(2 * rs0), S(2 * rs0), C(rs0), S(rs0)>>])
       \o TBfsLevels(M, size, mm \div 4, s)
  ELSE Concat([t \in 1 .. size \div 16 |-> T16(M, ss + FracRevExp(t - 1, 4 * M))])
TBfs(M, size, entry) == IF Log2(size) % 2 = 1 THEN <<C(Half(entry)), S(Half(entry))>> \o TBfsLevels(M, size, size \div 2, Half(entry))
                        ELSE TBfsLevels(M, size, size, entry)
RECURSIVE TRec(_, _, _)
TRec(M, size, entry) == IF size <= RecThreshold THEN TBfs(M, size, entry)
                        ELSE LET s == Half(entry) IN <<C(s), S(s)>> \o TRec(M, size \div 2, s) \o TRec(M, size \div 2, s + 2 * M)
TableOfReim(M) == CASE M = 1 -> <<>> [] M = 2 -> T2(M) [] M = 4 -> T4(M) [] M = 8 -> T8(M, M) [] M = 16 -> T16(M, M) [] OTHER -> TRec(M, M, M)

\* cplx tables (fill_cplx_fft_omegas_*): interleaved complexes; a twiddle is stored twice, the last radix-2 level as (z, -z)
Z(e) == <<C(e), S(e)>>
RECURSIVE TC2Levels(_, _, _, _)
TC2Levels(M, size, h, pom) ==
  IF h = 0 THEN <<>>
  ELSE Concat([t \in 1 .. size \div (2 * h) |-> LET e == pom + Half(FracRevExp(t - 1, 4 * M)) IN
                                                 IF h >= 2 THEN Z(e) \o Z(e) ELSE Z(e) \o Z(e + 2 * M)])
       \o TC2Levels(M, size, h \div 2, Half(pom))
TC16(M, s) == LET pin == Half(s)  pin2 == Half(pin)  pin4 == Half(pin2)  pin8 == Half(pin4)  j == Half(M)  k == Half(j) IN
              Z(pin) \o Z(pin2) \o Z(pin4) \o Z(pin4 + j) \o Z(pin8) \o Z(pin8 + j) \o Z(pin8 + k) \o Z(pin8 + j + k)
RECURSIVE TCBfsLevels(_, _, _, _)
TCBfsLevels(M, size, mm, ss) ==
  IF mm > 16
  THEN LET s == Half(Half(ss)) IN
       Concat([t \in 1 .. size \div mm |-> LET om == s + Half(Half(FracRevExp(t - 1, 4 * M))) IN Z(2 * om) \o Z(om)])
       \o TCBfsLevels(M, size, mm \div 4, s)
  ELSE Concat([t \in 1 .. size \div 16 |-> TC16(M, ss + FracRevExp(t - 1, 4 * M))])
TCBfs(M, size, entry) == IF Log2(size) % 2 = 1 THEN Z(Half(entry)) \o Z(Half(entry)) \o TCBfsLevels(M, size, size \div 2, Half(entry))
                         ELSE TCBfsLevels(M, size, size, entry)
RECURSIVE TCRec(_, _, _)
TCRec(M, size, entry) == IF size <= RecThreshold THEN TCBfs(M, size, entry)
                         ELSE LET s == Half(entry) IN Z(s) \o Z(s) \o TCRec(M, size \div 2, s) \o TCRec(M, size \div 2, s + 2 * M)
TableOfCplx(M) == IF M = 1 THEN <<>> ELSE IF M <= 8 THEN TC2Levels(M, M, M \div 2, Half(M)) ELSE TCRec(M, M, M)
TableOf(M) == IF Layout = "cplx" THEN TableOfCplx(M) ELSE TableOfReim(M)

\* ---- behaviour generation: the table of each dimension, printed once (initial state)
Dump == (GenMode /\ done = 0) =>
   PrintT(<<"TABLE", ToJson([m |-> m, layout |-> Layout, table |-> [t \in 1 .. Len(TableOf(m)) |-> <<TableOf(m)[t][1], TableOf(m)[t][2] % (4 * m)>>]])>>)
=============================================================================
