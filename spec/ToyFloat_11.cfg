CONSTANT P = 11
