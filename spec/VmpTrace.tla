----------------------------- MODULE VmpTrace -----------------------------
(* Trace validation for C02: recorded vector-matrix products of the real    *)
(* library (integers in, integers out after the inverse DFT) re-computed    *)
(* from the definition: column j = sum_{i < min(nrows, a_size)} a_i * M[i][j]*)
(* in Z[X]/(X^N+1) for j < min(ncols, res_size); zero for the other columns.*)
EXTENDS NegaRing, TLC, Json, IOUtils

Tr == ndJsonDeserialize(IOEnv.TRACE)
VARIABLES l, bad
Poly(t, N) == [x \in Idx(N) |-> t[x + 1]]
SumP(N, S, f(_)) == FoldFunctionOnSet(LAMBDA x, acc : PAdd(acc, x), PZero(N), [i \in S |-> f(i)], S)

EventOk(ev) == ev.e = "Vmp" /\
  LET N == ev.N
      rows == IF ev.nrows < Len(ev.a) THEN ev.nrows ELSE Len(ev.a)
      M(i, j) == Poly(ev.mat[(i - 1) * ev.ncols + j], N)
      exp(j) == IF j <= ev.ncols THEN SumP(N, 1 .. rows, LAMBDA i : PMul(N, Poly(ev.a[i], N), M(i, j))) ELSE PZero(N)
  IN /\ ev.e = "Vmp"
     /\ Len(ev.res) = ev.rs
     /\ \A j \in 1 .. ev.rs : Poly(ev.res[j], N) = exp(j)

Init == l = 1 /\ bad = {}
Next == l <= Len(Tr) /\ l' = l + 1 /\ bad' = IF EventOk(Tr[l]) THEN bad ELSE bad \cup {l}
Spec == Init /\ [][Next]_<<l, bad>>
Report == (l = Len(Tr) + 1) => PrintT(<<"RESULT", ToJson([n |-> Len(Tr), bad |-> SetToSeq(bad)])>>)
=============================================================================
