---------------------------- MODULE IdftOverlay ----------------------------
(* C13: the inverse DFT writing over its own input (res is the buffer of    *)
(* a_dft), for both module types, as the code performs it                   *)
(* (vec_znx_dft.c: fft64_vec_znx_idft, ntt120_vec_znx_idft_avx).  Memory is *)
(* counted in units of one big limb: a DFT limb is Ratio units (1 for FFT64:*)
(* 8N bytes each; 2 for NTT120: 32N against 16N bytes).  The loop reads DFT *)
(* limb i (through the scratch) and writes big limb i; the tail of res is   *)
(* zeroed after the loop.  Every read must see bytes no earlier write of    *)
(* the same call has replaced: then the aliased call equals the call with a *)
(* separate output.  ZeroFirst models the reordering "zero the tail before  *)
(* the loop", which the specification must reject when Ratio = 2.           *)
EXTENDS Naturals, Sequences, TLC, Json

CONSTANTS MaxSize, Ratios, GenMode, ZeroFirst
VARIABLES ratio, as, rs, mem, i, phase, stale
vars == <<ratio, as, rs, mem, i, phase, stale>>

Min2(a, b) == IF a < b THEN a ELSE b
Max2(a, b) == IF a < b THEN b ELSE a
Smin == Min2(as, rs)
Units == 0 .. Max2(ratio * as, rs) - 1            \* the shared buffer: a_size DFT limbs and res_size big limbs from the same address
D(l, part) == <<"dft", l, part>>                 \* original content of DFT limb l, unit part
Init ==
  /\ ratio \in Ratios /\ as \in 0 .. MaxSize /\ rs \in 0 .. MaxSize
  /\ mem = [u \in 0 .. Max2(ratio * as, rs) - 1 |-> IF u < ratio * as THEN D(u \div ratio, u % ratio) ELSE <<"junk">>]
  /\ i = 0 /\ phase = (IF ZeroFirst THEN "zero" ELSE "loop") /\ stale = FALSE

\* limb i: the DFT limb is copied to the scratch (a read of its Ratio units), transformed there, written as big limb i
LoopStep ==
  /\ phase = "loop" /\ i < Smin
  /\ stale' = (stale \/ \E part \in 0 .. ratio - 1 : mem[ratio * i + part] # D(i, part))
  /\ mem' = [mem EXCEPT ![i] = <<"big", i>>]
  /\ i' = i + 1 /\ UNCHANGED <<ratio, as, rs, phase>>
LoopEnd == /\ phase = "loop" /\ i = Smin /\ phase' = (IF ZeroFirst THEN "done" ELSE "zero") /\ UNCHANGED <<ratio, as, rs, mem, i, stale>>
ZeroTail ==
  /\ phase = "zero"
  /\ mem' = [u \in DOMAIN mem |-> IF u >= Smin /\ u < rs THEN <<"zero">> ELSE mem[u]]
  /\ phase' = (IF ZeroFirst THEN "loop" ELSE "done") /\ UNCHANGED <<ratio, as, rs, i, stale>>
Next == LoopStep \/ LoopEnd \/ ZeroTail \/ (phase = "done" /\ UNCHANGED vars)
Spec == Init /\ [][Next]_vars

\* every read saw the bytes the caller passed
ReadsFresh == ~stale
\* the result a separate output would hold: transformed limbs, then zeros; (the tail of the DFT buffer past res is unspecified)
Result == phase = "done" => \A u \in 0 .. rs - 1 : mem[u] = IF u < Smin THEN <<"big", u>> ELSE <<"zero">>
Dump == (GenMode /\ i = 0 /\ phase \in {"loop", "zero"}) => PrintT(<<"CASE", ToJson([ratio |-> ratio, as |-> as, rs |-> rs])>>)
OnlyInit == i = 0 /\ phase # "done" /\ phase = (IF ZeroFirst THEN "zero" ELSE "loop")
=============================================================================
