--------------------------- MODULE ProductTrace ---------------------------
(* Trace validation for C01: negacyclic products obtained through the FFT64 *)
(* path of the real library are judged against the exact product in         *)
(* Z[X]/(X^N+1) and the documented error budget, all on Wide integers.      *)
(*                                                                          *)
(*  Prod:    N, a, b, res (coefficient vectors, int64 as 4 words): TLC      *)
(*           computes the exact product, the norms and the deviation.       *)
(*  Summary: N, maxd, A1, Ainf, A2sq, B1, Binf, B2sq (unsigned word arrays) *)
(*           measured by the reference model at sizes TLC cannot multiply;  *)
(*           TLC evaluates the domain predicate and the bound.              *)
(*                                                                          *)
(* Budget:   abs(coeff) < 2^50 and min(A1*Binf, Ainf*B1) < 2^52.            *)
(* Bound:    abs(d) <= E + 1/2, E = 8 log2(N) 2^-53 (A1*B2 + A2*B1), i.e.   *)
(*           2^53 (2 abs(d) - 1) <= 16 log2(N) (A1*ceil(sqrt(B2sq)) +       *)
(*           ceil(sqrt(A2sq))*B1)  (the ceilings only loosen the bound).    *)
(* When E < 1/2 this forces d = 0: the product must be exact.               *)
EXTENDS Wide, Bits, TLC, Json, IOUtils, FiniteSets

Tr == ndJsonDeserialize(IOEnv.TRACE)
VARIABLES l, bad

InBudget(Ainf, A1, Binf, B1) ==
  /\ MCmp(Ainf, MPow2(50)) < 0 /\ MCmp(Binf, MPow2(50)) < 0
  /\ (MCmp(MMul(A1, Binf), MPow2(52)) < 0 \/ MCmp(MMul(Ainf, B1), MPow2(52)) < 0)

\* all arguments are magnitudes
WithinE(maxd, N, A1, A2sq, B1, B2sq) ==
  IF maxd = <<>> THEN TRUE ELSE
  LET lhs == MShl(MSub(MMulS(maxd, 2), <<1>>), 53)
      rhs == MMulS(MAdd(MMul(A1, MISqrtCeil(B2sq)), MMul(MISqrtCeil(A2sq), B1)), 16 * Log2(N))
  IN MCmp(lhs, rhs) <= 0

Vec(ws) == [i \in 1 .. Len(ws) |-> WFromIWords(ws[i])]
MaxM(S) == IF S = {} THEN <<>> ELSE CHOOSE x \in S : \A y \in S : MCmp(y, x) <= 0
MSum(seq) == FoldLeft(LAMBDA acc, x : MAdd(acc, x), <<>>, seq)

\* exact negacyclic product coefficient k (0-based) of wide vectors a, b (1-based sequences)
ProdCoeff(a, b, N, k) ==
  FoldLeft(LAMBDA acc, i : IF i <= k THEN WAdd(acc, WMul(a[i + 1], b[k - i + 1]))
                                     ELSE WSub(acc, WMul(a[i + 1], b[N + k - i + 1])),
           WZero, [i \in 1 .. N |-> i - 1])

ProdOk(ev) ==
  LET N == ev.N
      a == Vec(ev.a)  b == Vec(ev.b)  r == Vec(ev.res)
      absA == [i \in 1 .. N |-> a[i].mag]  absB == [i \in 1 .. N |-> b[i].mag]
      A1 == MSum(absA)  B1 == MSum(absB)
      Ainf == MaxM({absA[i] : i \in 1 .. N})  Binf == MaxM({absB[i] : i \in 1 .. N})
      A2sq == MSum([i \in 1 .. N |-> MMul(absA[i], absA[i])])
      B2sq == MSum([i \in 1 .. N |-> MMul(absB[i], absB[i])])
      dev == {WSub(r[k + 1], ProdCoeff(a, b, N, k)).mag : k \in 0 .. N - 1}
  IN /\ InBudget(Ainf, A1, Binf, B1)             \* the harness must stay inside the documented domain
     /\ WithinE(MaxM(dev), N, A1, A2sq, B1, B2sq)

SummaryOk(ev) ==
  LET U(ws) == MFromWords(ws) IN
  /\ InBudget(U(ev.Ainf), U(ev.A1), U(ev.Binf), U(ev.B1))
  /\ WithinE(U(ev.maxd), ev.N, U(ev.A1), U(ev.A2sq), U(ev.B1), U(ev.B2sq))

EventOk(ev) == CASE ev.e = "Prod" -> ProdOk(ev) [] ev.e = "Summary" -> SummaryOk(ev) [] OTHER -> FALSE

Init == l = 1 /\ bad = {}
Next == l <= Len(Tr) /\ l' = l + 1 /\ bad' = IF EventOk(Tr[l]) THEN bad ELSE bad \cup {l}
Spec == Init /\ [][Next]_<<l, bad>>
Report == (l = Len(Tr) + 1) => PrintT(<<"RESULT", ToJson([n |-> Len(Tr), bad |-> SetToSeq(bad)])>>)
=============================================================================
