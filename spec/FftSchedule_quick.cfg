SPECIFICATION Spec
CONSTANTS
  Ms = {1, 2, 4, 8, 16, 32, 64, 128, 256}
  RecThreshold = 2048
  Layout = "reim"
  GenMode = FALSE
INVARIANTS WellFormed OneMonomialPerInput IsEvalMap FullMixing
CHECK_DEADLOCK FALSE
