-------------------------------- MODULE Vmp --------------------------------
(* C02: the vector-matrix product of vector_matrix_product{,_avx}.c at the  *)
(* index level, code-shaped, next to its definition.                        *)
(*                                                                          *)
(* The prepared matrix is an address map: double address -> identity of the *)
(* 8-double group (row, col, blk) stored there (4 real parts then 4         *)
(* imaginary parts of evaluations 4blk..4blk+3 of entry (row,col)); for     *)
(* N < 8 a group is the whole transformed entry.  Applying it accumulates,  *)
(* per output column and block, a SET of products (input row i) x (matrix   *)
(* group found at the address the code reads).  The definition demands      *)
(* exactly {(i, (i, j, blk)) : i < min(nrows, a_size)} for columns          *)
(* j < min(ncols, res_size), zero for the other columns j < res_size, and   *)
(* nothing written anywhere else.  One step per block/column-pair kernel    *)
(* call, loop bounds in C unsigned arithmetic.                              *)
(*                                                                          *)
(* The same enumeration also prints concrete integer test cases (entries    *)
(* and vectors in Z[X]/(X^2+1), expected product from NegaRing.PMul) that   *)
(* are replayed on the real library lifted to every N.                      *)
EXTENDS NegaRing, TLC, Json

CONSTANTS NNs,       \* ring dimensions explored at the index level, e.g. {2, 4, 8, 16}
          MaxDim,    \* nrows, ncols in 1..MaxDim
          MaxSize,   \* a_size, res_size in 0..MaxSize
          GenMode

VARIABLES nn, nrows, ncols, asz, rsz,     \* the call
          pmat,                             \* prepared image: address of a group -> <<row, col, blk>>
          out,                              \* [col -> [blk -> set of <<i, group>> accumulated]]  ("?" = not written)
          zeroed,                           \* columns set to zero by the final memset
          blk, col, pc, oob, scratchHW
vars == <<nn, nrows, ncols, asz, rsz, pmat, out, zeroed, blk, col, pc, oob, scratchHW>>

NBlk(n) == IF n >= 8 THEN n \div 8 ELSE 1        \* m/4 blocks of 4 evaluations; one "block" for the small layout
GroupLen(n) == IF n >= 8 THEN 8 ELSE n
RowMax == Min2(nrows, asz)
ColMax == Min2(ncols, rsz)

\* ---- fft64_vmp_prepare_contiguous: where group (row, col, blk) is stored (in doubles)
PrepAddr(n, nr, nc, row, c, b) ==
  IF n >= 8
  THEN (IF c = nc - 1 /\ nc % 2 = 1
        THEN c * nr * 8 + row * 8                                   \* lone last column
        ELSE (c \div 2) * (2 * nr) * 8 + row * 2 * 8 + (c % 2) * 8)  \* column pair
       + b * (nr * nc * 8)
  ELSE (c * nr + row) * n                                           \* N < 8: column-major whole vectors

Prepared(n, nr, nc) ==
  LET cells == {<<row, c, b>> : row \in 0 .. nr - 1, c \in 0 .. nc - 1, b \in 0 .. NBlk(n) - 1}
  IN [ad \in {PrepAddr(n, nr, nc, x[1], x[2], x[3]) : x \in cells} |->
        CHOOSE x \in cells : PrepAddr(n, nr, nc, x[1], x[2], x[3]) = ad]

\* layout facts: injective, group aligned, exactly fills bytes_of_vmp_pmat = 8 * N * nrows * ncols bytes
LayoutOk ==
  \A n \in NNs : \A nr, nc \in 1 .. MaxDim :
    LET cells == {<<row, c, b>> : row \in 0 .. nr - 1, c \in 0 .. nc - 1, b \in 0 .. NBlk(n) - 1}
        ads == {PrepAddr(n, nr, nc, x[1], x[2], x[3]) : x \in cells}
    IN /\ Cardinality(ads) = Cardinality(cells)
       /\ \A ad \in ads : ad % GroupLen(n) = 0 /\ ad + GroupLen(n) <= n * nr * nc
ASSUME LayoutOk

\* scratch: 16 doubles of kernel output + 8 doubles per extracted row = *_tmp_bytes
ScratchNeeded(rowmax) == 128 + 64 * rowmax
TmpBytesToDft(nr, as) == 128 + 64 * Min2(nr, as)
TmpBytesFromZnx(n, nr, as) == Min2(nr, as) * n * 8 + 128 + 64 * Min2(nr, as)

Init ==
  /\ nn \in NNs /\ nrows \in 1 .. MaxDim /\ ncols \in 1 .. MaxDim /\ asz \in 0 .. MaxSize /\ rsz \in 0 .. MaxSize
  /\ pmat = Prepared(nn, nrows, ncols)
  /\ out = [c \in 0 .. MaxSize |-> [b \in 0 .. NBlk(nn) - 1 |-> {<<-1, <<-1, -1, -1>>>>}]]    \* poison
  /\ zeroed = {}
  /\ blk = 0 /\ col = 0 /\ pc = IF nn >= 8 THEN "blk" ELSE "small"
  /\ oob = FALSE /\ scratchHW = 0

\* the group the code multiplies with input row i when it reads 8 (or N) doubles at address ad
GroupAt(ad) == IF ad \in DOMAIN pmat THEN pmat[ad] ELSE <<-2, -2, -2>>
Terms(base, stride, off) == {<<i, GroupAt(base + stride * i + off)>> : i \in 0 .. RowMax - 1}
Bad(base, stride, off) == \E i \in 0 .. RowMax - 1 : (base + stride * i + off) \notin DOMAIN pmat

\* ---- N >= 8
\* for blk: extract row_max rows of the block; then the column loop
Blk ==
  /\ pc = "blk"
  /\ IF blk < nn \div 8
     THEN /\ scratchHW' = Max2(scratchHW, ScratchNeeded(RowMax))
          /\ col' = 0 /\ pc' = "col2" /\ UNCHANGED <<blk>>
     ELSE /\ pc' = "zero" /\ UNCHANGED <<scratchHW, col, blk>>
  /\ UNCHANGED <<nn, nrows, ncols, asz, rsz, pmat, out, zeroed, oob>>

\* for (col_i = 0; col_i + 1 < col_max; col_i += 2): 2-column kernel, save both outputs
Col2 ==
  /\ pc = "col2"
  /\ IF col + 1 < ColMax
     THEN LET base == blk * (8 * nrows * ncols) + col * (8 * nrows) IN
          /\ out' = [out EXCEPT ![col][blk] = Terms(base, 16, 0), ![col + 1][blk] = Terms(base, 16, 8)]
          /\ oob' = (oob \/ Bad(base, 16, 0) \/ Bad(base, 16, 8) \/ col + 1 >= rsz)
          /\ col' = col + 2 /\ pc' = "col2"
     ELSE pc' = "odd" /\ UNCHANGED <<out, oob, col>>
  /\ UNCHANGED <<nn, nrows, ncols, asz, rsz, pmat, zeroed, blk, scratchHW>>

\* if (col_max % 2 == 1): 1-column kernel iff the column is alone in the prepared matrix, else 2-column kernel
OddLast ==
  /\ pc = "odd"
  /\ IF ColMax % 2 = 1
     THEN LET last == ColMax - 1
              base == blk * (8 * nrows * ncols) + last * (8 * nrows) IN
          IF ncols = ColMax
          THEN /\ out' = [out EXCEPT ![last][blk] = Terms(base, 8, 0)]
               /\ oob' = (oob \/ Bad(base, 8, 0))
          ELSE /\ out' = [out EXCEPT ![last][blk] = Terms(base, 16, 0)]
               /\ oob' = (oob \/ Bad(base, 16, 0) \/ Bad(base, 16, 8))      \* the ignored half is read too
     ELSE UNCHANGED <<out, oob>>
  /\ blk' = blk + 1 /\ pc' = "blk"
  /\ UNCHANGED <<nn, nrows, ncols, asz, rsz, pmat, zeroed, col, scratchHW>>

\* ---- N < 8: per column, mul with row 0 then addmul with rows 1..; zero when there is no row
Small ==
  /\ pc = "small"
  /\ IF col < ColMax
     THEN LET base == col * nrows * nn IN
          /\ out' = [out EXCEPT ![col][0] = Terms(base, nn, 0)]
          /\ oob' = (oob \/ Bad(base, nn, 0))
          /\ col' = col + 1 /\ pc' = "small"
     ELSE pc' = "zero" /\ UNCHANGED <<out, oob, col>>
  /\ UNCHANGED <<nn, nrows, ncols, asz, rsz, pmat, zeroed, blk, scratchHW>>

\* memset(vec_output + col_max * nn, 0, (res_size - col_max) * nn * sizeof(double))
ZeroFill ==
  /\ pc = "zero"
  /\ zeroed' = ColMax .. rsz - 1
  /\ pc' = "done"
  /\ UNCHANGED <<nn, nrows, ncols, asz, rsz, pmat, out, blk, col, oob, scratchHW>>

Done == pc = "done" /\ UNCHANGED vars
Next == Blk \/ Col2 \/ OddLast \/ Small \/ ZeroFill \/ Done
Spec == Init /\ [][Next]_vars
FairSpec == Spec /\ WF_vars(Next)

\* ---- definition
Poison == {<<-1, <<-1, -1, -1>>>>}
DefOut(c, b) == IF c < ColMax THEN {<<i, <<i, c, b>>>> : i \in 0 .. RowMax - 1} ELSE Poison
AlgoEqDef ==
  pc = "done" =>
    /\ \A c \in 0 .. MaxSize : \A b \in 0 .. NBlk(nn) - 1 : out[c][b] = DefOut(c, b)
    /\ zeroed = ColMax .. rsz - 1                     \* columns >= ncols are exactly zero, nothing beyond res_size
NoOob == ~oob
ScratchWithinTmpBytes == scratchHW <= TmpBytesToDft(nrows, asz)
Terminates == <>(pc = "done")

\* ---- concrete test cases in Z[X]/(X^2+1) (replayed lifted to every N): entries and vectors are distinct small
\* polynomials so that a misplaced block, row or column changes the result
MatEntry(i, j) == [x \in 0 .. 1 |-> IF x = 0 THEN 1 + ((3 * i + 5 * j) % 7) ELSE ((2 * i + j) % 5) - 2]
VecEntry(i) == [x \in 0 .. 1 |-> IF x = 0 THEN 2 - (i % 4) ELSE 1 + (i % 3)]
SumP(S, f(_)) == FoldFunctionOnSet(LAMBDA x, acc : PAdd(acc, x), PZero(2), [i \in S |-> f(i)], S)
ExpectedCol(j) == IF j < ncols THEN SumP(0 .. RowMax - 1, LAMBDA i : PMul(2, VecEntry(i), MatEntry(i, j))) ELSE PZero(2)
Tup(p) == <<p[0], p[1]>>
Dump == (GenMode /\ pc = "done" /\ nn = 8) =>
  PrintT(<<"CASE", ToJson([nrows |-> nrows, ncols |-> ncols, as |-> asz, rs |-> rsz,
                           mat |-> [x \in 1 .. nrows * ncols |-> Tup(MatEntry((x - 1) \div ncols, (x - 1) % ncols))],
                           a |-> [x \in 1 .. asz |-> Tup(VecEntry(x - 1))],
                           res |-> [x \in 1 .. rsz |-> Tup(ExpectedCol(x - 1))]])>>)
=============================================================================
