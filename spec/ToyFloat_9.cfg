CONSTANT P = 9
