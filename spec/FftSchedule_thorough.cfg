SPECIFICATION Spec
CONSTANTS
  Ms = {512, 1024, 2048}
  RecThreshold = 2048
  Layout = "reim"
  GenMode = FALSE
INVARIANTS WellFormed OneMonomialPerInput IsEvalMap FullMixing
CHECK_DEADLOCK FALSE
