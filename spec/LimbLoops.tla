----------------------------- MODULE LimbLoops -----------------------------
(* C08 / C13 / C18: size and stride semantics of the limb-vector operations *)
(* (vec_znx.c, vec_znx_avx.c: same loops with other kernels) and of their   *)
(* big-coefficient wrappers (vec_znx_big.c: argument forwarding with stride *)
(* N).  One step = one per-limb kernel call, in code order, on a memory of  *)
(* limbs whose contents are symbolic: a limb value is a formal sum of the   *)
(* initial limbs (tokens), optionally under a ring map (rotation /          *)
(* automorphism, whose coefficient-level behaviour is C09's subject).       *)
(* Operands alias when they are the same buffer with the same stride.       *)
EXTENDS NegaRing, TLC, Json

CONSTANTS Sizes,      \* limb counts explored, e.g. 0..3
          Strides,    \* stride kinds: "tight" (= N), "pad" (N + delta), "double" (2N)
          Ops,        \* subset of AllOps
          GenMode

Generic == {"zero", "copy", "negate", "add", "sub", "rotate", "automorphism"}
BigOps == {"big_add", "big_add_small", "big_add_small2", "big_sub", "big_sub_small_a", "big_sub_small_b",
           "big_sub_small2", "big_rotate", "big_automorphism"}
AllOps == Generic \cup BigOps

\* the vec_znx operation a big wrapper forwards to, and which operands are big (stride forced to N)
Base(op) == CASE op \in {"big_add", "big_add_small", "big_add_small2"} -> "add"
              [] op \in {"big_sub", "big_sub_small_a", "big_sub_small_b", "big_sub_small2"} -> "sub"
              [] op = "big_rotate" -> "rotate" [] op = "big_automorphism" -> "automorphism" [] OTHER -> op
BigA(op) == op \in {"big_add", "big_add_small", "big_sub", "big_sub_small_b", "big_rotate", "big_automorphism"}
BigB(op) == op \in {"big_add", "big_sub", "big_sub_small_a"}
BigR(op) == op \in BigOps
Arity(op) == CASE Base(op) = "zero" -> 0 [] Base(op) \in {"add", "sub"} -> 2 [] OTHER -> 1

Bufs == {1, 2, 3}                      \* X, Y, Z
MaxL == 9
Tok(b, limb) == b * 10 + limb + 1      \* token of the initial content of limb `limb` of buffer b

VARIABLES op, rs, as, bs, rsl, asl, bsl, alias,   \* the call
          rb, ab, bb,                              \* buffer of res, a, b
          mem,                                     \* [buffer -> [limb -> value]]
          written,                                 \* set of <<buffer, limb>> written so far
          pc, i, sumIdx, copyIdx, aFirst,
          oob
vars == <<op, rs, as, bs, rsl, asl, bsl, alias, rb, ab, bb, mem, written, pc, i, sumIdx, copyIdx, aFirst, oob>>

Val(m, t) == [m |-> IF t = <<>> THEN "id" ELSE m, t |-> t]
Zero == Val("id", <<>>)
Init0(b, limb) == Val("id", <<Tok(b, limb)>>)
VAdd(v, w) == Val("id", FAdd(v.t, w.t))
VSub(v, w) == Val("id", FSub(v.t, w.t))
VNeg(v) == Val("id", FNeg(v.t))
VMap(mp, v) == Val(mp, v.t)            \* applied to source limbs only (m = "id")

Aliases == {"none", "ra", "rb", "ab", "rab"}

Init ==
  /\ op \in Ops
  /\ rs \in Sizes /\ as \in (IF Arity(op) >= 1 THEN Sizes ELSE {0}) /\ bs \in (IF Arity(op) = 2 THEN Sizes ELSE {0})
  /\ alias \in (CASE Arity(op) = 0 -> {"none"} [] Arity(op) = 1 -> {"none", "ra"} [] OTHER -> Aliases)
  /\ rsl \in (IF BigR(op) THEN {"tight"} ELSE Strides)
  /\ asl \in (IF BigA(op) \/ Arity(op) = 0 THEN {"tight"} ELSE Strides)
  /\ bsl \in (IF BigB(op) \/ Arity(op) < 2 THEN {"tight"} ELSE Strides)
  \* same pointer implies same stride (domain of C13)
  /\ (alias \in {"ra", "rab"} => rsl = asl) /\ (alias \in {"rb", "rab"} => rsl = bsl) /\ (alias \in {"ab", "rab"} => asl = bsl)
  /\ rb = 1
  /\ ab = IF alias \in {"ra", "rab"} THEN 1 ELSE 2
  /\ bb = CASE alias \in {"rb", "rab"} -> 1 [] alias = "ab" -> 2 [] OTHER -> 3
  /\ mem = [b \in Bufs |-> [limb \in 0 .. MaxL - 1 |-> Init0(b, limb)]]
  /\ written = {}
  /\ pc = "enter" /\ i = 0 /\ sumIdx = 0 /\ copyIdx = 0 /\ aFirst = TRUE
  /\ oob = FALSE

Bop == Base(op)
Rd(b, limb) == mem[b][limb]
Wr(limb, v) == /\ mem' = [mem EXCEPT ![rb][limb] = v]
               /\ written' = written \cup {<<rb, limb>>}
               /\ oob' = (oob \/ limb >= rs)

Enter ==
  /\ pc = "enter"
  /\ IF Bop \in {"add", "sub"}
     THEN IF as <= bs
          THEN sumIdx' = Min2(rs, as) /\ copyIdx' = Min2(rs, bs) /\ aFirst' = TRUE
          ELSE sumIdx' = Min2(rs, bs) /\ copyIdx' = Min2(rs, as) /\ aFirst' = FALSE
     ELSE IF Bop = "zero" THEN sumIdx' = 0 /\ copyIdx' = 0 /\ aFirst' = TRUE
     ELSE sumIdx' = Min2(rs, as) /\ copyIdx' = Min2(rs, as) /\ aFirst' = TRUE
  /\ i' = 0 /\ pc' = "loop1"
  /\ UNCHANGED <<op, rs, as, bs, rsl, asl, bsl, alias, rb, ab, bb, mem, written, oob>>

\* first loop: combine / copy / negate / rotate / automorphism on limbs i < sumIdx
Loop1 ==
  /\ pc = "loop1"
  /\ IF i < sumIdx
     THEN /\ Wr(i, CASE Bop = "add" -> VAdd(Rd(ab, i), Rd(bb, i))
                     [] Bop = "sub" -> VSub(Rd(ab, i), Rd(bb, i))
                     [] Bop = "copy" -> Rd(ab, i)
                     [] Bop = "negate" -> VNeg(Rd(ab, i))
                     [] Bop = "rotate" -> VMap("rot", Rd(ab, i))          \* in-place kernel iff res_ptr = a_ptr
                     [] Bop = "automorphism" -> VMap("aut", Rd(ab, i)))
          /\ i' = i + 1 /\ pc' = "loop1"
     ELSE pc' = "loop2" /\ UNCHANGED <<mem, written, oob, i>>
  /\ UNCHANGED <<op, rs, as, bs, rsl, asl, bsl, alias, rb, ab, bb, sumIdx, copyIdx, aFirst>>

\* second loop (add/sub only): copy the longer operand, negated when it is b in a subtraction
Loop2 ==
  /\ pc = "loop2"
  /\ IF i < copyIdx
     THEN /\ Wr(i, IF aFirst THEN (IF Bop = "sub" THEN VNeg(Rd(bb, i)) ELSE Rd(bb, i)) ELSE Rd(ab, i))
          /\ i' = i + 1 /\ pc' = "loop2"
     ELSE pc' = "loop3" /\ UNCHANGED <<mem, written, oob, i>>
  /\ UNCHANGED <<op, rs, as, bs, rsl, asl, bsl, alias, rb, ab, bb, sumIdx, copyIdx, aFirst>>

\* third loop: extend with zeros
Loop3 ==
  /\ pc = "loop3"
  /\ IF i < rs THEN Wr(i, Zero) /\ i' = i + 1 /\ pc' = "loop3"
     ELSE pc' = "done" /\ UNCHANGED <<mem, written, oob, i>>
  /\ UNCHANGED <<op, rs, as, bs, rsl, asl, bsl, alias, rb, ab, bb, sumIdx, copyIdx, aFirst>>

Done == pc = "done" /\ UNCHANGED vars
Next == Enter \/ Loop1 \/ Loop2 \/ Loop3 \/ Done
Spec == Init /\ [][Next]_vars
FairSpec == Spec /\ WF_vars(Next)

\* ---- definition: limb i = op(a_i, b_i) with missing limbs read as zero, evaluated on the pre-state
A0(limb) == IF limb < as THEN Init0(ab, limb) ELSE Zero
B0(limb) == IF limb < bs THEN Init0(bb, limb) ELSE Zero
DefLimb(limb) ==
  CASE Bop = "zero" -> Zero
    [] Bop = "copy" -> A0(limb)
    [] Bop = "negate" -> VNeg(A0(limb))
    [] Bop = "add" -> VAdd(A0(limb), B0(limb))
    [] Bop = "sub" -> VSub(A0(limb), B0(limb))
    [] Bop = "rotate" -> VMap("rot", A0(limb))
    [] Bop = "automorphism" -> VMap("aut", A0(limb))
DefMem == [b \in Bufs |-> [limb \in 0 .. MaxL - 1 |-> IF b = rb /\ limb < rs THEN DefLimb(limb) ELSE Init0(b, limb)]]

AlgoEqDef == pc = "done" => mem = DefMem
WritesExactlyRes == pc = "done" => written = {<<rb, limb>> : limb \in 0 .. rs - 1}
\* C18 step by step: a cell that is not an output limb is never modified, not even temporarily
Frame == \A b \in Bufs : \A limb \in 0 .. MaxL - 1 : ~(b = rb /\ limb < rs) => mem[b][limb] = Init0(b, limb)
NoOob == ~oob
Terminates == <>(pc = "done")
\* forwarding table of the big wrappers: big operands are walked with stride N
ForwardOk == (BigR(op) => rsl = "tight") /\ (BigA(op) => asl = "tight") /\ (BigB(op) => bsl = "tight")

\* ---- behaviour generation
Limbs(b, n) == [x \in 1 .. n |-> [m |-> mem[b][x - 1].m, t |-> mem[b][x - 1].t]]
Dump == (GenMode /\ pc = "done") =>
  PrintT(<<"CASE", ToJson([op |-> op, rs |-> rs, as |-> as, bs |-> bs, rsl |-> rsl, asl |-> asl, bsl |-> bsl,
                           alias |-> alias, rb |-> rb, ab |-> ab, bb |-> bb, post |-> Limbs(rb, rs)])>>)
=============================================================================
