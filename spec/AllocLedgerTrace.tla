-------------------------- MODULE AllocLedgerTrace --------------------------
(* C11 (allocation half): the allocator calls the library makes inside a    *)
(* new_* ... delete_* scope, recorded by diverting malloc / calloc /         *)
(* aligned_alloc / realloc / free at link time.  A ledger of live blocks:   *)
(* Alloc adds a fresh block, Free removes a live one (or is free(NULL)),    *)
(* and a scope ends with the ledger it started with - every byte allocated  *)
(* by new_* is released by the matching delete_*.                           *)
EXTENDS Integers, Sequences, SequencesExt, FiniteSets, TLC, Json, IOUtils

Tr == ndJsonDeserialize(IOEnv.TRACE)
VARIABLES l, bad, live, inScope, allocs

Ok(ev) ==
  CASE ev.e = "ScopeBegin" -> ~inScope
    [] ev.e = "Alloc" -> inScope /\ ev.id \notin live /\ ev.size >= 0
    [] ev.e = "Free" -> inScope /\ (ev.id = 0 \/ ev.id \in live)            \* never a block the scope does not own, never twice
    [] ev.e = "ScopeEnd" -> inScope /\ live = {} /\ allocs > 0              \* balanced, and the scope was not vacuous
    [] OTHER -> FALSE
Init == l = 1 /\ bad = {} /\ live = {} /\ inScope = FALSE /\ allocs = 0
Next ==
  /\ l <= Len(Tr) /\ l' = l + 1
  /\ LET ev == Tr[l] IN
     /\ bad' = IF Ok(ev) THEN bad ELSE bad \cup {l}
     /\ live' = CASE ev.e = "Alloc" -> live \cup {ev.id} [] ev.e = "Free" -> live \ {ev.id} [] ev.e = "ScopeBegin" -> {} [] OTHER -> live
     /\ inScope' = (IF ev.e = "ScopeBegin" THEN TRUE ELSE IF ev.e = "ScopeEnd" THEN FALSE ELSE inScope)
     /\ allocs' = (IF ev.e = "ScopeBegin" THEN 0 ELSE IF ev.e = "Alloc" THEN allocs + 1 ELSE allocs)
Spec == Init /\ [][Next]_<<l, bad, live, inScope, allocs>>
Report == (l = Len(Tr) + 1) => PrintT(<<"RESULT", ToJson([n |-> Len(Tr), bad |-> SetToSeq(bad)])>>)
=============================================================================
