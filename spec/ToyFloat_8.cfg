CONSTANT P = 8
