------------------------------- MODULE Wide -------------------------------
(* Integers of arbitrary size for TLC (whose integers are 32-bit Java ints).*)
(* A wide integer is a record [neg |-> BOOLEAN, mag |-> magnitude]; a       *)
(* magnitude is a little-endian sequence of base-4096 digits without        *)
(* most-significant zero digits (<<>> is 0).  Digit products (< 2^24) and   *)
(* all intermediate sums stay far below 2^31.                               *)
(* Traces carry wide values as little-endian 16-bit words.                  *)
EXTENDS Integers, Sequences, SequencesExt

LB == 12
B == 4096

-----------------------------------------------------------------------------
\* magnitudes
RECURSIVE MNorm(_)
MNorm(m) == IF m = <<>> THEN <<>> ELSE IF m[Len(m)] = 0 THEN MNorm(SubSeq(m, 1, Len(m) - 1)) ELSE m

MDig(m, i) == IF i <= Len(m) THEN m[i] ELSE 0

MAdd(a, b) ==
  LET n == IF Len(a) > Len(b) THEN Len(a) ELSE Len(b)
      st == FoldLeft(LAMBDA acc, i : LET x == MDig(a, i) + MDig(b, i) + acc[2]
                                     IN <<Append(acc[1], x % B), x \div B>>,
                     <<<<>>, 0>>, [i \in 1 .. n |-> i])
  IN IF st[2] = 0 THEN st[1] ELSE Append(st[1], st[2])

\* a - b for a >= b
MSub(a, b) ==
  LET st == FoldLeft(LAMBDA acc, i : LET x == MDig(a, i) - MDig(b, i) - acc[2]
                                     IN IF x < 0 THEN <<Append(acc[1], x + B), 1>> ELSE <<Append(acc[1], x), 0>>,
                     <<<<>>, 0>>, [i \in 1 .. Len(a) |-> i])
  IN MNorm(st[1])

\* -1, 0, 1
MCmp(a, b) ==
  IF Len(a) # Len(b) THEN (IF Len(a) < Len(b) THEN -1 ELSE 1)
  ELSE LET d == {i \in 1 .. Len(a) : a[i] # b[i]} IN
       IF d = {} THEN 0
       ELSE LET i == CHOOSE i \in d : \A j \in d : j <= i IN IF a[i] < b[i] THEN -1 ELSE 1

\* by one small factor k < 2^19
MMulS(a, k) ==
  IF k = 0 THEN <<>> ELSE
  LET st == FoldLeft(LAMBDA acc, i : LET x == a[i] * k + acc[2] IN <<Append(acc[1], x % B), x \div B>>,
                     <<<<>>, 0>>, [i \in 1 .. Len(a) |-> i])
      RECURSIVE Tl(_)
      Tl(c) == IF c = 0 THEN <<>> ELSE <<c % B>> \o Tl(c \div B)
  IN st[1] \o Tl(st[2])

MShlDigits(a, q) == IF a = <<>> THEN <<>> ELSE [i \in 1 .. q |-> 0] \o a

MMul(a, b) ==
  FoldLeft(LAMBDA acc, i : MAdd(acc, MShlDigits(MMulS(a, b[i]), i - 1)), <<>>, [i \in 1 .. Len(b) |-> i])

MShl(a, bits) == MShlDigits(MMulS(a, 2 ^ (bits % LB)), bits \div LB)

\* floor(a / 2^bits)
MShr(a, bits) ==
  LET q == bits \div LB
      r == bits % LB
      n == Len(a) - q
  IN IF n <= 0 THEN <<>>
     ELSE MNorm([i \in 1 .. n |-> (a[q + i] \div 2 ^ r) + (MDig(a, q + i + 1) % 2 ^ r) * 2 ^ (LB - r)])

\* a mod 2^bits
MLow(a, bits) ==
  LET q == bits \div LB
      r == bits % LB
  IN MNorm([i \in 1 .. q + 1 |-> IF i <= q THEN MDig(a, i) ELSE MDig(a, i) % 2 ^ r])

RECURSIVE MFromNat(_)
MFromNat(n) == IF n = 0 THEN <<>> ELSE <<n % B>> \o MFromNat(n \div B)

\* value of a small magnitude (must be < 2^31)
MToNat(m) == FoldLeft(LAMBDA acc, i : acc + m[i] * B ^ (i - 1), 0, [i \in 1 .. Len(m) |-> i])

MPow2(bits) == MShl(<<1>>, bits)

\* unsigned value of little-endian 16-bit words
MFromWords(ws) ==
  FoldLeft(LAMBDA acc, i : MAdd(MShl(acc, 16), MFromNat(ws[Len(ws) + 1 - i])), <<>>, [i \in 1 .. Len(ws) |-> i])

\* little-endian 16-bit words (n of them) of a magnitude < 2^(16n)
MToWords(m, n) == [i \in 1 .. n |-> MToNat(MLow(MShr(m, 16 * (i - 1)), 16))]

\* a mod d by binary long division (d > 0); used for the q120 primes
MMod(a, d) ==
  IF MCmp(a, d) < 0 THEN a ELSE
  LET nb == LB * (Len(a) - Len(d) + 1)
  IN FoldLeft(LAMBDA acc, i : LET s == MShl(d, nb - i) IN IF MCmp(acc, s) >= 0 THEN MSub(acc, s) ELSE acc,
              a, [i \in 1 .. nb + 1 |-> i - 1])

\* floor and ceiling of the square root (bit by bit from the top)
MBits(a) == LB * Len(a)
MISqrt(a) ==
  LET nb == (MBits(a) + 1) \div 2
  IN FoldLeft(LAMBDA r, i : LET c == MAdd(r, MPow2(nb + 1 - i)) IN IF MCmp(MMul(c, c), a) <= 0 THEN c ELSE r,
              <<>>, [i \in 1 .. nb + 1 |-> i])
MISqrtCeil(a) == LET r == MISqrt(a) IN IF MCmp(MMul(r, r), a) = 0 THEN r ELSE MAdd(r, <<1>>)

-----------------------------------------------------------------------------
\* signed
W(neg, mag) == [neg |-> neg /\ mag # <<>>, mag |-> mag]
WZero == W(FALSE, <<>>)
WFromInt(n) == IF n < 0 THEN W(TRUE, MFromNat(-n)) ELSE W(FALSE, MFromNat(n))
WToInt(a) == IF a.neg THEN -MToNat(a.mag) ELSE MToNat(a.mag)
WNeg(a) == W(~a.neg, a.mag)
WAbs(a) == W(FALSE, a.mag)
WIsZero(a) == a.mag = <<>>
WAdd(a, b) ==
  IF a.neg = b.neg THEN W(a.neg, MAdd(a.mag, b.mag))
  ELSE LET c == MCmp(a.mag, b.mag) IN
       IF c = 0 THEN WZero ELSE IF c > 0 THEN W(a.neg, MSub(a.mag, b.mag)) ELSE W(b.neg, MSub(b.mag, a.mag))
WSub(a, b) == WAdd(a, WNeg(b))
WMul(a, b) == W(a.neg # b.neg, MMul(a.mag, b.mag))
WCmp(a, b) ==
  IF a.neg # b.neg THEN (IF a.neg THEN -1 ELSE 1)
  ELSE IF a.neg THEN MCmp(b.mag, a.mag) ELSE MCmp(a.mag, b.mag)
WLe(a, b) == WCmp(a, b) <= 0
WLt(a, b) == WCmp(a, b) < 0
WShl(a, bits) == W(a.neg, MShl(a.mag, bits))
WPow2(bits) == W(FALSE, MPow2(bits))
\* floor(a / 2^bits)
WShr(a, bits) ==
  IF ~a.neg THEN W(FALSE, MShr(a.mag, bits))
  ELSE W(TRUE, MShr(MAdd(a.mag, MSub(MPow2(bits), <<1>>)), bits))
\* a mod 2^bits, in [0, 2^bits)
WModPow2(a, bits) ==
  LET r == MLow(a.mag, bits) IN
  IF ~a.neg \/ r = <<>> THEN W(FALSE, r) ELSE W(FALSE, MSub(MPow2(bits), r))
\* a mod d in [0, d), d a positive magnitude
WMod(a, d) ==
  LET r == MMod(a.mag, d) IN IF ~a.neg \/ r = <<>> THEN W(FALSE, r) ELSE W(FALSE, MSub(d, r))

\* two's-complement views of little-endian 16-bit words
WFromUWords(ws) == W(FALSE, MFromWords(ws))
WFromIWords(ws) ==
  LET u == MFromWords(ws)  nb == 16 * Len(ws)
  IN IF ws[Len(ws)] >= 32768 THEN W(TRUE, MSub(MPow2(nb), u)) ELSE W(FALSE, u)
\* the n little-endian 16-bit two's-complement words of a (value must fit)
WToIWords(a, n) == IF a.neg THEN MToWords(MSub(MPow2(16 * n), a.mag), n) ELSE MToWords(a.mag, n)

WSum(seq) == FoldLeft(LAMBDA acc, x : WAdd(acc, x), WZero, seq)
=============================================================================
