SPECIFICATION Spec
CONSTANTS Ns = {1, 2, 4, 8, 16, 32}
INVARIANTS IsEvalMap InverseIsInverse
CHECK_DEADLOCK FALSE
