------------------------------ MODULE Base2k ------------------------------
(* Balanced base-2^k digit expansions: the definition side of C05.          *)
(* Plain-integer version (small scope) and Wide version (trace scope).      *)
EXTENDS Wide, Bits

\* ---- plain integers
Digit(x, k) == LET r == x % 2 ^ k IN IF r >= 2 ^ (k - 1) THEN r - 2 ^ k ELSE r
Carry(x, k) == (x - Digit(x, k)) \div 2 ^ k
InRange(d, k) == -(2 ^ (k - 1)) <= d /\ d < 2 ^ (k - 1)

\* value of limbs a[1..n], a[1] most significant
Val(a, k) == FoldLeft(LAMBDA acc, x : acc * 2 ^ k + x, 0, a)

\* the n balanced digits of T modulo 2^(k n), most significant first
RECURSIVE Digits(_, _, _)
Digits(T, k, n) == IF n = 0 THEN <<>> ELSE LET d == Digit(T, k) IN Append(Digits((T - d) \div 2 ^ k, k, n - 1), d)

\* what normalisation must return: limb i = digit i for i <= min(rs, n), zero beyond n
DefNormalize(a, k, rs) ==
  LET n == Len(a)  ds == Digits(Val(a, k), k, n) IN [i \in 1 .. rs |-> IF i <= n THEN ds[i] ELSE 0]

\* ---- Wide
WDigit(x, k) == LET r == WModPow2(x, k) IN IF WCmp(r, WPow2(k - 1)) >= 0 THEN WSub(r, WPow2(k)) ELSE r
WCarry(x, k) == WShr(WSub(x, WDigit(x, k)), k)
WInRange(d, k) == WCmp(WNeg(WPow2(k - 1)), d) <= 0 /\ WCmp(d, WPow2(k - 1)) < 0
WVal(a, k) == FoldLeft(LAMBDA acc, x : WAdd(WShl(acc, k), x), WZero, a)
RECURSIVE WDigits(_, _, _)
WDigits(T, k, n) ==
  IF n = 0 THEN <<>> ELSE LET d == WDigit(T, k) IN Append(WDigits(WShr(WSub(T, d), k), k, n - 1), d)
WDefNormalize(a, k, rs) ==
  LET n == Len(a)  ds == WDigits(WVal(a, k), k, n) IN [i \in 1 .. rs |-> IF i <= n THEN ds[i] ELSE WZero]
=============================================================================
