----------------------------- MODULE Lifecycle -----------------------------
(* Life cycle of the objects a caller owns: MODULE_INFO of a dimension and  *)
(* the precomputed tables (constructors and destructors).  The contract   *)
(* the properties rely on (C15: a result depends on the arguments only; C03 / C06: a       *)
(* module or table stays usable until ITS delete): objects are independent. *)
(* Creating or deleting another object - of the same kind and dimension or  *)
(* not - never changes what a live object computes.                         *)
(*                                                                          *)
(* The machine describes the storage behind the objects under a strategy:   *)
(*   "own"       every object allocates and fills its own table (the code)  *)
(*   "refcount"  objects of one key share a table, counted                  *)
(*   "shared"    objects of one key share a table, freed by the first delete*)
(* "own" and "refcount" satisfy UseSafe; "shared" does not (Lifecycle_mut). *)
EXTENDS Integers, FiniteSets, TLC

CONSTANTS Ids, Keys, Strategy, MaxSteps

VARIABLES st,        \* id -> "absent" | "live" | "deleted"
          keyOf,     \* id -> key (kind and dimension) of a live or deleted object
          tabOf,     \* id -> table cell the object points to
          cells,     \* cell -> [alloc |-> BOOLEAN, key |-> key or "none", refs |-> Nat]
          steps, lastUse
vars == <<st, keyOf, tabOf, cells, steps, lastUse>>

Cells == 1 .. Cardinality(Ids)           \* enough cells for one table per object
NoCell == 0
Free(c) == ~cells[c].alloc
SharedCell(k) == {c \in Cells : cells[c].alloc /\ cells[c].key = k}

Init ==
  /\ st = [i \in Ids |-> "absent"] /\ keyOf = [i \in Ids |-> "none"] /\ tabOf = [i \in Ids |-> NoCell]
  /\ cells = [c \in Cells |-> [alloc |-> FALSE, key |-> "none", refs |-> 0]]
  /\ steps = 0 /\ lastUse = [ok |-> TRUE, id |-> 0]

New(i, k) ==
  /\ st[i] = "absent" /\ steps < MaxSteps
  /\ LET reuse == IF Strategy = "own" THEN {} ELSE SharedCell(k) IN
     IF reuse # {}
     THEN LET c == CHOOSE c \in reuse : TRUE IN
          /\ tabOf' = [tabOf EXCEPT ![i] = c]
          /\ cells' = [cells EXCEPT ![c].refs = @ + 1]
     ELSE LET c == CHOOSE c \in Cells : Free(c) IN
          /\ tabOf' = [tabOf EXCEPT ![i] = c]
          /\ cells' = [cells EXCEPT ![c] = [alloc |-> TRUE, key |-> k, refs |-> 1]]
  /\ st' = [st EXCEPT ![i] = "live"] /\ keyOf' = [keyOf EXCEPT ![i] = k]
  /\ steps' = steps + 1 /\ UNCHANGED lastUse

\* a call on a live object reads its table: safe iff the cell is still allocated and holds the table of the object's key
Use(i) ==
  /\ st[i] = "live" /\ steps < MaxSteps
  /\ lastUse' = [ok |-> (cells[tabOf[i]].alloc /\ cells[tabOf[i]].key = keyOf[i]), id |-> i]
  /\ steps' = steps + 1 /\ UNCHANGED <<st, keyOf, tabOf, cells>>

Delete(i) ==
  /\ st[i] = "live" /\ steps < MaxSteps
  /\ LET c == tabOf[i] IN
     cells' = CASE Strategy = "refcount" /\ cells[c].refs > 1 -> [cells EXCEPT ![c].refs = @ - 1]
                [] OTHER -> [cells EXCEPT ![c] = [alloc |-> FALSE, key |-> "none", refs |-> 0]]     \* "shared": the first delete frees
  /\ st' = [st EXCEPT ![i] = "deleted"]
  /\ steps' = steps + 1 /\ UNCHANGED <<keyOf, tabOf, lastUse>>

Next == \/ \E i \in Ids : \E k \in Keys : New(i, k)
        \/ \E i \in Ids : Use(i) \/ Delete(i)
Spec == Init /\ [][Next]_vars

TypeOk == /\ \A i \in Ids : st[i] \in {"absent", "live", "deleted"}
          /\ \A c \in Cells : cells[c].refs >= 0
UseSafe == lastUse.ok                                          \* every call on a live object found its table
NoLeak == (\A i \in Ids : st[i] # "live") => \A c \in Cells : ~cells[c].alloc      \* all deleted: nothing stays allocated
LiveOwnsTable == \A i \in Ids : st[i] = "live" /\ Strategy # "shared" => cells[tabOf[i]].alloc /\ cells[tabOf[i]].key = keyOf[i]
=============================================================================
