--------------------------- MODULE DispatchTrace ---------------------------
(* Trace validation for C07 (dispatch half): for every table / module the   *)
(* harness created under a CPU-feature mask it reports which kernel the     *)
(* library installed.  The verdict only demands that the kernel is legal    *)
(* for that dimension (applicable, and of the right kind); equality with    *)
(* the transcribed selection rule is advisory (reported as drift).          *)
(*   Sel: kind, m, par, flags (list of features left enabled), kernel       *)
EXTENDS Dispatch, SequencesExt, Json, IOUtils

Tr == ndJsonDeserialize(IOEnv.TRACE)
VARIABLES l, bad, drift
EventOk(ev) == ev.e = "Sel" /\ Legal(ev.kind, ev.m, ev.par, ev.kernel)
Drift(ev) == ev.e = "Sel" /\ ev.kernel # Select(ev.kind, ev.m, ev.par, {ev.flags[i] : i \in 1 .. Len(ev.flags)})
Init == l = 1 /\ bad = {} /\ drift = {}
Next == /\ l <= Len(Tr) /\ l' = l + 1
        /\ bad' = IF EventOk(Tr[l]) THEN bad ELSE bad \cup {l}
        /\ drift' = IF Drift(Tr[l]) THEN drift \cup {l} ELSE drift
Spec == Init /\ [][Next]_<<l, bad, drift>>
Report == (l = Len(Tr) + 1) => PrintT(<<"RESULT", ToJson([n |-> Len(Tr), bad |-> SetToSeq(bad), drift |-> SetToSeq(drift)])>>)
=============================================================================
