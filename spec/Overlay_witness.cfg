SPECIFICATION Spec
CONSTANTS
  N0 = 2
  MaxSize = 3
  MaxStride = 7
  MaxOff = 4
  GenMode = FALSE
INVARIANT IllegalAlsoFine
CHECK_DEADLOCK FALSE
