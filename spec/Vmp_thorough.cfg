SPECIFICATION FairSpec
CONSTANTS
  NNs = {2, 4, 8, 16, 32, 64}
  MaxDim = 8
  MaxSize = 9
  GenMode = FALSE
INVARIANTS AlgoEqDef NoOob ScratchWithinTmpBytes
PROPERTY Terminates
