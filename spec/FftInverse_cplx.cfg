SPECIFICATION ISpec
CONSTANTS
  Ms = {1, 2, 4, 8, 16, 32, 64}
  RecThreshold = 2048
  Layout = "cplx"
  GenMode = FALSE
INVARIANTS IWellFormed InverseIsInverse
CHECK_DEADLOCK FALSE
