------------------------------ MODULE Overlay ------------------------------
(* Limb-wise operations whose result vector lies in the same buffer as a    *)
(* source vector, at another place and / or with another stride (a vector   *)
(* compacted in place, compacted and cleared, rows of a table moved to      *)
(* other rows; the normalisation, which walks the limbs downwards).  C13    *)
(* drives such calls; this module decides WHICH of them are well defined:   *)
(* Legal is the rule, the machine below is the code's loop on one buffer of *)
(* cells, and TLC checks for every layout of the box that a legal layout    *)
(* ends with the out-of-place result (res limb i = op(source limb i), zero  *)
(* beyond the source size).  The legal layouts are printed for the replay.  *)
EXTENDS Integers, Sequences, FiniteSets, TLC, Json

CONSTANTS N0, MaxSize, MaxStride, MaxOff, GenMode

VARIABLES size, rs, rsl, asl, r0, a0, desc,    \* the layout (cells): res limb i at r0 + i*rsl, source limb j at a0 + j*asl
          mem, k, pc                           \* buffer of tokens, position in the processing order, phase
vars == <<size, rs, rsl, asl, r0, a0, desc, mem, k, pc>>

Min2(x, y) == IF x < y THEN x ELSE y
Max2(x, y) == IF x < y THEN y ELSE x
Top == Max2(a0 + (size - 1) * asl, r0 + (rs - 1) * rsl) + N0           \* cells 0 .. Top-1
Inter(x, y) == x < y + N0 /\ y < x + N0                                \* two limbs share a cell
NMin == Min2(rs, size)
Order == IF desc THEN [i \in 1 .. NMin |-> NMin - i] ELSE [i \in 1 .. NMin |-> i - 1]     \* limb indices in processing order

\* the rule: a computed limb coincides with its own source or is disjoint from it, and touches no source limb that is still to be read;
\* result limbs do not overlap each other; the limbs that are only zero-filled come last and may land anywhere
Legal ==
  /\ (rs > 1 => rsl >= N0)
  /\ \A p \in 1 .. NMin :
       LET i == Order[p]  r == r0 + i * rsl IN
       /\ (Inter(r, a0 + i * asl) => r = a0 + i * asl)
       /\ \A q \in p + 1 .. NMin : ~Inter(r, a0 + Order[q] * asl)

InitMem == [c \in 0 .. Top - 1 |->
              IF \E j \in 0 .. size - 1 : c \in a0 + j * asl .. a0 + j * asl + N0 - 1
              THEN LET j == CHOOSE j \in 0 .. size - 1 : c \in a0 + j * asl .. a0 + j * asl + N0 - 1 IN <<"a", j, c - (a0 + j * asl)>>
              ELSE <<"junk", c>>]

Init ==
  /\ size \in 1 .. MaxSize /\ rs \in 1 .. MaxSize + 2
  /\ rsl \in N0 .. MaxStride /\ asl \in N0 .. MaxStride
  /\ r0 \in 0 .. MaxOff /\ a0 \in 0 .. MaxOff /\ (r0 = 0 \/ a0 = 0)
  /\ desc \in BOOLEAN
  /\ (size > 1 => asl >= N0)
  /\ mem = InitMem /\ k = 1 /\ pc = "loop"

\* one limb: read it completely, then write op of it (the kernels work in place when the addresses are equal, out of place otherwise)
Step ==
  /\ pc = "loop"
  /\ IF k <= NMin
     THEN LET i == Order[k]
              rd == [t \in 0 .. N0 - 1 |-> mem[a0 + i * asl + t]]
          IN /\ mem' = [c \in DOMAIN mem |-> IF c \in r0 + i * rsl .. r0 + i * rsl + N0 - 1 THEN <<"op", rd[c - (r0 + i * rsl)]>> ELSE mem[c]]
             /\ k' = k + 1 /\ pc' = "loop"
     ELSE /\ mem' = [c \in DOMAIN mem |->
                       IF \E i \in size .. rs - 1 : c \in r0 + i * rsl .. r0 + i * rsl + N0 - 1 THEN <<"zero">> ELSE mem[c]]
          /\ pc' = "done" /\ k' = k
  /\ UNCHANGED <<size, rs, rsl, asl, r0, a0, desc>>
Done == pc = "done" /\ UNCHANGED vars
Next == Step \/ Done
Spec == Init /\ [][Next]_vars

Correct ==
  \A i \in 0 .. rs - 1 : \A t \in 0 .. N0 - 1 :
     mem[r0 + i * rsl + t] = IF i < size THEN <<"op", <<"a", i, t>>>> ELSE <<"zero">>
LegalIsWellDefined == (pc = "done" /\ Legal) => Correct
\* the rule is not vacuous, and it is needed: some layout that is not legal ends wrong (witness configuration)
IllegalAlsoFine == (pc = "done" /\ ~Legal) => Correct

Dump == (GenMode /\ pc = "done" /\ Legal /\ (r0 # 0 \/ a0 # 0 \/ rsl # asl)) =>
  PrintT(<<"CASE", ToJson([size |-> size, rs |-> rs, rsl |-> rsl, asl |-> asl, r0 |-> r0, a0 |-> a0, desc |-> desc, n |-> N0])>>)
=============================================================================
