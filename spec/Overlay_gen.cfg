SPECIFICATION Spec
CONSTANTS
  N0 = 2
  MaxSize = 2
  MaxStride = 7
  MaxOff = 4
  GenMode = TRUE
INVARIANT Dump
CHECK_DEADLOCK FALSE
