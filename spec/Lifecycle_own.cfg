SPECIFICATION Spec
CONSTANTS
  Ids = {1, 2, 3}
  Keys = {"ntt64", "ntt128"}
  Strategy = "own"
  MaxSteps = 9
INVARIANTS TypeOk UseSafe NoLeak LiveOwnsTable
CHECK_DEADLOCK FALSE
