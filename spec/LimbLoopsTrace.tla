-------------------------- MODULE LimbLoopsTrace --------------------------
(* Trace validation for C08/C13: recorded calls of the limb-vector API with *)
(* arbitrary sizes and strides (small values, so plain TLC integers) are    *)
(* re-computed from the definition: limb i = op(a_i, b_i), missing limbs    *)
(* read as zero, exactly rs limbs.                                          *)
(*  Call: op, N, p (mod 2N, for rotate/automorphism), a, b (lists of limbs),*)
(*        rs, res (rs limbs), frame (TRUE iff nothing else was modified)    *)
EXTENDS NegaRing, TLC, Json, IOUtils

Tr == ndJsonDeserialize(IOEnv.TRACE)
VARIABLES l, bad

Limb(v, N) == [x \in Idx(N) |-> v[x + 1]]
Get(ls, i, N) == IF i <= Len(ls) THEN Limb(ls[i], N) ELSE PZero(N)

Base(op) == CASE op \in {"big_add", "big_add_small", "big_add_small2"} -> "add"
              [] op \in {"big_sub", "big_sub_small_a", "big_sub_small_b", "big_sub_small2"} -> "sub"
              [] op = "big_rotate" -> "rotate" [] op = "big_automorphism" -> "automorphism" [] OTHER -> op

DefLimb(ev, i) ==
  LET N == ev.N  a == Get(ev.a, i, N)  b == Get(ev.b, i, N)  o == Base(ev.op) IN
  CASE o = "zero" -> PZero(N)
    [] o = "copy" -> a
    [] o = "negate" -> PNeg(a)
    [] o = "add" -> PAdd(a, b)
    [] o = "sub" -> PSub(a, b)
    [] o = "rotate" -> PRotate(N, ev.p, a)
    [] o = "automorphism" -> PAutomorphism(N, ev.p, a)

EventOk(ev) ==
  /\ ev.e = "Call"
  /\ ev.frame
  /\ Len(ev.res) = ev.rs
  /\ \A i \in 1 .. ev.rs : Limb(ev.res[i], ev.N) = DefLimb(ev, i)

Init == l = 1 /\ bad = {}
Next == l <= Len(Tr) /\ l' = l + 1 /\ bad' = IF EventOk(Tr[l]) THEN bad ELSE bad \cup {l}
Spec == Init /\ [][Next]_<<l, bad>>
Report == (l = Len(Tr) + 1) => PrintT(<<"RESULT", ToJson([n |-> Len(Tr), bad |-> SetToSeq(bad)])>>)
=============================================================================
