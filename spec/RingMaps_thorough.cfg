SPECIFICATION Spec
CONSTANTS
  Ns = {1, 2, 4, 8, 16, 32, 64, 128, 256, 512, 1024}
  Fns = {"rotate", "rotate_inplace", "mulxp", "mulxp_inplace", "automorphism", "automorphism_inplace"}
  GenMaxN = 0
INVARIANTS Correct NoOob Bounded
