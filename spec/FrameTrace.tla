----------------------------- MODULE FrameTrace -----------------------------
(* Trace validation for C18 (and the declared-size half of C11): after each *)
(* recorded call the harness reports, for every object of the store and for *)
(* the module/table memory, its role in the call and whether its bytes      *)
(* changed.  A change is legal only on a role Extents.WritableRoles allows. *)
(*   Step:  op, objs = list of <<name, role, changed>>                      *)
(*   Sizes: N, mod, tmp = list of <<op, nrows, ncols, a_size, res_size,     *)
(*          bytes reported by the *_tmp_bytes function>>, bytes = list of   *)
(*          <<kind, size, nrows, ncols, bytes reported by bytes_of_*>>      *)
(*   Layout: kind, m, nb, size, tab, tabal, need, bufs, bufal, bufsize, data*)
(*   Scope: what, N, held (bytes in use while the object exists), leak      *)
(*          (bytes still in use after its delete)                           *)
EXTENDS Extents, TLC, Json, IOUtils, SequencesExt

Tr == ndJsonDeserialize(IOEnv.TRACE)
VARIABLES l, bad

StepOk(ev) == \A i \in 1 .. Len(ev.objs) : ev.objs[i][3] => ev.objs[i][2] \in WritableRoles(ev.op)
SizesOk(ev) ==
  /\ \A i \in 1 .. Len(ev.tmp) : LET t == ev.tmp[i] IN t[6] = TmpBytes(t[1], ev.N, t[2], t[3], t[4], t[5], ev.mod)
  /\ \A i \in 1 .. Len(ev.bytes) : LET t == ev.bytes[i] IN t[5] = BytesOf(t[1], ev.N, t[2], t[3], t[4], ev.mod)
\* an allocation scope new_* ... delete_*: memory is held while the object lives and all of it is returned
ScopeOk(ev) == ev.held > 0 /\ ev.leak = 0
\* a precomputed table object with library-owned work buffers (new_{reim,cplx}_{fft,ifft}_precomp(m, num_buffers)): offsets inside its
\* heap block; need = bytes of the twiddle table the schedule consumes (length of FftSchedule!TableOf), data = bytes of one vector
LayoutOk(ev) ==
  /\ ev.tab >= 40 /\ ev.tabal = 0 /\ ev.tab + ev.need <= ev.size
  /\ Len(ev.bufs) = ev.nb /\ ev.bufsize >= ev.data
  /\ \A i \in 1 .. ev.nb : /\ ev.bufs[i] >= ev.tab + ev.need              \* not inside the table
                              /\ ev.bufs[i] + ev.data <= ev.size            \* inside the block
                              /\ ev.bufal[i] = 0
                              /\ \A j \in 1 .. ev.nb : j > i => (ev.bufs[j] >= ev.bufs[i] + ev.data \/ ev.bufs[i] >= ev.bufs[j] + ev.data)
EventOk(ev) == CASE ev.e = "Layout" -> LayoutOk(ev) [] ev.e = "Step" -> StepOk(ev) [] ev.e = "Sizes" -> SizesOk(ev) [] ev.e = "Scope" -> ScopeOk(ev) [] OTHER -> FALSE

Init == l = 1 /\ bad = {}
Next == l <= Len(Tr) /\ l' = l + 1 /\ bad' = IF EventOk(Tr[l]) THEN bad ELSE bad \cup {l}
Spec == Init /\ [][Next]_<<l, bad>>
Report == (l = Len(Tr) + 1) => PrintT(<<"RESULT", ToJson([n |-> Len(Tr), bad |-> SetToSeq(bad)])>>)
=============================================================================
