SPECIFICATION Spec
CONSTANTS
  Ms = {1, 2, 4, 8, 16, 32, 64, 128, 256, 512, 1024}
  Ws = {1, 2, 4, 8, 16}
  GenMode = FALSE
INVARIANTS AlgoEqDef SourcesKept
