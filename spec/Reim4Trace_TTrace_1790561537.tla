---- MODULE Reim4Trace_TTrace_1790561537 ----
EXTENDS Reim4Trace, Sequences, TLCExt, Toolbox, Naturals, TLC

_expression ==
    LET Reim4Trace_TEExpression == INSTANCE Reim4Trace_TEExpression
    IN Reim4Trace_TEExpression!expression
----

_trace ==
    LET Reim4Trace_TETrace == INSTANCE Reim4Trace_TETrace
    IN Reim4Trace_TETrace!trace
----

_inv ==
    ~(
        TLCGet("level") = Len(_TETrace)
        /\
        bad = ({15, 23, 31, 47})
        /\
        l = (73)
    )
----

_init ==
    /\ bad = _TETrace[1].bad
    /\ l = _TETrace[1].l
----

_next ==
    /\ \E i,j \in DOMAIN _TETrace:
        /\ \/ /\ j = i + 1
              /\ i = TLCGet("level")
        /\ bad  = _TETrace[i].bad
        /\ bad' = _TETrace[j].bad
        /\ l  = _TETrace[i].l
        /\ l' = _TETrace[j].l

\* Uncomment the ASSUME below to write the states of the error trace
\* to the given file in Json format. Note that you can pass any tuple
\* to `JsonSerialize`. For example, a sub-sequence of _TETrace.
    \* ASSUME
    \*     LET J == INSTANCE Json
    \*         IN J!JsonSerialize("Reim4Trace_TTrace_1790561537.json", _TETrace)

=============================================================================

 Note that you can extract this module `Reim4Trace_TEExpression`
  to a dedicated file to reuse `expression` (the module in the 
  dedicated `Reim4Trace_TEExpression.tla` file takes precedence 
  over the module `Reim4Trace_TEExpression` below).

---- MODULE Reim4Trace_TEExpression ----
EXTENDS Reim4Trace, Sequences, TLCExt, Toolbox, Naturals, TLC

expression == 
    [
        \* To hide variables of the `Reim4Trace` spec from the error trace,
        \* remove the variables below.  The trace will be written in the order
        \* of the fields of this record.
        bad |-> bad
        ,l |-> l
        
        \* Put additional constant-, state-, and action-level expressions here:
        \* ,_stateNumber |-> _TEPosition
        \* ,_badUnchanged |-> bad = bad'
        
        \* Format the `bad` variable as Json value.
        \* ,_badJson |->
        \*     LET J == INSTANCE Json
        \*     IN J!ToJson(bad)
        
        \* Lastly, you may build expressions over arbitrary sets of states by
        \* leveraging the _TETrace operator.  For example, this is how to
        \* count the number of times a spec variable changed up to the current
        \* state in the trace.
        \* ,_badModCount |->
        \*     LET F[s \in DOMAIN _TETrace] ==
        \*         IF s = 1 THEN 0
        \*         ELSE IF _TETrace[s].bad # _TETrace[s-1].bad
        \*             THEN 1 + F[s-1] ELSE F[s-1]
        \*     IN F[_TEPosition - 1]
    ]

=============================================================================



Parsing and semantic processing can take forever if the trace below is long.
 In this case, it is advised to uncomment the module below to deserialize the
 trace from a generated binary file.

\*
\*---- MODULE Reim4Trace_TETrace ----
\*EXTENDS Reim4Trace, IOUtils, TLC
\*
\*trace == IODeserialize("Reim4Trace_TTrace_1790561537.bin", TRUE)
\*
\*=============================================================================
\*

---- MODULE Reim4Trace_TETrace ----
EXTENDS Reim4Trace, TLC

trace == 
    <<
    ([bad |-> {},l |-> 1]),
    ([bad |-> {},l |-> 2]),
    ([bad |-> {},l |-> 3]),
    ([bad |-> {},l |-> 4]),
    ([bad |-> {},l |-> 5]),
    ([bad |-> {},l |-> 6]),
    ([bad |-> {},l |-> 7]),
    ([bad |-> {},l |-> 8]),
    ([bad |-> {},l |-> 9]),
    ([bad |-> {},l |-> 10]),
    ([bad |-> {},l |-> 11]),
    ([bad |-> {},l |-> 12]),
    ([bad |-> {},l |-> 13]),
    ([bad |-> {},l |-> 14]),
    ([bad |-> {},l |-> 15]),
    ([bad |-> {15},l |-> 16]),
    ([bad |-> {15},l |-> 17]),
    ([bad |-> {15},l |-> 18]),
    ([bad |-> {15},l |-> 19]),
    ([bad |-> {15},l |-> 20]),
    ([bad |-> {15},l |-> 21]),
    ([bad |-> {15},l |-> 22]),
    ([bad |-> {15},l |-> 23]),
    ([bad |-> {15, 23},l |-> 24]),
    ([bad |-> {15, 23},l |-> 25]),
    ([bad |-> {15, 23},l |-> 26]),
    ([bad |-> {15, 23},l |-> 27]),
    ([bad |-> {15, 23},l |-> 28]),
    ([bad |-> {15, 23},l |-> 29]),
    ([bad |-> {15, 23},l |-> 30]),
    ([bad |-> {15, 23},l |-> 31]),
    ([bad |-> {15, 23, 31},l |-> 32]),
    ([bad |-> {15, 23, 31},l |-> 33]),
    ([bad |-> {15, 23, 31},l |-> 34]),
    ([bad |-> {15, 23, 31},l |-> 35]),
    ([bad |-> {15, 23, 31},l |-> 36]),
    ([bad |-> {15, 23, 31},l |-> 37]),
    ([bad |-> {15, 23, 31},l |-> 38]),
    ([bad |-> {15, 23, 31},l |-> 39]),
    ([bad |-> {15, 23, 31},l |-> 40]),
    ([bad |-> {15, 23, 31},l |-> 41]),
    ([bad |-> {15, 23, 31},l |-> 42]),
    ([bad |-> {15, 23, 31},l |-> 43]),
    ([bad |-> {15, 23, 31},l |-> 44]),
    ([bad |-> {15, 23, 31},l |-> 45]),
    ([bad |-> {15, 23, 31},l |-> 46]),
    ([bad |-> {15, 23, 31},l |-> 47]),
    ([bad |-> {15, 23, 31, 47},l |-> 48]),
    ([bad |-> {15, 23, 31, 47},l |-> 49]),
    ([bad |-> {15, 23, 31, 47},l |-> 50]),
    ([bad |-> {15, 23, 31, 47},l |-> 51]),
    ([bad |-> {15, 23, 31, 47},l |-> 52]),
    ([bad |-> {15, 23, 31, 47},l |-> 53]),
    ([bad |-> {15, 23, 31, 47},l |-> 54]),
    ([bad |-> {15, 23, 31, 47},l |-> 55]),
    ([bad |-> {15, 23, 31, 47},l |-> 56]),
    ([bad |-> {15, 23, 31, 47},l |-> 57]),
    ([bad |-> {15, 23, 31, 47},l |-> 58]),
    ([bad |-> {15, 23, 31, 47},l |-> 59]),
    ([bad |-> {15, 23, 31, 47},l |-> 60]),
    ([bad |-> {15, 23, 31, 47},l |-> 61]),
    ([bad |-> {15, 23, 31, 47},l |-> 62]),
    ([bad |-> {15, 23, 31, 47},l |-> 63]),
    ([bad |-> {15, 23, 31, 47},l |-> 64]),
    ([bad |-> {15, 23, 31, 47},l |-> 65]),
    ([bad |-> {15, 23, 31, 47},l |-> 66]),
    ([bad |-> {15, 23, 31, 47},l |-> 67]),
    ([bad |-> {15, 23, 31, 47},l |-> 68]),
    ([bad |-> {15, 23, 31, 47},l |-> 69]),
    ([bad |-> {15, 23, 31, 47},l |-> 70]),
    ([bad |-> {15, 23, 31, 47},l |-> 71]),
    ([bad |-> {15, 23, 31, 47},l |-> 72]),
    ([bad |-> {15, 23, 31, 47},l |-> 73])
    >>
----


=============================================================================

---- CONFIG Reim4Trace_TTrace_1790561537 ----

INVARIANT
    _inv

CHECK_DEADLOCK
    \* CHECK_DEADLOCK off because of PROPERTY or INVARIANT above.
    FALSE

INIT
    _init

NEXT
    _next

CONSTANT
    _TETrace <- _trace

ALIAS
    _expression
=============================================================================
\* Generated on Mon Sep 28 02:12:19 UTC 2026