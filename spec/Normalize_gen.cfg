SPECIFICATION Spec
CONSTANTS
  Ks = {1, 2}
  ASizes = {0, 1, 2, 3}
  RSizes = {0, 1, 2, 3, 4}
  Spread = 0
  GenMode = TRUE
INVARIANTS AlgoEqDef AllWritten NoOob Dump
