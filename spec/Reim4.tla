------------------------------- MODULE Reim4 -------------------------------
(* C17: block layouts of complex vectors.  A "reim" vector of m complex     *)
(* numbers stores the m real parts then the m imaginary parts; the reim4    *)
(* layout groups evaluations four by four: 4 real parts then 4 imaginary    *)
(* parts.  The kernels are pure index maps; they are written here as        *)
(* address maps exactly as coded (reim4_arithmetic_ref.c / _avx2.c,         *)
(* reim4_fftvec_conv_ref.c / _fma.c) next to their definitions, checked on  *)
(* a small box by ASSUMEs, and printed as cases that are replayed on every  *)
(* variant of the real kernels with injective probes.                       *)
EXTENDS Integers, Sequences, FiniteSets, TLC, Json

Ms == {4, 8, 16}
BigMs == {4, 8, 16, 32, 64, 128, 256}          \* thorough tier: substituted for Ms by the configuration file

\* ---- definitions: where evaluation j of row r lives in a (possibly strided) array of reim vectors
Re(m, sl, r, j) == r * sl + j
Im(m, sl, r, j) == r * sl + m + j
\* block blk of one row, as 8 source addresses: 4 real parts then 4 imaginary parts of evaluations 4 blk .. 4 blk + 3
DefBlock(m, sl, r, blk) == [t \in 0 .. 7 |-> IF t < 4 THEN Re(m, sl, r, 4 * blk + t) ELSE Im(m, sl, r, 4 * blk + t - 4)]

\* ---- as coded
\* reim4_extract_1blk_from_reim: dst[0..3] = src[4 blk ..], dst[4..7] = src[4 blk + m ..]
ExtractBlk(m, blk) == [t \in 0 .. 7 |-> IF t < 4 THEN 4 * blk + t ELSE 4 * blk + m + (t - 4)]
\* reim4_extract_1blk_from_contiguous_reim: 2 nrows groups of 4, source pointer advancing by m
ExtractContig(m, nrows, blk) == [t \in 0 .. 8 * nrows - 1 |-> 4 * blk + (t \div 4) * m + (t % 4)]
\* reim4_extract_1blk_from_contiguous_reim_sl: rows sl apart, real group then imaginary group m further
ExtractStrided(m, sl, nrows, blk) ==
  [t \in 0 .. 8 * nrows - 1 |-> LET r == t \div 8  u == t % 8 IN r * sl + 4 * blk + (IF u < 4 THEN u ELSE m + u - 4)]
\* reim4_save_1blk_to_reim: inverse of the extraction: destination address -> index in the 8-double block (or -1: untouched)
SaveBlk(m, blk) == [a \in 0 .. 2 * m - 1 |-> IF a >= 4 * blk /\ a < 4 * blk + 4 THEN a - 4 * blk
                                             ELSE IF a >= m + 4 * blk /\ a < m + 4 * blk + 4 THEN 4 + a - m - 4 * blk ELSE -1]

LayoutOk ==
  \A m \in Ms : \A blk \in 0 .. m \div 4 - 1 :
    /\ ExtractBlk(m, blk) = DefBlock(m, 2 * m, 0, blk)
    /\ \A a \in 0 .. 2 * m - 1 : SaveBlk(m, blk)[a] # -1 => ExtractBlk(m, blk)[SaveBlk(m, blk)[a]] = a       \* save o extract = id
    /\ \A t \in 0 .. 7 : SaveBlk(m, blk)[ExtractBlk(m, blk)[t]] = t
    /\ \A nrows \in 0 .. 3 :
         /\ \A t \in 0 .. 8 * nrows - 1 : ExtractContig(m, nrows, blk)[t] = DefBlock(m, 2 * m, t \div 8, blk)[t % 8]
         /\ \A sl \in {2 * m, 2 * m + 2, 4 * m} :
              \A t \in 0 .. 8 * nrows - 1 : ExtractStrided(m, sl, nrows, blk)[t] = DefBlock(m, sl, t \div 8, blk)[t % 8]
ASSUME LayoutOk

\* ---- interleaved complex <-> reim4 (reim4_from_cplx / reim4_to_cplx, table dimension = m)
\* destination double index -> source double index, for the whole vector of m complex numbers
FromCplx(m) == [d \in 0 .. 2 * m - 1 |->
  LET b == d \div 8  u == d % 8
      c == IF u % 4 = 0 THEN 0 ELSE IF u % 4 = 1 THEN 2 ELSE IF u % 4 = 2 THEN 1 ELSE 3      \* complex number inside the block
  IN 8 * b + 2 * c + (IF u < 4 THEN 0 ELSE 1)]
ToCplx(m) == [d \in 0 .. 2 * m - 1 |->
  LET b == d \div 8  u == d % 8  c == u \div 2  part == u % 2
      pos == IF c = 0 THEN 0 ELSE IF c = 1 THEN 2 ELSE IF c = 2 THEN 1 ELSE 3
  IN 8 * b + 4 * part + pos]
CplxRoundTrip == \A m \in Ms : \A d \in 0 .. 2 * m - 1 : FromCplx(m)[ToCplx(m)[d]] = d /\ ToCplx(m)[FromCplx(m)[d]] = d
ASSUME CplxRoundTrip

\* ---- convolution window of reim4_convolution_1coeff: indices j multiplied for output coefficient k
WindowAsCoded(k, sa, sb) ==
  IF k >= sa + sb THEN {} ELSE
  LET jmin == IF k >= sa THEN k + 1 - sa ELSE 0
      jmax == IF k < sb THEN k + 1 ELSE sb
  IN jmin .. jmax - 1
WindowDef(k, sa, sb) == {j \in 0 .. sb - 1 : k - j >= 0 /\ k - j < sa}
WindowOk == \A sa, sb \in 0 .. 4 : \A k \in 0 .. 10 : WindowAsCoded(k, sa, sb) = WindowDef(k, sa, sb)
ASSUME WindowOk

=============================================================================
