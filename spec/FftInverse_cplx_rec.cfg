SPECIFICATION ISpec
CONSTANTS
  Ms = {64}
  RecThreshold = 32
  Layout = "cplx"
  GenMode = FALSE
INVARIANTS IWellFormed InverseIsInverse
CHECK_DEADLOCK FALSE
