----------------------------- MODULE Pointwise -----------------------------
(* Pointwise complex multiply / multiply-accumulate on vectors of m complex *)
(* numbers (the reim, cplx and reim4 fftvec kernels), for C13 (r = a        *)
(* or r = b must give the out-of-place result), C17 (definition) and C18.   *)
(*                                                                          *)
(* Code shape: the vector is processed in blocks of W complex numbers; a    *)
(* block is loaded completely (a, b and, for the accumulate form, r), then  *)
(* stored.  Memory is a set of buffers; operands are buffer names, so r = a *)
(* means the very same cells.  Values are Gaussian integers <<re, im>>.     *)
EXTENDS Integers, Sequences, TLC, Json

CONSTANTS Ms, Ws, GenMode

VARIABLES kind, alias, m, w,        \* "mul" | "addmul";  "none" | "ra" | "rb" | "rab" | "ab";  length;  block width
          mem,                      \* [buffer -> [0..m-1 -> <<re, im>>]]
          blk, pc
vars == <<kind, alias, m, w, mem, blk, pc>>

CMul(x, y) == <<x[1] * y[1] - x[2] * y[2], x[1] * y[2] + x[2] * y[1]>>
CAdd(x, y) == <<x[1] + y[1], x[2] + y[2]>>

\* injective initial data: every cell differs, so a stale or misplaced read changes the result
InitBuf(b, n) == [j \in 0 .. n - 1 |-> CASE b = "R" -> <<5 + j, -3 - 2 * j>> [] b = "A" -> <<j + 1, 2 - j>> [] OTHER -> <<3 - j, 2 * j + 1>>]
RBuf == "R"
ABuf == IF alias \in {"ra", "rab"} THEN "R" ELSE "A"
BBuf == CASE alias \in {"rb", "rab"} -> "R" [] alias = "ab" -> ABuf [] OTHER -> "B"

Init ==
  /\ kind \in {"mul", "addmul"} /\ alias \in {"none", "ra", "rb", "rab", "ab"}
  /\ m \in Ms /\ w \in {x \in Ws : m % x = 0}
  /\ mem = [b \in {"R", "A", "B"} |-> InitBuf(b, m)]
  /\ blk = 0 /\ pc = "loop"

Block ==
  /\ pc = "loop"
  /\ IF blk * w < m
     THEN LET js == blk * w .. blk * w + w - 1
              la == [j \in js |-> mem[ABuf][j]]          \* loads happen before the stores of the block
              lb == [j \in js |-> mem[BBuf][j]]
              lr == [j \in js |-> mem[RBuf][j]]
              nv(j) == IF kind = "mul" THEN CMul(la[j], lb[j]) ELSE CAdd(lr[j], CMul(la[j], lb[j]))
          IN /\ mem' = [mem EXCEPT ![RBuf] = [j \in 0 .. m - 1 |-> IF j \in js THEN nv(j) ELSE mem[RBuf][j]]]
             /\ blk' = blk + 1 /\ pc' = "loop"
     ELSE pc' = "done" /\ UNCHANGED <<mem, blk>>
  /\ UNCHANGED <<kind, alias, m, w>>

Done == pc = "done" /\ UNCHANGED vars
Next == Block \/ Done
Spec == Init /\ [][Next]_vars

\* definition, on the pre-state
A0(j) == InitBuf(ABuf, m)[j]
B0(j) == InitBuf(BBuf, m)[j]
R0(j) == InitBuf("R", m)[j]
DefR == [j \in 0 .. m - 1 |-> IF kind = "mul" THEN CMul(A0(j), B0(j)) ELSE CAdd(R0(j), CMul(A0(j), B0(j)))]
AlgoEqDef == pc = "done" => mem["R"] = DefR
SourcesKept == \A b \in {"A", "B"} : mem[b] = InitBuf(b, m)        \* C18: only r is written, at every step

AsSeq(f, n) == [x \in 1 .. n |-> f[x - 1]]
Dump == (GenMode /\ pc = "done" /\ w = 1) =>
  PrintT(<<"CASE", ToJson([kind |-> kind, alias |-> alias, m |-> m, a |-> AsSeq(InitBuf(ABuf, m), m), b |-> AsSeq(InitBuf(BBuf, m), m),
                           r0 |-> AsSeq(InitBuf("R", m), m), r |-> AsSeq(mem["R"], m)])>>)
=============================================================================
