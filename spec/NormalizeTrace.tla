-------------------------- MODULE NormalizeTrace --------------------------
(* Trace validation for C05: recorded calls of the real normalisation entry *)
(* points (one event per coefficient column) and of the one-limb primitive  *)
(* are re-computed on Wide integers from the definitions of Base2k.         *)
(*   Norm: k, a (limbs, most significant first, int64 as 4 words) or        *)
(*         big + range [begin, end, step], rs, res (rs limbs)               *)
(*   Prim: k, x, cin (optional), out (optional), cout (optional)            *)
EXTENDS Base2k, TLC, Json, IOUtils

Tr == ndJsonDeserialize(IOEnv.TRACE)
VARIABLES l, bad
Has(ev, f) == f \in DOMAIN ev

Limbs(ws) == [j \in 1 .. Len(ws) |-> WFromIWords(ws[j])]

RangeSel(big, r) ==   \* limbs begin, begin+step, ... < end (0-based) of the big vector
  LET b == r[1]  e == r[2]  st == r[3]
      S == {x \in b .. e - 1 : (x - b) % st = 0}
  IN [j \in 1 .. Cardinality(S) |-> big[b + (j - 1) * st + 1]]

NormOk(ev) ==
  LET a == IF Has(ev, "big") THEN Limbs(RangeSel(ev.big, ev.range)) ELSE Limbs(ev.a)
      ex == WDefNormalize(a, ev.k, ev.rs)
  IN /\ Len(ev.res) = ev.rs
     /\ \A j \in 1 .. ev.rs : WFromIWords(ev.res[j]) = ex[j]

PrimOk(ev) ==
  LET x == WFromIWords(ev.x)
      c == IF Has(ev, "cin") THEN WFromIWords(ev.cin) ELSE WZero
      s == WAdd(x, c)
  IN /\ Has(ev, "out") => WFromIWords(ev.out) = WDigit(s, ev.k)
     /\ Has(ev, "cout") => WFromIWords(ev.cout) = WCarry(s, ev.k)

EventOk(ev) == CASE ev.e = "Norm" -> NormOk(ev) [] ev.e = "Prim" -> PrimOk(ev) [] OTHER -> FALSE

Init == l = 1 /\ bad = {}
Next == l <= Len(Tr) /\ l' = l + 1 /\ bad' = IF EventOk(Tr[l]) THEN bad ELSE bad \cup {l}
Spec == Init /\ [][Next]_<<l, bad>>
Report == (l = Len(Tr) + 1) => PrintT(<<"RESULT", ToJson([n |-> Len(Tr), bad |-> SetToSeq(bad)])>>)
=============================================================================
