CONSTANT K = 19
INIT Init
NEXT Next
INVARIANT Inv
