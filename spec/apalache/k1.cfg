CONSTANT K = 1
INIT Init
NEXT Next
INVARIANT Inv
