CONSTANT K = 62
INIT Init
NEXT Next
INVARIANT Inv
