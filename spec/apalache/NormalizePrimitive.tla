------------------------ MODULE NormalizePrimitive ------------------------
(* Unbounded obligation for C05 (Apalache): the one-limb primitive of       *)
(* znx_normalize satisfies  in + carry_in = out + carry_out * 2^K  with     *)
(* out in [-2^(K-1), 2^(K-1))  for EVERY 62-bit x and carry and a fixed K.  *)
(* Same Digit / Carry / Prim as Base2k.tla / Normalize.tla (typed copy).    *)
EXTENDS Integers

CONSTANT
  \* @type: Int;
  K

VARIABLES
  \* @type: Int;
  x,
  \* @type: Int;
  cin

P2K == 2 ^ K
Digit(v) == LET r == v % P2K IN IF r >= P2K \div 2 THEN r - P2K ELSE r
Carry(v) == (v - Digit(v)) \div P2K

Lim == 2 ^ 62
Init == x \in (-Lim) .. Lim /\ cin \in (-Lim) .. Lim
Next == UNCHANGED <<x, cin>>

\* with carry-in: digit of x, then second extraction after adding the carry (as coded)
Y == Digit(Digit(x) + cin)
Cout == Carry(x) + Carry(Digit(x) + cin)
Inv == /\ x + cin = Y + Cout * P2K
       /\ -(P2K \div 2) <= Y /\ Y < P2K \div 2
       \* without carry-in
       /\ x = Digit(x) + Carry(x) * P2K
       /\ -(P2K \div 2) <= Digit(x) /\ Digit(x) < P2K \div 2
=============================================================================
