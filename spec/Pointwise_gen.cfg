SPECIFICATION Spec
CONSTANTS
  Ms = {1, 2, 4, 8, 16}
  Ws = {1}
  GenMode = TRUE
INVARIANTS AlgoEqDef Dump
