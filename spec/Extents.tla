------------------------------ MODULE Extents ------------------------------
(* Declared extents of the public entry points (C11, C18): which operands a *)
(* call may write, how much scratch it may use, how large objects are.      *)
(* Transcribed from the documentation in vec_znx_arithmetic.h; the          *)
(* *_tmp_bytes and bytes_of_* formulas are the ones the code implements     *)
(* (vector_matrix_product.c, vec_znx.c, vec_znx_dft.c, znx_small.c).        *)
EXTENDS Integers, Sequences, FiniteSets

Min2x(a, b) == IF a < b THEN a ELSE b

\* roles of the objects named in a call: "res" (output), "src" (input), "table" (module and precomputed tables),
\* "other" (not an argument).  An object that is both output and input (in-place call) has role "res".
\* Roles a call may modify:
WritableRoles(op) ==
  IF op = "vec_znx_idft_tmp_a" THEN {"res", "src"}       \* documented: the DFT input is used as scratch
  ELSE {"res"}

\* scratch requirement in bytes
TmpBytes(op, N, nrows, ncols, a_size, res_size, modtype) ==
  CASE op \in {"vec_znx_normalize_base2k", "vec_znx_big_normalize_base2k", "vec_znx_big_range_normalize_base2k"} -> 8 * N
    [] op = "vec_znx_idft" -> IF modtype = "FFT64" THEN 0 ELSE 32 * N
    [] op = "znx_small_single_product" -> 16 * N
    [] op = "vmp_prepare_contiguous" -> 8 * N
    [] op = "vmp_apply_dft" -> 8 * N * Min2x(nrows, a_size) + 128 + 64 * Min2x(nrows, a_size)
    [] op = "vmp_apply_dft_to_dft" -> 128 + 64 * Min2x(nrows, a_size)
    [] OTHER -> 0

\* object sizes in bytes
BytesOf(kind, N, size, nrows, ncols, modtype) ==
  CASE kind = "dft" -> (IF modtype = "FFT64" THEN 8 ELSE 32) * N * size
    [] kind = "big" -> (IF modtype = "FFT64" THEN 8 ELSE 16) * N * size
    [] kind = "ppol" -> 8 * N
    [] kind = "pmat" -> 8 * N * nrows * ncols
    [] OTHER -> 0
=============================================================================
