SPECIFICATION Spec
CONSTANTS
  Ms = {4096}
  RecThreshold = 2048
  Layout = "reim"
  GenMode = FALSE
INVARIANTS WellFormed OneMonomialPerInput IsEvalMap FullMixing
CHECK_DEADLOCK FALSE
