
