------------------------- MODULE SimpleCacheTrace -------------------------
(* Trace validation for C12 / C15: a recorded multi-threaded execution of   *)
(* the real library (hook events of the cache slots, Enter/Exit events of   *)
(* every call, all totally ordered by the global sequence number taken      *)
(* inside the hook) is replayed against the rules of SimpleCache.tla:       *)
(*  P1  no cache-slot event between Enter and Exit of a module-level or     *)
(*      table-level call on the same thread (they must not reach a cache);  *)
(*  P2  after WarmupDone no miss (= write) on a process-wide slot;          *)
(*  P3  every call returns the same output hash as every other execution of *)
(*      the same call, the sequential ones included;                        *)
(*  C15 the table a *_simple call uses has the parameters of that call.     *)
(*  A reported data race (TSan observer, warm runs only) is illegal.        *)
(* Events: Enter/Exit (cls "mod"|"simple", tid, op, h1, h2, params),        *)
(*         Miss/Use (tid, slot, idx, m, div, bnd), WarmupDone, Race.        *)
EXTENDS Integers, Sequences, SequencesExt, FiniteSets, TLC, Json, IOUtils

Tr == ndJsonDeserialize(IOEnv.TRACE)
VARIABLES l, bad, cur, warm, ref
\* cur: tid -> current call record or "none";  ref: op -> <<h1, h2>> of its first completed execution
ThreadLocal == {6, 13}
Has(ev, f) == f \in DOMAIN ev
NoneCall == [cls |-> "none", op |-> -1]
CurOf(t) == IF t \in DOMAIN cur THEN cur[t] ELSE NoneCall

Ok(ev) ==
  CASE ev.e = "Enter" -> CurOf(ev.tid).cls = "none"
    [] ev.e = "Exit" -> /\ CurOf(ev.tid).cls = ev.cls /\ CurOf(ev.tid).op = ev.op
                        /\ (ev.op \in DOMAIN ref => ref[ev.op] = <<ev.h1, ev.h2>>)                      \* P3
    [] ev.e \in {"Miss", "Use"} ->
         /\ CurOf(ev.tid).cls = "simple"                                                            \* P1
         /\ (ev.e = "Miss" /\ warm => ev.slot \in ThreadLocal)                                      \* P2
         /\ (ev.e = "Use" =>
               /\ (ev.slot # 6 => ev.m = 2 ^ ev.idx)                                                \* C15: dimension
               /\ (ev.slot \in ThreadLocal /\ Has(CurOf(ev.tid), "m") =>
                     ev.m = CurOf(ev.tid).m /\ ev.div = CurOf(ev.tid).div /\ ev.bnd = CurOf(ev.tid).bnd))
    [] ev.e = "WarmupDone" -> TRUE
    [] ev.e = "Race" -> FALSE
    [] OTHER -> FALSE

Init == l = 1 /\ bad = {} /\ cur = <<>> /\ warm = FALSE /\ ref = <<>>
Next ==
  /\ l <= Len(Tr)
  /\ LET ev == Tr[l] IN
     /\ bad' = IF Ok(ev) THEN bad ELSE bad \cup {l}
     /\ cur' = CASE ev.e = "Enter" -> (ev.tid :> ev) @@ cur
                 [] ev.e = "Exit" -> (ev.tid :> NoneCall) @@ cur
                 [] OTHER -> cur
     /\ warm' = (warm \/ ev.e = "WarmupDone")
     /\ ref' = IF ev.e = "Exit" /\ ev.op \notin DOMAIN ref THEN (ev.op :> <<ev.h1, ev.h2>>) @@ ref ELSE ref
  /\ l' = l + 1
Spec == Init /\ [][Next]_<<l, bad, cur, warm, ref>>
Report == (l = Len(Tr) + 1) => PrintT(<<"RESULT", ToJson([n |-> Len(Tr), bad |-> SetToSeq(bad)])>>)
=============================================================================
