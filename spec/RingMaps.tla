----------------------------- MODULE RingMaps -----------------------------
(* C09 (and the in-place half of C13): rotation, automorphism and (X^p-1)   *)
(* product of coeffs_arithmetic.c as code-shaped machines over formal sums  *)
(* of signed input indices (NegaRing, signed-index view), next to their     *)
(* definitions.  The maps never branch on data, so the signed-index state   *)
(* is the behaviour on all inputs.                                          *)
(*                                                                          *)
(* One behaviour = one call  fn(nn, p, ...) ; in-place walks are modelled   *)
(* one move per step (that is where a wrong cycle leader, a wrong special   *)
(* orbit or a missing sign would sit), the straight copy loops of the       *)
(* out-of-place rotation one loop per step.  znx (int64) and rnx (double)   *)
(* variants have the same control flow and share the machine.               *)
EXTENDS NegaRing, TLC, Json

CONSTANTS Ns,        \* set of ring dimensions explored (powers of two)
          Fns,       \* subset of AllFns
          GenMaxN    \* final states with nn <= GenMaxN are printed as JSON cases (0 = none)

AllFns == {"rotate", "rotate_inplace", "mulxp", "mulxp_inplace", "automorphism", "automorphism_inplace"}
InPlace(f) == f \in {"rotate_inplace", "mulxp_inplace", "automorphism_inplace"}
IsAut(f) == f \in {"automorphism", "automorphism_inplace"}

VARIABLES fn, nn, p,      \* the call
          res,            \* output buffer (= input buffer for in-place calls): 0..nn-1 -> formal sum
          pc, a, i, j, jstart, nbmod, t1, t2, binval, vp, orb,   \* locals of the C code
          oob             \* ghost: an index outside 0..nn-1 was used
vars == <<fn, nn, p, res, pc, a, i, j, jstart, nbmod, t1, t2, binval, vp, orb, oob>>

Poison == <<0>>             \* content of an output cell that has not been written
In(n) == FIdent(n)          \* the source of an out-of-place call
Ok(n, x) == x \in Idx(n)
Rd(v, n, x) == IF Ok(n, x) THEN v[x] ELSE Poison

Def(f, n, q) ==
  CASE f \in {"rotate", "rotate_inplace"} -> FRotate(n, q)
    [] f \in {"mulxp", "mulxp_inplace"} -> FMulXpMinusOne(n, q)
    [] OTHER -> FAutomorphism(n, q)

Init ==
  /\ fn \in Fns
  /\ nn \in Ns
  /\ p \in {q \in 0 .. 2 * nn - 1 : IsAut(fn) => q % 2 = 1}
  /\ res = IF InPlace(fn) THEN FIdent(nn) ELSE [x \in Idx(nn) |-> Poison]
  /\ pc = "start"
  /\ a = 0 /\ i = 0 /\ j = 0 /\ jstart = 0 /\ nbmod = 0 /\ t1 = <<>> /\ t2 = <<>>
  /\ binval = 0 /\ vp = 0 /\ orb = 0
  /\ oob = FALSE

-----------------------------------------------------------------------------
\* znx_rotate_i64 / rnx_rotate_f64 / znx_mul_xp_minus_one / rnx_mul_xp_minus_one
Sub0(x, jj) == IF fn = "mulxp" THEN FSub(x, In(nn)[jj]) ELSE x

RotStart ==
  /\ pc = "start" /\ fn \in {"rotate", "mulxp"}
  /\ a' = (-p) % (2 * nn)
  /\ pc' = "loop1"
  /\ UNCHANGED <<fn, nn, p, res, i, j, jstart, nbmod, t1, t2, binval, vp, orb, oob>>

RotLoop1 ==
  /\ pc = "loop1"
  /\ LET left == a < nn
         aa == IF left THEN a ELSE a - nn
         nma == nn - aa
     IN /\ res' = [jj \in Idx(nn) |->
                     IF jj < nma THEN Sub0(FScale(IF left THEN 1 ELSE -1, Rd(In(nn), nn, jj + aa)), jj)
                     ELSE res[jj]]
        /\ oob' = (oob \/ \E jj \in 0 .. nma - 1 : ~Ok(nn, jj + aa))
  /\ pc' = "loop2"
  /\ UNCHANGED <<fn, nn, p, a, i, j, jstart, nbmod, t1, t2, binval, vp, orb>>

RotLoop2 ==
  /\ pc = "loop2"
  /\ LET left == a < nn
         aa == IF left THEN a ELSE a - nn
         nma == nn - aa
     IN /\ res' = [jj \in Idx(nn) |->
                     IF jj >= nma THEN Sub0(FScale(IF left THEN -1 ELSE 1, Rd(In(nn), nn, jj - nma)), jj)
                     ELSE res[jj]]
        /\ oob' = (oob \/ \E jj \in nma .. nn - 1 : ~Ok(nn, jj - nma))
  /\ pc' = "done"
  /\ UNCHANGED <<fn, nn, p, a, i, j, jstart, nbmod, t1, t2, binval, vp, orb>>

-----------------------------------------------------------------------------
\* znx_rotate_inplace_i64 / rnx_rotate_inplace_f64 / rnx_mul_xp_minus_one_inplace
InplStart ==
  /\ pc = "start" /\ fn \in {"rotate_inplace", "mulxp_inplace"}
  /\ nbmod' = 0 /\ jstart' = 0 /\ pc' = "while"
  /\ UNCHANGED <<fn, nn, p, res, a, i, j, t1, t2, binval, vp, orb, oob>>

InplWhile ==
  /\ pc = "while" /\ fn \in {"rotate_inplace", "mulxp_inplace"}
  /\ IF nbmod < nn
     THEN /\ j' = jstart /\ t1' = Rd(res, nn, jstart) /\ oob' = (oob \/ ~Ok(nn, jstart))
          /\ pc' = "move"
     ELSE /\ pc' = "done" /\ UNCHANGED <<j, t1, oob>>
  /\ UNCHANGED <<fn, nn, p, res, a, i, jstart, nbmod, t2, binval, vp, orb>>

InplMove ==
  /\ pc = "move" /\ fn \in {"rotate_inplace", "mulxp_inplace"}
  /\ LET newj == (j + p) % (2 * nn)
         njn == newj % nn
         moved == FScale(IF newj < nn THEN 1 ELSE -1, t1)
     IN /\ t1' = res[njn]                            \* tmp2 = res[new_j_n]; ...; tmp1 = tmp2
        /\ res' = [res EXCEPT ![njn] = IF fn = "mulxp_inplace" THEN FSub(moved, res[njn]) ELSE moved]
        /\ nbmod' = nbmod + 1
        /\ j' = njn
        /\ IF njn # jstart THEN pc' = "move" /\ jstart' = jstart
                           ELSE pc' = "while" /\ jstart' = jstart + 1
  /\ UNCHANGED <<fn, nn, p, a, i, t2, binval, vp, orb, oob>>

-----------------------------------------------------------------------------
\* znx_automorphism_i64 / rnx_automorphism_f64
AutStart ==
  /\ pc = "start" /\ fn = "automorphism"
  /\ res' = [res EXCEPT ![0] = In(nn)[0]]
  /\ a' = 0 /\ i' = 1 /\ pc' = "aloop"
  /\ UNCHANGED <<fn, nn, p, j, jstart, nbmod, t1, t2, binval, vp, orb, oob>>

AutLoop ==
  /\ pc = "aloop"
  /\ IF i < nn
     THEN LET na == (a + p) % (2 * nn) IN
          /\ a' = na
          /\ res' = IF na < nn THEN [res EXCEPT ![na] = In(nn)[i]]
                               ELSE [res EXCEPT ![na - nn] = FNeg(In(nn)[i])]
          /\ i' = i + 1 /\ pc' = "aloop"
     ELSE pc' = "done" /\ UNCHANGED <<a, res, i>>
  /\ UNCHANGED <<fn, nn, p, j, jstart, nbmod, t1, t2, binval, vp, orb, oob>>

-----------------------------------------------------------------------------
\* znx_automorphism_inplace_i64 / rnx_automorphism_inplace_f64
M == nn \div 2
AipStart ==
  /\ pc = "start" /\ fn = "automorphism_inplace"
  /\ binval' = 1 /\ vp' = p % (2 * nn) /\ orb' = M /\ pc' = "for"
  /\ UNCHANGED <<fn, nn, p, res, a, i, j, jstart, nbmod, t1, t2, oob>>

AipNextBinval == /\ binval' = 2 * binval /\ vp' = (2 * vp) % (2 * nn) /\ orb' = orb \div 2

AipFor ==
  /\ pc = "for"
  /\ IF ~(binval < nn) \/ vp = binval
     THEN pc' = "done" /\ UNCHANGED <<res, binval, vp, orb, jstart, nbmod>>
     ELSE IF (vp + binval) % (2 * nn) = 0               \* p*binval = -binval: nega-mirror, return
     THEN LET J == {x \in binval .. M - 1 : x % binval = 0} IN
          /\ res' = [x \in Idx(nn) |-> IF x \in J \/ (nn - x) \in J THEN FNeg(res[nn - x])
                                       ELSE IF x = M THEN FNeg(res[M]) ELSE res[x]]
          /\ pc' = "done" /\ UNCHANGED <<binval, vp, orb, jstart, nbmod>>
     ELSE IF (vp - binval) % nn = 0                      \* p*binval = binval+n: negate orbit, return
     THEN /\ res' = [x \in Idx(nn) |-> IF x >= binval /\ (x - binval) % (2 * binval) = 0
                                       THEN FNeg(res[x]) ELSE res[x]]
          /\ pc' = "done" /\ UNCHANGED <<binval, vp, orb, jstart, nbmod>>
     ELSE IF (vp + binval) % nn = 0                      \* p*binval = n-binval: mirror orbit, continue
     THEN LET J == {x \in binval .. M - 1 : (x - binval) % (2 * binval) = 0} IN
          /\ res' = [x \in Idx(nn) |-> IF x \in J \/ (nn - x) \in J THEN res[nn - x] ELSE res[x]]
          /\ AipNextBinval /\ pc' = "for" /\ UNCHANGED <<jstart, nbmod>>
     ELSE /\ jstart' = binval /\ nbmod' = 0 /\ pc' = "awhile"
          /\ UNCHANGED <<res, binval, vp, orb>>
  /\ UNCHANGED <<fn, nn, p, a, i, j, t1, t2, oob>>

AipWhile ==
  /\ pc = "awhile"
  /\ IF nbmod < orb
     THEN /\ j' = jstart /\ t1' = Rd(res, nn, jstart) /\ t2' = Rd(res, nn, nn - jstart)
          /\ oob' = (oob \/ ~Ok(nn, jstart) \/ ~Ok(nn, nn - jstart))
          /\ pc' = "cyc" /\ UNCHANGED <<binval, vp, orb>>
     ELSE /\ AipNextBinval /\ pc' = "for" /\ UNCHANGED <<j, t1, t2, oob>>
  /\ UNCHANGED <<fn, nn, p, res, a, i, jstart, nbmod>>

AipCyc ==
  /\ pc = "cyc"
  /\ LET newj == MulMod(j, p % (2 * nn), 2 * nn)
         njn == newj % nn
         sg == IF newj < nn THEN 1 ELSE -1
         bad == ~Ok(nn, nn - njn)
     IN /\ t1' = res[njn] /\ t2' = Rd(res, nn, nn - njn)
        /\ oob' = (oob \/ bad)
        /\ res' = IF bad THEN [res EXCEPT ![njn] = FScale(sg, t1)]
                  ELSE [res EXCEPT ![njn] = FScale(sg, t1), ![nn - njn] = FScale(sg, t2)]
        /\ nbmod' = nbmod + 2
        /\ j' = njn
        /\ IF njn # jstart THEN pc' = "cyc" /\ jstart' = jstart
                           ELSE pc' = "awhile" /\ jstart' = (5 * jstart) % nn
  /\ UNCHANGED <<fn, nn, p, a, i, binval, vp, orb>>

-----------------------------------------------------------------------------
Done == pc = "done" /\ UNCHANGED vars

Next == RotStart \/ RotLoop1 \/ RotLoop2 \/ InplStart \/ InplWhile \/ InplMove
        \/ AutStart \/ AutLoop \/ AipStart \/ AipFor \/ AipWhile \/ AipCyc \/ Done

Spec == Init /\ [][Next]_vars
FairSpec == Spec /\ WF_vars(Next)

\* ---- properties
Correct == pc = "done" => res = Def(fn, nn, p)
NoOob == ~oob
Bounded == nbmod <= nn                 \* a cycle walk that never closes keeps counting
Terminates == <>(pc = "done")

\* every in-place call returns what the out-of-place call returns (C13), by definition of Def:
\* both are compared with the same Def(fn-without-suffix, nn, p).

\* group laws, checked on the definitions (small scope): rotations compose additively,
\* automorphisms multiplicatively modulo 2N
Compose(f, g, n) == [x \in Idx(n) |-> LET s == f[x][1] IN FScale(Sgn(s), g[Abs(s) - 1])]
GroupLaws ==
  \A n \in {m \in Ns : m <= 16} :
     /\ \A q1, q2 \in 0 .. 2 * n - 1 : Compose(FRotate(n, q1), FRotate(n, q2), n) = FRotate(n, (q1 + q2) % (2 * n))
     /\ \A q1, q2 \in {q \in 0 .. 2 * n - 1 : q % 2 = 1} :
          Compose(FAutomorphism(n, q1), FAutomorphism(n, q2), n) = FAutomorphism(n, (q1 * q2) % (2 * n))
ASSUME GroupLaws

\* ---- behaviour generation (direction A): the final state of each enumerated call, as JSON
AsSeq(f, n) == [x \in 1 .. n |-> f[x - 1]]
Dump == (pc = "done" /\ nn <= GenMaxN) =>
          PrintT(<<"CASE", ToJson([fn |-> fn, N |-> nn, p |-> p, res |-> AsSeq(res, nn)])>>)
=============================================================================
