CONSTANT P = 7
