-------------------------- MODULE PointwiseTrace --------------------------
(* Trace validation of recorded complex-vector kernel calls on integer-     *)
(* valued data (every floating-point operation is exact, so the expected    *)
(* output is the Gaussian-integer result):                                  *)
(*   Pw:   kind mul|addmul, a, b, r0, r   (lists of <<re, im>>)             *)
(*   Dot:  reim4 dot products: ncols 1|2, u (nrows groups of 4 complex),    *)
(*         v (nrows x ncols groups), r (ncols groups)                       *)
(*   Conv: reim4 convolution window: k, a (sizea groups), b (sizeb groups), *)
(*         r (one group) = sum_{i+j=k} a[i]*b[j]                            *)
EXTENDS Integers, Sequences, SequencesExt, FiniteSets, TLC, Json, IOUtils, Functions, Folds

Tr == ndJsonDeserialize(IOEnv.TRACE)
VARIABLES l, bad
CMul(x, y) == <<x[1] * y[1] - x[2] * y[2], x[1] * y[2] + x[2] * y[1]>>
CAdd(x, y) == <<x[1] + y[1], x[2] + y[2]>>
CSum(S, f(_)) == FoldFunctionOnSet(LAMBDA x, acc : CAdd(acc, x), <<0, 0>>, [i \in S |-> f(i)], S)

PwOk(ev) ==
  /\ Len(ev.r) = Len(ev.a)
  /\ \A j \in 1 .. Len(ev.a) :
       ev.r[j] = IF ev.kind = "mul" THEN CMul(ev.a[j], ev.b[j]) ELSE CAdd(ev.r0[j], CMul(ev.a[j], ev.b[j]))

\* u[i][c], v[i][col][c], r[col][c]: c in 1..4 lanes
DotOk(ev) ==
  \A col \in 1 .. ev.ncols : \A c \in 1 .. 4 :
     ev.r[col][c] = CSum(1 .. Len(ev.u), LAMBDA i : CMul(ev.u[i][c], ev.v[i][col][c]))

ConvOk(ev) ==
  LET sa == Len(ev.a)  sb == Len(ev.b)  k == ev.k
      S == {j \in 0 .. sb - 1 : k - j >= 0 /\ k - j < sa}
  IN \A c \in 1 .. 4 : ev.r[c] = CSum(S, LAMBDA j : CMul(ev.a[k - j + 1][c], ev.b[j + 1][c]))

EventOk(ev) == CASE ev.e = "Pw" -> PwOk(ev) [] ev.e = "Dot" -> DotOk(ev) [] ev.e = "Conv" -> ConvOk(ev) [] OTHER -> FALSE

Init == l = 1 /\ bad = {}
Next == l <= Len(Tr) /\ l' = l + 1 /\ bad' = IF EventOk(Tr[l]) THEN bad ELSE bad \cup {l}
Spec == Init /\ [][Next]_<<l, bad>>
Report == (l = Len(Tr) + 1) => PrintT(<<"RESULT", ToJson([n |-> Len(Tr), bad |-> SetToSeq(bad)])>>)
=============================================================================
