------------------------------ MODULE ToyFloat ------------------------------
(* C14, small-scope argument for the mantissa tricks of the accelerated     *)
(* conversions (reim_conversions_avx.c, reim_to_tnx_ref.c): the same        *)
(* algorithms in a toy binary floating-point format with a P-bit            *)
(* significand (binary64 has P = 53) and round-to-nearest-even, checked      *)
(* exhaustively over every toy value of the documented window.  The         *)
(* constants scale with P: 2^52 -> 2^(P-1), 3*2^51 -> 3*2^(P-2), the        *)
(* windows 2^50 -> 2^(P-3).  A dyadic value is <<n, e>> = n * 2^e.          *)
EXTENDS Integers, TLC

CONSTANT P
ASSUME P \in 6 .. 12

Abs(x) == IF x < 0 THEN -x ELSE x
RECURSIVE BitLen(_)
BitLen(n) == IF n = 0 THEN 0 ELSE 1 + BitLen(n \div 2)

\* exact sum of two dyadics, as <<n, e>> with the smaller exponent
DAdd(a, b) == LET e == IF a[2] < b[2] THEN a[2] ELSE b[2] IN <<a[1] * 2 ^ (a[2] - e) + b[1] * 2 ^ (b[2] - e), e>>
\* round a dyadic to P significant bits, ties to even
RN(v) ==
  LET n == v[1]  s == BitLen(Abs(n)) - P IN
  IF s <= 0 THEN v
  ELSE LET q == Abs(n) \div 2 ^ s  r == Abs(n) % 2 ^ s  half == 2 ^ (s - 1)
           up == r > half \/ (r = half /\ q % 2 = 1)
           qq == IF up THEN q + 1 ELSE q
       IN <<(IF n < 0 THEN -qq ELSE qq), v[2] + s>>
FAdd(a, b) == RN(DAdd(a, b))
\* integer value of a dyadic that is an integer
IntOf(v) == IF v[2] >= 0 THEN v[1] * 2 ^ v[2] ELSE v[1] \div 2 ^ (-v[2])
IsInt(v) == v[2] >= 0 \/ v[1] % 2 ^ (-v[2]) = 0
\* the integers nearest to a dyadic
Floor(v) == IF v[2] >= 0 THEN v[1] * 2 ^ v[2] ELSE v[1] \div 2 ^ (-v[2])       \* \div floors
Nearest(v) == {k \in {Floor(v), Floor(v) + 1} : 2 * Abs(k * 2 ^ (IF v[2] < 0 THEN -v[2] ELSE 0) - v[1] * 2 ^ (IF v[2] > 0 THEN v[2] ELSE 0))
                                                   <= 2 ^ (IF v[2] < 0 THEN -v[2] ELSE 0)}

\* every toy value with |x| < 2^lim
Toy(lim) == {<<n, e>> : n \in -(2 ^ P - 1) .. 2 ^ P - 1, e \in -(P + 2) .. 0}
InWindow(x, lim) == Abs(x[1]) * 2 ^ (x[2] + P + 2) < 2 ^ (lim + P + 2)

\* ---- reim_to_znx64_avx2_bnd50_fma (divisor 1): add 3*2^(P-2), keep the significand bits below the leading one, subtract 2^(P-2)
ToZnxTrick(x) ==
  LET t == FAdd(x, <<3 * 2 ^ (P - 2), 0>>)          \* lands in [2^(P-1), 2^P): ulp = 1
      mant == IntOf(t) - 2 ^ (P - 1)                \* the P-1 explicit significand bits read as an integer
  IN mant - 2 ^ (P - 2)
ToZnxOk == \A x \in Toy(P - 3) : InWindow(x, P - 3) => ToZnxTrick(x) \in Nearest(x)

\* ---- reim_from_znx64_bnd50_fma: integer x + 2^(P-2) written into the significand of 2^(P-1), minus 3*2^(P-2): exact, no rounding
FromZnxTrick(x) == IntOf(FAdd(<<2 ^ (P - 1) + (x + 2 ^ (P - 2)), 0>>, <<-3 * 2 ^ (P - 2), 0>>))
FromZnxOk == \A x \in -(2 ^ (P - 3)) + 1 .. 2 ^ (P - 3) - 1 : FromZnxTrick(x) = x

\* ---- reim_to_tnx (divisor 1, overhead ovh): add 0.5 + 6*2^ovh, keep the P-3-ovh low significand bits under the constant's
\* leading bits, subtract the constant: x minus a nearest integer, up to 2^(ovh - (P-3))
ToTnxTrick(x, ovh) ==
  LET cst == <<2 ^ (ovh + 1) * 6 + 1, -1>>                 \* 0.5 + 6 * 2^ovh
      t == FAdd(x, cst)                                    \* in [4*2^ovh, 8*2^ovh): ulp = 2^(ovh + 3 - P)
      ulpe == ovh + 3 - P
      nbits == P - 3 - ovh                                 \* 50 - log2overhead in binary64
      tn == t[1] * 2 ^ (t[2] - ulpe)                       \* t in units of ulp (t[2] >= ulpe after rounding into that binade)
      cn == cst[1] * 2 ^ (cst[2] - ulpe)                   \* the constant in the same units
      kept == (tn % (2 ^ nbits)) + (cn - (cn % (2 ^ nbits)))     \* low bits of t under the high bits of the constant
  IN <<kept - cn, ulpe>>                                   \* minus the constant
ToTnxOk == \A ovh \in 0 .. P - 5 : \A x \in Toy(ovh) :
   (Abs(x[1]) * 2 ^ (x[2] + P + 2) <= 2 ^ (ovh + P + 2) /\ FAdd(x, <<2 ^ (ovh + 1) * 6 + 1, -1>>)[2] >= ovh + 3 - P) =>
     LET r == ToTnxTrick(x, ovh)
         \* r must be x - n for an integer n with |r| <= 1/2 + tol, tol = 2^(ovh-(P-3)): i.e. x - r within tol of an integer
         d == DAdd(x, <<-r[1], r[2]>>)                       \* x - r
         sc == IF d[2] < 0 THEN -d[2] ELSE 0
         dn == d[1] * 2 ^ (IF d[2] > 0 THEN d[2] ELSE 0)     \* d = dn / 2^sc
         k == Floor(<<2 * dn + 2 ^ sc, -(sc + 1)>>)          \* round(d)
     IN Abs(dn - k * 2 ^ sc) * 2 ^ (P - 3 - ovh) <= 2 ^ sc /\ 2 * Abs(r[1]) * 2 ^ (P - 3 - ovh) <= (2 ^ (P - 3 - ovh) + 2) * 2 ^ (-r[2])
ASSUME ToZnxOk
ASSUME FromZnxOk
ASSUME ToTnxOk
=============================================================================
