SPECIFICATION Spec
CONSTANTS
  Sizes = {0, 1, 2, 3, 4}
  Strides = {"tight", "pad", "double"}
  Ops = {"zero", "copy", "negate", "add", "sub", "rotate", "automorphism", "big_add", "big_add_small", "big_add_small2", "big_sub", "big_sub_small_a", "big_sub_small_b", "big_sub_small2", "big_rotate", "big_automorphism"}
  GenMode = TRUE
INVARIANTS AlgoEqDef Dump

