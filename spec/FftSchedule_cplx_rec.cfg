SPECIFICATION Spec
CONSTANTS
  Ms = {64, 128, 256}
  RecThreshold = 32
  Layout = "cplx"
  GenMode = FALSE
INVARIANTS WellFormed OneMonomialPerInput IsEvalMap FullMixing
CHECK_DEADLOCK FALSE
