CONSTANT Ms <- BigMs
