----------------------------- MODULE FftInverse -----------------------------
(* C06: the inverse split-layout FFT (reim_ifft_ref.c) transcribed the same *)
(* way as FftSchedule.tla, executed on the symbolic OUTPUT of the forward   *)
(* transform: cell j starts with sum_i x_i w^(i (1 + 4 bitrev j)).  Values  *)
(* are, per input coordinate, polynomials in w modulo w^(2m) + 1 (sums      *)
(* cancel in the inverse, so a single monomial per input no longer holds).  *)
(* An inverse butterfly (a, b, E) maps  a' = a + b,  b' = (a - b) w^(-E)    *)
(* (table entries are conjugated: cos, -sin; the i*w form is E = e + m).    *)
(* Property: inverse after forward = m * identity, the documented factor.   *)
EXTENDS FftSchedule

VARIABLES mi, P, itodo
ivars == <<mi, P, itodo, m, E, todo, done>>      \* (the forward machine's variables are idle here)

\* ---- schedule as coded (exponents of the un-conjugated angle; the butterfly multiplies by w^(-E))
ILeaf2(M, off, s) == << {B(off, off + 1, Half(s))} >>
ILeaf4(M, off, s) ==
  LET pin == Half(s)  pin2 == Half(pin) IN
  << {B(off, off + 1, pin2), B(off + 2, off + 3, pin2 + M)},
     {B(off, off + 2, pin), B(off + 1, off + 3, pin)} >>
ILeaf8(M, off, s) ==
  LET pin == Half(s)  pin2 == Half(pin)  pin4 == Half(pin2)  j == Half(M) IN
  << {B(off, off + 1, pin4), B(off + 2, off + 3, pin4 + M), B(off + 4, off + 5, pin4 + j), B(off + 6, off + 7, pin4 + j + M)},
     {B(off, off + 2, pin2), B(off + 1, off + 3, pin2), B(off + 4, off + 6, pin2 + M), B(off + 5, off + 7, pin2 + M)},
     {B(off + i, off + i + 4, pin) : i \in 0 .. 3} >>
ILeaf16(M, off, s) ==
  LET pin == Half(s)  pin2 == Half(pin)  pin4 == Half(pin2)  pin8 == Half(pin4)  j == Half(M)  k == Half(j) IN
  << {B(off, off + 1, pin8), B(off + 2, off + 3, pin8 + M), B(off + 4, off + 5, pin8 + j), B(off + 6, off + 7, pin8 + j + M),
      B(off + 8, off + 9, pin8 + k), B(off + 10, off + 11, pin8 + k + M), B(off + 12, off + 13, pin8 + j + k), B(off + 14, off + 15, pin8 + j + k + M)},
     {B(off, off + 2, pin4), B(off + 1, off + 3, pin4), B(off + 4, off + 6, pin4 + M), B(off + 5, off + 7, pin4 + M),
      B(off + 8, off + 10, pin4 + j), B(off + 9, off + 11, pin4 + j), B(off + 12, off + 14, pin4 + j + M), B(off + 13, off + 15, pin4 + j + M)},
     {B(off + i, off + i + 4, pin2) : i \in 0 .. 3} \cup {B(off + 8 + i, off + 12 + i, pin2 + M) : i \in 0 .. 3},
     {B(off + i, off + i + 8, pin) : i \in 0 .. 7} >>
IBiTwiddle(M, h, off, rs0) ==
  << {B(off + i, off + h + i, rs0) : i \in 0 .. h - 1} \cup {B(off + 2 * h + i, off + 3 * h + i, rs0 + M) : i \in 0 .. h - 1},
     {B(off + i, off + 2 * h + i, 2 * rs0) : i \in 0 .. h - 1} \cup {B(off + h + i, off + 3 * h + i, 2 * rs0) : i \in 0 .. h - 1} >>

\* reim_ifft_bfs_16_ref: leaves, then radix-4 levels with growing h, then the radix-2 level when log2 is odd
RECURSIVE IBfsLevels(_, _, _, _, _)
IBfsLevels(M, size, base, h, ss) ==
  IF h < size \div 2
  THEN LET mm == 4 * h IN
       Concat([t \in 1 .. size \div mm |-> IBiTwiddle(M, h, base + (t - 1) * mm, ss + Half(Half(FracRevExp(t - 1, 4 * M))))])
       \o IBfsLevels(M, size, base, mm, 4 * ss)
  ELSE IF Log2(size) % 2 = 1 THEN Twiddle(h, base, ss) ELSE <<>>
IBfs(M, size, base, entry) ==
  LET ss == (entry * 16) \div size IN      \* entry_pwr * 16 / m   (exact: checked by EntryExact)
  Concat([t \in 1 .. size \div 16 |-> ILeaf16(M, base + (t - 1) * 16, ss + FracRevExp(t - 1, 4 * M))]) \o IBfsLevels(M, size, base, 16, ss)
RECURSIVE IRec(_, _, _, _)
IRec(M, size, base, entry) ==
  IF size <= RecThreshold THEN IBfs(M, size, base, entry)
  ELSE LET h == size \div 2  s == Half(entry) IN IRec(M, h, base, s) \o IRec(M, h, base + h, s + 2 * M) \o Twiddle(h, base, s)
\* ---- cplx layout (cplx_ifft_ref.c): radix-2 passes h = 1 .. size/2 up to m = 8; above, leaves of 16, then ONE radix-2 level at
\* h = 16 when log2 is odd (right after the leaves, not at the top as in the reim layout), then radix-4 levels
RECURSIVE ICBfs2Levels(_, _, _, _, _)
ICBfs2Levels(M, size, base, h, pom) ==
  IF h > size \div 2 THEN <<>>
  ELSE Concat([t \in 1 .. size \div (2 * h) |-> Twiddle(h, base + (t - 1) * 2 * h, pom + Half(FracRevExp(t - 1, 4 * M)))])
       \o ICBfs2Levels(M, size, base, 2 * h, 2 * pom)
ICBfs2(M, size, base, entry) == ICBfs2Levels(M, size, base, 1, entry \div size)
RECURSIVE ICBfsLevels(_, _, _, _, _)
ICBfsLevels(M, size, base, h, pwr) ==
  IF h >= size THEN <<>>
  ELSE Concat([t \in 1 .. size \div (4 * h) |-> IBiTwiddle(M, h, base + (t - 1) * 4 * h, pwr + Half(FracRevExp(2 * (t - 1), 4 * M)))])
       \o ICBfsLevels(M, size, base, 4 * h, 4 * pwr)
ICBfs(M, size, base, entry) ==
  LET pwr == (entry * 16) \div size IN
  Concat([t \in 1 .. size \div 16 |-> ILeaf16(M, base + (t - 1) * 16, pwr + FracRevExp(t - 1, 4 * M))])
  \o (IF Log2(size) % 2 = 1
      THEN Concat([t \in 1 .. size \div 32 |-> Twiddle(16, base + (t - 1) * 32, pwr + Half(FracRevExp(t - 1, 4 * M)))])
           \o ICBfsLevels(M, size, base, 32, 2 * pwr)
      ELSE ICBfsLevels(M, size, base, 16, pwr))
RECURSIVE ICRec(_, _, _, _)
ICRec(M, size, base, entry) ==
  IF size <= RecThreshold THEN ICBfs(M, size, base, entry)
  ELSE LET h == size \div 2  s == Half(entry) IN ICRec(M, h, base, s) \o ICRec(M, h, base + h, s + 2 * M) \o Twiddle(h, base, s)
IScheduleCplx(M) == IF M = 1 THEN <<>> ELSE IF M <= 8 THEN ICBfs2(M, M, 0, M) ELSE ICRec(M, M, 0, M)

IScheduleReim(M) ==
  CASE M = 1 -> <<>> [] M = 2 -> ILeaf2(M, 0, M) [] M = 4 -> ILeaf4(M, 0, M) [] M = 8 -> ILeaf8(M, 0, M) [] M = 16 -> ILeaf16(M, 0, M)
    [] OTHER -> IRec(M, M, 0, M)
ISchedule(M) == IF Layout = "cplx" THEN IScheduleCplx(M) ELSE IScheduleReim(M)

\* ---- polynomials in w modulo w^(2m)+1 (tuples of 2m integers)
PMono(mm, ex) == LET r == ex % (4 * mm) IN [t \in 1 .. 2 * mm |-> IF r < 2 * mm THEN (IF t = r + 1 THEN 1 ELSE 0) ELSE (IF t = r - 2 * mm + 1 THEN -1 ELSE 0)]
PZero(mm) == [t \in 1 .. 2 * mm |-> 0]
PMulW(mm, p, ex) == LET r == ex % (4 * mm) IN
  [t \in 1 .. 2 * mm |-> LET src == (t - 1 - r) % (4 * mm) IN IF src < 2 * mm THEN p[src + 1] ELSE -p[src - 2 * mm + 1]]
CAddP(a, b) == [i \in DOMAIN a |-> [t \in DOMAIN a[i] |-> a[i][t] + b[i][t]]]
CSubMulP(mm, a, b, ex) == [i \in DOMAIN a |-> PMulW(mm, [t \in DOMAIN a[i] |-> a[i][t] - b[i][t]], ex)]

IInit ==
  /\ mi \in Ms
  /\ P = IF GenMode THEN <<>> ELSE [j \in 0 .. mi - 1 |-> [i \in 0 .. mi - 1 |-> PMono(mi, i * (1 + 4 * BitRev(Log2(mi), j)))]]
  /\ itodo = ISchedule(mi)
  /\ m = mi /\ E = <<>> /\ todo = <<>> /\ done = 0
IApply(pass) ==
  [p \in 0 .. mi - 1 |->
     IF \E bf \in pass : bf[1] = p THEN LET bf == CHOOSE x \in pass : x[1] = p IN CAddP(P[bf[1]], P[bf[2]])
     ELSE IF \E bf \in pass : bf[2] = p THEN LET bf == CHOOSE x \in pass : x[2] = p IN CSubMulP(mi, P[bf[1]], P[bf[2]], -bf[3])
     ELSE P[p]]
IStep == ~GenMode /\ itodo # <<>> /\ P' = IApply(Head(itodo)) /\ itodo' = Tail(itodo) /\ UNCHANGED <<mi, m, E, todo, done>>
IFinished == itodo = <<>> /\ UNCHANGED ivars
ISpec == IInit /\ [][IStep \/ IFinished]_ivars

IWellFormed == \A t \in 1 .. Len(itodo) : \A x, y \in itodo[t] :
                 /\ x[1] \in 0 .. mi - 1 /\ x[2] \in 0 .. mi - 1 /\ x[1] # x[2] /\ x[3] >= 0
                 /\ (x # y => {x[1], x[2]} \cap {y[1], y[2]} = {})
InverseIsInverse == itodo = <<>> =>
  \A p \in 0 .. mi - 1 : \A i \in 0 .. mi - 1 : P[p][i] = [t \in 1 .. 2 * mi |-> IF i = p /\ t = 1 THEN mi ELSE 0]

\* ---- the inverse twiddle tables as the fill_*_ifft_* functions lay them out (conjugates: cos e, -sin e = sin(-e))
NS(e) == <<"s", -e>>
ZB(e) == <<C(e), NS(e)>>
IT2(s) == LET pin == Half(s) IN ZB(pin)
IT4(s) == LET pin == Half(s)  pin2 == Half(pin) IN ZB(pin2) \o ZB(pin)
IT8(M, s) == LET pin == Half(s)  pin2 == Half(pin)  pin4 == Half(pin2)  j == Half(M) IN
             <<C(pin4), C(pin4 + j), NS(pin4), NS(pin4 + j)>> \o ZB(pin2) \o ZB(pin)
IT16(M, s) == LET pin == Half(s)  pin2 == Half(pin)  pin4 == Half(pin2)  pin8 == Half(pin4)  j == Half(M)  k == Half(j) IN
              <<C(pin8), C(pin8 + j), C(pin8 + k), C(pin8 + j + k), NS(pin8), NS(pin8 + j), NS(pin8 + k), NS(pin8 + j + k)>>
              \o ZB(pin4) \o ZB(pin4 + j) \o ZB(pin2) \o ZB(pin)
RECURSIVE ITBfsLevels(_, _, _, _)
ITBfsLevels(M, size, h, ss) ==
  IF h < size \div 2
  THEN LET mm == 4 * h IN
       Concat([t \in 1 .. size \div mm |-> LET rs0 == ss + Half(Half(FracRevExp(t - 1, 4 * M))) IN ZB(rs0) \o ZB(2 * rs0)])
       \o ITBfsLevels(M, size, mm, 4 * ss)
  ELSE IF Log2(size) % 2 = 1 THEN ZB(ss) ELSE <<>>
ITBfs(M, size, entry) == LET ss == (entry * 16) \div size IN
  Concat([t \in 1 .. size \div 16 |-> IT16(M, ss + FracRevExp(t - 1, 4 * M))]) \o ITBfsLevels(M, size, 16, ss)
RECURSIVE ITRec(_, _, _)
ITRec(M, size, entry) == IF size <= RecThreshold THEN ITBfs(M, size, entry)
                         ELSE LET s == Half(entry) IN ITRec(M, size \div 2, s) \o ITRec(M, size \div 2, s + 2 * M) \o ZB(s)
ITableOfReim(M) == CASE M = 1 -> <<>> [] M = 2 -> IT2(M) [] M = 4 -> IT4(M) [] M = 8 -> IT8(M, M) [] M = 16 -> IT16(M, M) [] OTHER -> ITRec(M, M, M)
\* cplx layout
RECURSIVE ITC2Levels(_, _, _, _)
ITC2Levels(M, size, h, pom) ==
  IF h > size \div 2 THEN <<>>
  ELSE Concat([t \in 1 .. size \div (2 * h) |-> LET e == pom + Half(FracRevExp(t - 1, 4 * M)) IN IF h = 1 THEN ZB(e) ELSE ZB(e) \o ZB(e)])
       \o ITC2Levels(M, size, 2 * h, 2 * pom)
ITC16(M, s) == LET pin == Half(s)  pin2 == Half(pin)  pin4 == Half(pin2)  pin8 == Half(pin4)  j == Half(M)  k == Half(j) IN
               ZB(pin8) \o ZB(pin8 + j) \o ZB(pin8 + k) \o ZB(pin8 + j + k) \o ZB(pin4) \o ZB(pin4 + j) \o ZB(pin2) \o ZB(pin)
RECURSIVE ITCBfsLevels(_, _, _, _)
ITCBfsLevels(M, size, h, pwr) ==
  IF h >= size THEN <<>>
  ELSE Concat([t \in 1 .. size \div (4 * h) |-> LET e == pwr + Half(FracRevExp(2 * (t - 1), 4 * M)) IN ZB(e) \o ZB(2 * e)])
       \o ITCBfsLevels(M, size, 4 * h, 4 * pwr)
ITCBfs(M, size, entry) == LET pwr == (entry * 16) \div size IN
  Concat([t \in 1 .. size \div 16 |-> ITC16(M, pwr + FracRevExp(t - 1, 4 * M))])
  \o (IF Log2(size) % 2 = 1
      THEN Concat([t \in 1 .. size \div 32 |-> ZB(pwr + Half(FracRevExp(t - 1, 4 * M)))]) \o ITCBfsLevels(M, size, 32, 2 * pwr)
      ELSE ITCBfsLevels(M, size, 16, pwr))
RECURSIVE ITCRec(_, _, _)
ITCRec(M, size, entry) == IF size <= RecThreshold THEN ITCBfs(M, size, entry)
                          ELSE LET s == Half(entry) IN ITCRec(M, size \div 2, s) \o ITCRec(M, size \div 2, s + 2 * M) \o ZB(s) \o ZB(s)
ITableOfCplx(M) == IF M = 1 THEN <<>> ELSE IF M <= 8 THEN ITC2Levels(M, M, 1, 1) ELSE ITCRec(M, M, M)
ITableOf(M) == IF Layout = "cplx" THEN ITableOfCplx(M) ELSE ITableOfReim(M)
IDump == GenMode =>
   PrintT(<<"ITABLE", ToJson([m |-> mi, layout |-> Layout, table |-> [t \in 1 .. Len(ITableOf(mi)) |-> <<ITableOf(mi)[t][1], ITableOf(mi)[t][2] % (4 * mi)>>]])>>)
IOnlyInit == itodo = ISchedule(mi)
=============================================================================
