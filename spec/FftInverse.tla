----------------------------- MODULE FftInverse -----------------------------
(* C06: the inverse split-layout FFT (reim_ifft_ref.c) transcribed the same *)
(* way as FftSchedule.tla, executed on the symbolic OUTPUT of the forward   *)
(* transform: cell j starts with sum_i x_i w^(i (1 + 4 bitrev j)).  Values  *)
(* are, per input coordinate, polynomials in w modulo w^(2m) + 1 (sums      *)
(* cancel in the inverse, so a single monomial per input no longer holds).  *)
(* An inverse butterfly (a, b, E) maps  a' = a + b,  b' = (a - b) w^(-E)    *)
(* (table entries are conjugated: cos, -sin; the i*w form is E = e + m).    *)
(* Property: inverse after forward = m * identity, the documented factor.   *)
EXTENDS FftSchedule

VARIABLES mi, P, itodo
ivars == <<mi, P, itodo, m, E, todo, done>>      \* (the forward machine's variables are idle here)

\* ---- schedule as coded (exponents of the un-conjugated angle; the butterfly multiplies by w^(-E))
ILeaf2(M, off, s) == << {B(off, off + 1, Half(s))} >>
ILeaf4(M, off, s) ==
  LET pin == Half(s)  pin2 == Half(pin) IN
  << {B(off, off + 1, pin2), B(off + 2, off + 3, pin2 + M)},
     {B(off, off + 2, pin), B(off + 1, off + 3, pin)} >>
ILeaf8(M, off, s) ==
  LET pin == Half(s)  pin2 == Half(pin)  pin4 == Half(pin2)  j == Half(M) IN
  << {B(off, off + 1, pin4), B(off + 2, off + 3, pin4 + M), B(off + 4, off + 5, pin4 + j), B(off + 6, off + 7, pin4 + j + M)},
     {B(off, off + 2, pin2), B(off + 1, off + 3, pin2), B(off + 4, off + 6, pin2 + M), B(off + 5, off + 7, pin2 + M)},
     {B(off + i, off + i + 4, pin) : i \in 0 .. 3} >>
ILeaf16(M, off, s) ==
  LET pin == Half(s)  pin2 == Half(pin)  pin4 == Half(pin2)  pin8 == Half(pin4)  j == Half(M)  k == Half(j) IN
  << {B(off, off + 1, pin8), B(off + 2, off + 3, pin8 + M), B(off + 4, off + 5, pin8 + j), B(off + 6, off + 7, pin8 + j + M),
      B(off + 8, off + 9, pin8 + k), B(off + 10, off + 11, pin8 + k + M), B(off + 12, off + 13, pin8 + j + k), B(off + 14, off + 15, pin8 + j + k + M)},
     {B(off, off + 2, pin4), B(off + 1, off + 3, pin4), B(off + 4, off + 6, pin4 + M), B(off + 5, off + 7, pin4 + M),
      B(off + 8, off + 10, pin4 + j), B(off + 9, off + 11, pin4 + j), B(off + 12, off + 14, pin4 + j + M), B(off + 13, off + 15, pin4 + j + M)},
     {B(off + i, off + i + 4, pin2) : i \in 0 .. 3} \cup {B(off + 8 + i, off + 12 + i, pin2 + M) : i \in 0 .. 3},
     {B(off + i, off + i + 8, pin) : i \in 0 .. 7} >>
IBiTwiddle(M, h, off, rs0) ==
  << {B(off + i, off + h + i, rs0) : i \in 0 .. h - 1} \cup {B(off + 2 * h + i, off + 3 * h + i, rs0 + M) : i \in 0 .. h - 1},
     {B(off + i, off + 2 * h + i, 2 * rs0) : i \in 0 .. h - 1} \cup {B(off + h + i, off + 3 * h + i, 2 * rs0) : i \in 0 .. h - 1} >>

\* reim_ifft_bfs_16_ref: leaves, then radix-4 levels with growing h, then the radix-2 level when log2 is odd
RECURSIVE IBfsLevels(_, _, _, _, _)
IBfsLevels(M, size, base, h, ss) ==
  IF h < size \div 2
  THEN LET mm == 4 * h IN
       Concat([t \in 1 .. size \div mm |-> IBiTwiddle(M, h, base + (t - 1) * mm, ss + Half(Half(FracRevExp(t - 1, 4 * M))))])
       \o IBfsLevels(M, size, base, mm, 4 * ss)
  ELSE IF Log2(size) % 2 = 1 THEN Twiddle(h, base, ss) ELSE <<>>
IBfs(M, size, base, entry) ==
  LET ss == (entry * 16) \div size IN      \* entry_pwr * 16 / m   (exact: checked by EntryExact)
  Concat([t \in 1 .. size \div 16 |-> ILeaf16(M, base + (t - 1) * 16, ss + FracRevExp(t - 1, 4 * M))]) \o IBfsLevels(M, size, base, 16, ss)
RECURSIVE IRec(_, _, _, _)
IRec(M, size, base, entry) ==
  IF size <= RecThreshold THEN IBfs(M, size, base, entry)
  ELSE LET h == size \div 2  s == Half(entry) IN IRec(M, h, base, s) \o IRec(M, h, base + h, s + 2 * M) \o Twiddle(h, base, s)
ISchedule(M) ==
  CASE M = 1 -> <<>> [] M = 2 -> ILeaf2(M, 0, M) [] M = 4 -> ILeaf4(M, 0, M) [] M = 8 -> ILeaf8(M, 0, M) [] M = 16 -> ILeaf16(M, 0, M)
    [] OTHER -> IRec(M, M, 0, M)

\* ---- polynomials in w modulo w^(2m)+1 (tuples of 2m integers)
PMono(mm, ex) == LET r == ex % (4 * mm) IN [t \in 1 .. 2 * mm |-> IF r < 2 * mm THEN (IF t = r + 1 THEN 1 ELSE 0) ELSE (IF t = r - 2 * mm + 1 THEN -1 ELSE 0)]
PZero(mm) == [t \in 1 .. 2 * mm |-> 0]
PMulW(mm, p, ex) == LET r == ex % (4 * mm) IN
  [t \in 1 .. 2 * mm |-> LET src == (t - 1 - r) % (4 * mm) IN IF src < 2 * mm THEN p[src + 1] ELSE -p[src - 2 * mm + 1]]
CAddP(a, b) == [i \in DOMAIN a |-> [t \in DOMAIN a[i] |-> a[i][t] + b[i][t]]]
CSubMulP(mm, a, b, ex) == [i \in DOMAIN a |-> PMulW(mm, [t \in DOMAIN a[i] |-> a[i][t] - b[i][t]], ex)]

IInit ==
  /\ mi \in Ms
  /\ P = [j \in 0 .. mi - 1 |-> [i \in 0 .. mi - 1 |-> PMono(mi, i * (1 + 4 * BitRev(Log2(mi), j)))]]
  /\ itodo = ISchedule(mi)
  /\ m = mi /\ E = <<>> /\ todo = <<>> /\ done = 0
IApply(pass) ==
  [p \in 0 .. mi - 1 |->
     IF \E bf \in pass : bf[1] = p THEN LET bf == CHOOSE x \in pass : x[1] = p IN CAddP(P[bf[1]], P[bf[2]])
     ELSE IF \E bf \in pass : bf[2] = p THEN LET bf == CHOOSE x \in pass : x[2] = p IN CSubMulP(mi, P[bf[1]], P[bf[2]], -bf[3])
     ELSE P[p]]
IStep == itodo # <<>> /\ P' = IApply(Head(itodo)) /\ itodo' = Tail(itodo) /\ UNCHANGED <<mi, m, E, todo, done>>
IFinished == itodo = <<>> /\ UNCHANGED ivars
ISpec == IInit /\ [][IStep \/ IFinished]_ivars

IWellFormed == \A t \in 1 .. Len(itodo) : \A x, y \in itodo[t] :
                 /\ x[1] \in 0 .. mi - 1 /\ x[2] \in 0 .. mi - 1 /\ x[1] # x[2] /\ x[3] >= 0
                 /\ (x # y => {x[1], x[2]} \cap {y[1], y[2]} = {})
InverseIsInverse == itodo = <<>> =>
  \A p \in 0 .. mi - 1 : \A i \in 0 .. mi - 1 : P[p][i] = [t \in 1 .. 2 * mi |-> IF i = p /\ t = 1 THEN mi ELSE 0]
=============================================================================
