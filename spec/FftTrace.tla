------------------------------ MODULE FftTrace ------------------------------
(* Trace validation for C06: observations of the real reim / cplx FFT and   *)
(* iFFT implementations.                                                    *)
(*  Impulse: tr fft|ifft, m, i (position of the unit impulse), js (observed *)
(*           output positions), exps (the 4m-th root of unity each output   *)
(*           was classified to), ok (every residual below 2^-40).           *)
(*           fft : output j  = w^( i (1 + 4 bitrev j))                      *)
(*           ifft: output j  = w^(-j (1 + 4 bitrev i))   (inverse up to the factor m) *)
(*  NormErr: m, err2, ref2 (squared 2-norms of the error and of the exact   *)
(*           output, as integers on a common power-of-two scale, words):    *)
(*           err2 * 2^106 <= (8 log2(2m))^2 * ref2  (times m^2... for ifft  *)
(*           the exact output already carries the factor m)                 *)
(*  Helper:  fn log2m|revbits|fracrevbits|ceilto64b|ceilto32b, x, (nbits), val *)
(*  Same:    repeated calls gave bit-identical outputs and left the table   *)
(*           bytes unchanged (booleans measured by the harness)             *)
EXTENDS Wide, Bits, TLC, Json, IOUtils

Tr == ndJsonDeserialize(IOEnv.TRACE)
VARIABLES l, bad
\* (a * b) mod M for a < 2^17, b < 2^19, M <= 2^18
MulModW(a, b, M) == (((a * (b \div 1024)) % M) * 1024 + a * (b % 1024)) % M
Ev(m, j) == 1 + 4 * BitRev(Log2(m), j)

ImpulseOk(ev) ==
  /\ ev.ok
  /\ \A t \in 1 .. Len(ev.js) :
       LET j == ev.js[t]  M == 4 * ev.m IN
       IF ev.tr = "fft" THEN ev.exps[t] = MulModW(ev.i, Ev(ev.m, j), M)
       ELSE ev.exps[t] = (M - MulModW(j, Ev(ev.m, ev.i), M)) % M
NormOk(ev) ==
  LET c == 8 * (Log2(ev.m) + 1) IN
  MCmp(MShl(MFromWords(ev.err2), 106), MMulS(MFromWords(ev.ref2), c * c)) <= 0
\* the small index helpers every table generator relies on (commons_private.c), against independent definitions
HelperOk(ev) ==
  CASE ev.fn = "log2m" -> 2 ^ ev.val = ev.x
    [] ev.fn = "revbits" -> ev.val = BitRev(ev.nbits, ev.x)
    [] ev.fn = "fracrevbits" -> ev.val = BitRev(16, ev.x)                \* val = fracrevbits(x) * 2^16, x < 2^16
    [] ev.fn = "ceilto64b" -> ev.val % 64 = 0 /\ ev.val >= ev.x /\ ev.val < ev.x + 64
    [] ev.fn = "ceilto32b" -> ev.val % 32 = 0 /\ ev.val >= ev.x /\ ev.val < ev.x + 32
    [] OTHER -> FALSE
EventOk(ev) == CASE ev.e = "Helper" -> HelperOk(ev) [] ev.e = "Impulse" -> ImpulseOk(ev) [] ev.e = "NormErr" -> NormOk(ev)
                 [] ev.e = "Same" -> ev.identical /\ ev.table_unchanged [] OTHER -> FALSE

Init == l = 1 /\ bad = {}
Next == l <= Len(Tr) /\ l' = l + 1 /\ bad' = IF EventOk(Tr[l]) THEN bad ELSE bad \cup {l}
Spec == Init /\ [][Next]_<<l, bad>>
Report == (l = Len(Tr) + 1) => PrintT(<<"RESULT", ToJson([n |-> Len(Tr), bad |-> SetToSeq(bad)])>>)
=============================================================================
